// qtrt.h — RUNTIME mock of the documented Qt 5 API surface that qmluic's generated `uisupport_*.h` uses (C01, C13).
//
// Unlike cxx/qtmock.h (declarations for `-fsyntax-only`, owned by C16) everything here is DEFINED so that the real
// header can be compiled AND RUN without Qt:
//   * QString over std::u16string (QStringLiteral = u"" literal, operator+, comparisons by UTF-16 code unit, arg,
//     isEmpty), QList/QStringList over std::vector (`at()` out of range records undefined behaviour instead of
//     crashing), a minimal QVariant, QFlags (qflags.h operators);
//   * QObject::connect(sender, pointer-to-member signal, context, functor) with DIRECT connections: a signal is an
//     ordinary member whose body (generated: tools/gen_rt_decls.py) calls rt::activate(), which invokes every live
//     functor connected to that signal of that object, in connection order, with the prefix of the arguments the
//     functor accepts; QObject::disconnect(handle); QMetaObject::Connection converts to true while connected;
//   * qDebug()/qInfo()/qWarning()/qCritical(): the streamed values are recorded as one `log` trace event;
//   * property setters (generated) record `set` trace events, invokable methods `call` events (rt::tracing on);
//   * Q_ASSERT_X / Q_UNREACHABLE / SIGSEGV / SIGFPE abort the guarded evaluation (rt::guard) and are reported,
//     never fatal: a generated program may have undefined behaviour in a state (the oracle then does not compare).
// Classes, properties, signals, slots, enums come from harness/metatypes/verif.json (tools/gen_rt_decls.py).
#pragma once
#include <algorithm>
#include <cmath>
#include <csetjmp>
#include <csignal>
#include <cstdint>
#include <cstdio>
#include <cstring>
#include <functional>
#include <initializer_list>
#include <limits>
#include <map>
#include <memory>
#include <sstream>
#include <string>
#include <tuple>
#include <type_traits>
#include <utility>
#include <vector>
#include <sys/wait.h>
#include <unistd.h>

typedef unsigned int uint;
typedef unsigned int quint32;
typedef long long qint64;
typedef unsigned long long quint64;
typedef qint64 qlonglong;
typedef quint64 qulonglong;
typedef double qreal;

inline double qInf() { return std::numeric_limits<double>::infinity(); }
inline double qQNaN() { return std::numeric_limits<double>::quiet_NaN(); }

// ------------------------------------------------------------------------------------------------ guard / trace
namespace rt {
inline sigjmp_buf env;
inline bool active = false;
inline const char *failed = nullptr;
inline bool ub = false;          // a mock container was read out of range
inline bool tracing = false;
inline std::vector<std::string> trace;

[[noreturn]] inline void fail(const char *what)
{
    failed = what;
    if (active) siglongjmp(env, 1);
    // outside a guarded evaluation (e.g. after an earlier undefined behaviour corrupted memory): the process dies; the
    // generated main() runs every program in a child process of its own and reports `(died)` for it
    std::_Exit(3);
}
inline void on_signal(int sig) { fail(sig == SIGFPE ? "sigfpe" : sig == SIGSEGV ? "sigsegv" : "signal"); }
inline void install()
{
    struct sigaction sa;
    std::memset(&sa, 0, sizeof sa);
    sa.sa_handler = on_signal;
    sa.sa_flags = SA_NODEFER;
    sigaction(SIGSEGV, &sa, nullptr);
    sigaction(SIGFPE, &sa, nullptr);
    sigaction(SIGBUS, &sa, nullptr);
    sigaction(SIGILL, &sa, nullptr);
    sigaction(SIGABRT, &sa, nullptr);
}
/// runs f; returns nullptr, or what stopped it ("sigfpe", "sigsegv", "assert", "unreachable", "ub")
template <typename F> const char *guard(F f)
{
    failed = nullptr;
    ub = false;
    if (sigsetjmp(env, 1) == 0) {
        active = true;
        f();
        active = false;
        return ub ? "ub" : nullptr;
    }
    active = false;
    return failed ? failed : "signal";
}
/// runs `f` in a child process (fork): whatever undefined behaviour does to the child, the caller goes on;
/// prints ` (died)` and a newline if the child did not exit normally
template <typename F> void in_child(F f)
{
    std::fflush(stdout);
    pid_t pid = fork();
    if (pid == 0) {
        f();
        std::fflush(stdout);
        std::_Exit(0);
    }
    if (pid < 0) { f(); return; }
    int status = 0;
    waitpid(pid, &status, 0);
    if (!(WIFEXITED(status) && WEXITSTATUS(status) == 0)) {
        std::printf(" (died)\n");
        std::fflush(stdout);
    }
}
} // namespace rt

#define Q_UNLIKELY(expr) __builtin_expect(!!(expr), false)
#define Q_LIKELY(expr) __builtin_expect(!!(expr), true)
#define Q_UNUSED(x) (void)x;
#define Q_ASSERT_X(cond, where, what) ((cond) ? static_cast<void>(0) : rt::fail("assert"))
#define Q_ASSERT(cond) ((cond) ? static_cast<void>(0) : rt::fail("assert"))
#define Q_UNREACHABLE() rt::fail("unreachable")

// ------------------------------------------------------------------------------------------------ QFlags
class QFlag
{
    int i;
public:
    constexpr inline QFlag(int value) noexcept : i(value) {}
    constexpr inline operator int() const noexcept { return i; }
};

template <typename Enum> class QFlags
{
public:
    typedef int Int;
    typedef Enum enum_type;
    constexpr inline QFlags() noexcept : i(0) {}
    constexpr inline QFlags(Enum flags) noexcept : i(Int(flags)) {}
    constexpr inline QFlags(QFlag flag) noexcept : i(flag) {}
    constexpr inline operator Int() const noexcept { return i; }
    constexpr inline QFlags operator|(QFlags other) const noexcept { return QFlags(QFlag(i | other.i)); }
    constexpr inline QFlags operator|(Enum other) const noexcept { return QFlags(QFlag(i | Int(other))); }
    constexpr inline QFlags operator^(QFlags other) const noexcept { return QFlags(QFlag(i ^ other.i)); }
    constexpr inline QFlags operator^(Enum other) const noexcept { return QFlags(QFlag(i ^ Int(other))); }
    constexpr inline QFlags operator&(int mask) const noexcept { return QFlags(QFlag(i & mask)); }
    constexpr inline QFlags operator&(uint mask) const noexcept { return QFlags(QFlag(i & mask)); }
    constexpr inline QFlags operator&(Enum other) const noexcept { return QFlags(QFlag(i & Int(other))); }
    constexpr inline QFlags operator~() const noexcept { return QFlags(QFlag(~i)); }
    constexpr inline bool operator!() const noexcept { return !i; }
private:
    Int i;
};
#define Q_DECLARE_FLAGS(Flags, Enum) typedef QFlags<Enum> Flags;
#define Q_DECLARE_OPERATORS_FOR_FLAGS(Flags) \
    constexpr inline QFlags<Flags::enum_type> operator|(Flags::enum_type f1, Flags::enum_type f2) noexcept \
    { return QFlags<Flags::enum_type>(f1) | f2; } \
    constexpr inline QFlags<Flags::enum_type> operator|(Flags::enum_type f1, QFlags<Flags::enum_type> f2) noexcept \
    { return f2 | f1; }

// ------------------------------------------------------------------------------------------------ QString
class QString
{
public:
    QString() {}
    QString(const char16_t *s, std::size_t n) : d(s, n) {}
    QString(const std::u16string &s) : d(s) {}
    QString(const char *s) : d(fromUtf8(s).d) {}

    static QString fromUtf8(const char *s, int size = -1)
    {
        QString r;
        if (!s) return r;
        std::size_t n = size < 0 ? std::char_traits<char>::length(s) : std::size_t(size);
        for (std::size_t i = 0; i < n;) {
            unsigned char c = static_cast<unsigned char>(s[i]);
            char32_t cp; int len;
            if (c < 0x80) { cp = c; len = 1; }
            else if ((c >> 5) == 6) { cp = c & 0x1f; len = 2; }
            else if ((c >> 4) == 14) { cp = c & 0x0f; len = 3; }
            else if ((c >> 3) == 30) { cp = c & 0x07; len = 4; }
            else { cp = 0xfffd; len = 1; }
            for (int k = 1; k < len && i + k < n; ++k) cp = (cp << 6) | (static_cast<unsigned char>(s[i + k]) & 0x3f);
            i += len;
            if (cp >= 0x10000) { cp -= 0x10000; r.d.push_back(char16_t(0xd800 + (cp >> 10))); r.d.push_back(char16_t(0xdc00 + (cp & 0x3ff))); }
            else r.d.push_back(char16_t(cp));
        }
        return r;
    }
    static QString fromAscii(const std::string &s) { QString r; for (char c : s) r.d.push_back(char16_t(static_cast<unsigned char>(c))); return r; }
    static QString number(long long n) { return fromAscii(std::to_string(n)); }
    static QString number(int n) { return fromAscii(std::to_string(n)); }
    static QString number(uint n) { return fromAscii(std::to_string(n)); }
    static QString number(double n) { char buf[64]; std::snprintf(buf, sizeof buf, "%g", n); return fromAscii(buf); }

    int size() const { return int(d.size()); }
    int length() const { return int(d.size()); }
    bool isEmpty() const { return d.empty(); }
    const std::u16string &units() const { return d; }

    // QString::arg: every occurrence of the lowest-numbered place marker (%1..%99, optional L) is replaced
    QString arg(const QString &a) const
    {
        int lowest = 100;
        for (std::size_t i = 0; i < d.size(); ++i) {
            int n, len;
            if (marker(i, n, len) && n < lowest) lowest = n;
        }
        if (lowest == 100) return *this;   // Qt: warning "Argument missing", string unchanged
        QString r;
        for (std::size_t i = 0; i < d.size();) {
            int n, len;
            if (marker(i, n, len) && n == lowest) { r.d += a.d; i += std::size_t(len); }
            else { r.d.push_back(d[i]); ++i; }
        }
        return r;
    }
    QString arg(int a) const { return arg(number(a)); }
    QString arg(uint a) const { return arg(number(a)); }
    QString arg(long a) const { return arg(number(static_cast<long long>(a))); }
    QString arg(long long a) const { return arg(number(a)); }
    QString arg(double a) const { return arg(number(a)); }

    QString &operator+=(const QString &s) { d += s.d; return *this; }
    friend bool operator==(const QString &a, const QString &b) noexcept { return a.d == b.d; }
    friend bool operator!=(const QString &a, const QString &b) noexcept { return a.d != b.d; }
    friend bool operator<(const QString &a, const QString &b) noexcept { return a.d < b.d; }
    friend bool operator>(const QString &a, const QString &b) noexcept { return a.d > b.d; }
    friend bool operator<=(const QString &a, const QString &b) noexcept { return a.d <= b.d; }
    friend bool operator>=(const QString &a, const QString &b) noexcept { return a.d >= b.d; }
    friend const QString operator+(const QString &a, const QString &b) { QString t(a); t += b; return t; }
    friend const QString operator+(const QString &a, const char *b) { QString t(a); t += QString::fromUtf8(b); return t; }
    friend const QString operator+(const char *a, const QString &b) { QString t = QString::fromUtf8(a); t += b; return t; }
private:
    bool marker(std::size_t i, int &n, int &len) const
    {
        if (d[i] != u'%') return false;
        std::size_t j = i + 1;
        if (j < d.size() && d[j] == u'L') ++j;
        if (j >= d.size() || d[j] < u'0' || d[j] > u'9') return false;
        n = d[j] - u'0';
        ++j;
        if (j < d.size() && d[j] >= u'0' && d[j] <= u'9') { n = n * 10 + (d[j] - u'0'); ++j; }
        len = int(j - i);
        return true;
    }
    std::u16string d;
};
#define QT_UNICODE_LITERAL(str) u"" str
template <std::size_t N> inline QString rt_string_literal(const char16_t (&s)[N]) { return QString(s, N - 1); }
#define QStringLiteral(str) rt_string_literal(QT_UNICODE_LITERAL(str))

// ------------------------------------------------------------------------------------------------ containers
template <typename T> class QList
{
public:
    QList() {}
    QList(std::initializer_list<T> args) : d(args) {}
    int size() const { return int(d.size()); }
    bool isEmpty() const { return d.empty(); }
    const T &at(int i) const
    {
        if (i < 0 || std::size_t(i) >= d.size()) { rt::ub = true; static const T dflt{}; return dflt; }
        return d[std::size_t(i)];
    }
    T &operator[](int i)
    {
        if (i < 0 || std::size_t(i) >= d.size()) { rt::ub = true; static T dflt{}; return dflt; }
        return d[std::size_t(i)];
    }
    const T &operator[](int i) const { return at(i); }
    void append(const T &t) { d.push_back(t); }
    bool operator==(const QList &o) const { return d == o.d; }
    bool operator!=(const QList &o) const { return !(d == o.d); }
    typename std::vector<T>::const_iterator begin() const { return d.begin(); }
    typename std::vector<T>::const_iterator end() const { return d.end(); }
private:
    std::vector<T> d;
};

class QStringList : public QList<QString>
{
public:
    QStringList() {}
    QStringList(const QList<QString> &l) : QList<QString>(l) {}
    QStringList(std::initializer_list<QString> args) : QList<QString>(args) {}
};

// ------------------------------------------------------------------------------------------------ QVariant
class QVariant
{
public:
    enum Kind { Invalid, Int, UInt, Double, Bool, String };
    QVariant() {}
    QVariant(int v) : k(Int), i(v) {}
    QVariant(uint v) : k(UInt), i(v) {}
    QVariant(double v) : k(Double), dv(v) {}
    QVariant(bool v) : k(Bool), i(v) {}
    QVariant(const QString &v) : k(String), s(v) {}
    template <typename T> T value() const
    {
        if constexpr (std::is_same<T, QString>::value) return k == String ? s : QString();
        else if constexpr (std::is_same<T, QVariant>::value) return *this;
        else if constexpr (std::is_arithmetic<T>::value) return k == Double ? T(dv) : (k == Invalid || k == String) ? T() : T(i);
        else return T();
    }
    Kind kind() const { return k; }
    long long rawInt() const { return i; }
    double rawDouble() const { return dv; }
    const QString &rawString() const { return s; }
    friend bool operator==(const QVariant &a, const QVariant &b) { return a.k == b.k && a.i == b.i && a.dv == b.dv && a.s == b.s; }
    friend bool operator!=(const QVariant &a, const QVariant &b) { return !(a == b); }
private:
    Kind k = Invalid;
    long long i = 0;
    double dv = 0;
    QString s;
};

// ------------------------------------------------------------------------------------------------ values as text
class QObject;
namespace rt {
inline std::map<const void *, std::string> names;      // object → id in the document
inline std::string hex64(unsigned long long v) { char b[32]; std::snprintf(b, sizeof b, "%016llx", v); return b; }
inline std::string show(int v) { return "(int " + std::to_string(v) + ")"; }
inline std::string show(uint v) { return "(uint " + std::to_string(v) + ")"; }
// an integer literal that does not fit `int` (and `-2147483648`, which C++ reads as `-(2147483648L)`) is a `long`: the
// event records the NUMBER; only a value outside the `int` range is marked
inline std::string show(long v)
{
    return (v >= -2147483647L - 1 && v <= 2147483647L) ? "(int " + std::to_string(v) + ")" : "(long " + std::to_string(v) + ")";
}
inline std::string show(bool v) { return v ? "(bool true)" : "(bool false)"; }
inline std::string show(double v) { unsigned long long b; std::memcpy(&b, &v, 8); return std::isnan(v) ? "(double nan)" : "(double " + hex64(b) + ")"; }
inline std::string show(const QString &s)
{
    std::string r = "(str";
    for (char16_t c : s.units()) r += " " + std::to_string(unsigned(c));
    return r + ")";
}
inline std::string show(const char *s) { return show(QString::fromUtf8(s)); }
inline std::string show(const void *p)
{
    if (!p) return "(ptr null)";
    auto it = names.find(p);
    return it == names.end() ? "(ptr ?)" : "(ptr " + it->second + ")";
}
inline std::string show(std::nullptr_t) { return "(ptr null)"; }
template <typename E> inline std::string show(QFlags<E> f) { return "(enum " + std::to_string(int(f)) + ")"; }
template <typename E> inline typename std::enable_if<std::is_enum<E>::value, std::string>::type show(E e) { return "(enum " + std::to_string(int(e)) + ")"; }
template <typename T> inline std::string show(const QList<T> &l)
{
    std::string r = "(list";
    for (const T &x : l) r += " " + show(x);
    return r + ")";
}
inline std::string show(const QVariant &v)
{
    switch (v.kind()) {
    case QVariant::Int: return "(variant " + show(int(v.rawInt())) + ")";
    case QVariant::UInt: return "(variant " + show(uint(v.rawInt())) + ")";
    case QVariant::Double: return "(variant " + show(v.rawDouble()) + ")";
    case QVariant::Bool: return "(variant " + show(v.rawInt() != 0) + ")";
    case QVariant::String: return "(variant " + show(v.rawString()) + ")";
    default: return "(variant invalid)";
    }
}
inline double dbl(unsigned long long bits) { double d; std::memcpy(&d, &bits, 8); return d; }
inline QString str(std::initializer_list<unsigned> units) { std::u16string s; for (unsigned u : units) s.push_back(char16_t(u)); return QString(s); }
} // namespace rt

// ------------------------------------------------------------------------------------------------ QObject
struct QMetaObject
{
    class Connection
    {
    public:
        Connection() {}
        explicit Connection(std::shared_ptr<bool> a) : alive(std::move(a)) {}
        explicit operator bool() const { return alive && *alive; }
        bool operator!() const { return !(alive && *alive); }
        std::shared_ptr<bool> alive;
    };
};

namespace rt {
struct Slot
{
    std::string signal;                       // bytes of the pointer to member
    std::shared_ptr<bool> alive;
    std::function<void(void **)> call;
};
template <typename Func> struct FunctionPointer;
template <class Obj, typename Ret, typename... Args> struct FunctionPointer<Ret (Obj::*)(Args...)>
{
    typedef Obj Object;
    typedef std::tuple<typename std::decay<Args>::type...> Arguments;
    enum { ArgumentCount = sizeof...(Args) };
};
template <typename Func> inline std::string key(Func f) { return std::string(reinterpret_cast<const char *>(&f), sizeof f); }

// call `slot` with the first N signal arguments, N the largest count the functor accepts
template <typename Slot, typename Tuple, std::size_t... I>
inline auto invoke_n(Slot &slot, void **a, std::index_sequence<I...>) -> decltype(slot(*static_cast<typename std::tuple_element<I, Tuple>::type *>(a[I])...), void())
{
    slot(*static_cast<typename std::tuple_element<I, Tuple>::type *>(a[I])...);
}
template <typename Slot, typename Tuple, std::size_t N, typename = void> struct Caller
{
    static void call(Slot &slot, void **a) { Caller<Slot, Tuple, N - 1>::call(slot, a); }
};
template <typename Slot, typename Tuple, std::size_t N>
struct Caller<Slot, Tuple, N, decltype(invoke_n<Slot, Tuple>(std::declval<Slot &>(), nullptr, std::make_index_sequence<N>()))>
{
    static void call(Slot &slot, void **a) { invoke_n<Slot, Tuple>(slot, a, std::make_index_sequence<N>()); }
};
} // namespace rt

class QObject
{
public:
    virtual ~QObject() {}
    template <typename Func1, typename Func2>
    static QMetaObject::Connection connect(const typename rt::FunctionPointer<Func1>::Object *sender, Func1 signal,
                                           const QObject *context, Func2 slot)
    {
        typedef rt::FunctionPointer<Func1> SignalType;
        (void)context;
        if (!sender) rt::fail("connect-null-sender");
        auto alive = std::make_shared<bool>(true);
        rt::Slot s;
        s.signal = rt::key(signal);
        s.alive = alive;
        s.call = [slot](void **a) mutable {
            rt::Caller<Func2, typename SignalType::Arguments, SignalType::ArgumentCount>::call(slot, a);
        };
        const_cast<typename SignalType::Object *>(sender)->rt_slots.push_back(std::move(s));
        return QMetaObject::Connection(alive);
    }
    static bool disconnect(const QMetaObject::Connection &c)
    {
        if (!c) return false;
        *c.alive = false;
        return true;
    }
    std::vector<rt::Slot> rt_slots;
};

namespace rt {
template <typename Func> inline void activate(QObject *o, Func signal, void **args)
{
    std::string k = key(signal);
    // connections made while the slots run are not served; removed ones are skipped
    std::size_t n = o->rt_slots.size();
    for (std::size_t i = 0; i < n; ++i) {
        if (o->rt_slots[i].signal == k && *o->rt_slots[i].alive) {
            auto f = o->rt_slots[i].call;
            f(args);
        }
    }
}
inline int connections(const QObject *o)
{
    int n = 0;
    for (const Slot &s : o->rt_slots) n += *s.alive ? 1 : 0;
    return n;
}
inline void trace_set(const QObject *o, const char *prop, const std::string &v)
{
    if (tracing) trace.push_back("(set " + show(static_cast<const void *>(o)) + " \"" + prop + "\" " + v + ")");
}
inline void trace_call(const QObject *o, const char *method, std::initializer_list<std::string> args)
{
    if (!tracing) return;
    std::string r = "(call " + show(static_cast<const void *>(o)) + " \"" + method + "\"";
    for (const std::string &a : args) r += " " + a;
    trace.push_back(r + ")");
}
} // namespace rt

template <typename... Args> struct QOverload
{
    template <typename R, typename T> static constexpr auto of(R (T::*ptr)(Args...)) noexcept -> decltype(ptr) { return ptr; }
};

// ------------------------------------------------------------------------------------------------ logging
class QDebug
{
public:
    explicit QDebug(const char *level) : line(std::string("(log ") + level) {}
    QDebug(const QDebug &) = delete;
    ~QDebug() { if (rt::tracing) rt::trace.push_back(line + ")"); }
    QDebug &noquote() { return *this; }
    template <typename T> QDebug &operator<<(const T &t) { line += " " + rt::show(t); return *this; }
    QDebug &operator<<(const QObject *o) { line += " " + rt::show(static_cast<const void *>(o)); return *this; }
private:
    std::string line;
};
struct QMessageLogger
{
    QDebug debug() const { return QDebug("debug"); }
    QDebug info() const { return QDebug("info"); }
    QDebug warning() const { return QDebug("warn"); }
    QDebug critical() const { return QDebug("error"); }
};
#define qDebug QMessageLogger().debug
#define qInfo QMessageLogger().info
#define qWarning QMessageLogger().warning
#define qCritical QMessageLogger().critical

struct QCoreApplication
{
    // the "translation" carries its CONTEXT: `<context>source` — so that the context the generated code passes (the
    // document's type name, in bindings and in handlers) is part of every value / trace compared with Spec.Sem
    // (Host.tr of the Lean driver is the same function)
    static QString translate(const char *context, const char *key, const char * = nullptr, int = -1)
    {
        return QString::fromUtf8((std::string("<") + (context ? context : "(null)") + ">" + key).c_str());
    }
};

class QWidget : public QObject
{
public:
    explicit QWidget(QWidget * = nullptr) {}
};
