// qtmock.h — compact mock of the *documented* Qt 5 API surface that qmluic's generated `uisupport_*.h` may use.
//
// Declarations only (the C16 compile check uses `g++ -std=c++17 -fsyntax-only`); the few inline definitions
// (QString over std::u16string) exist so that the literal check can *run* a program that prints the UTF-16
// code units of `QStringLiteral(...)`.
//
// What is mirrored from Qt (and why it matters for the check):
//  * QStringLiteral(str) is `u"" str` (qstringliteral.h: QT_UNICODE_LITERAL) — the compiler decodes the escapes.
//  * QString::fromUtf8 / operator+ / comparison / arg(QString|int|uint|double...) / isEmpty.
//  * QFlags<Enum> with the operators of qflags.h; Q_DECLARE_OPERATORS_FOR_FLAGS defines `Enum | Enum` only (Qt 5).
//  * QList<T> and QVector<T> are DIFFERENT templates (Qt 5); QStringList derives from QList<QString>.
//  * QObject::connect(sender, pointer-to-member signal, context, functor): the sender must convert to the signal's
//    class, the context to `const QObject *`, the functor must be callable with a prefix of the signal's arguments
//    (QtPrivate::ComputeFunctorArgumentCount).  QOverload<Args...>::of selects by exact parameter list.
//  * qDebug()/qInfo()/qWarning()/qCritical() return QDebug, which is an INCOMPLETE type here: it is completed by
//    the mock header <QtDebug> (cxx/QtDebug), exactly as in Qt where <QtGlobal> only forward-declares QDebug.
//  * Q_ASSERT_X, Q_UNREACHABLE, Q_UNLIKELY, quint32, uint, qreal, QCoreApplication::translate.
// Classes, properties, signals, slots, enums come from the metatypes (tools/gen_mock_decls.py), not from here.
#pragma once
#include <cstddef>
#include <cstdint>
#include <initializer_list>
#include <string>
#include <tuple>
#include <type_traits>
#include <utility>
#include <vector>

typedef unsigned char uchar;
typedef unsigned short ushort;
typedef unsigned int uint;
typedef unsigned long ulong;
typedef signed char qint8;
typedef unsigned char quint8;
typedef short qint16;
typedef unsigned short quint16;
typedef int qint32;
typedef unsigned int quint32;
typedef long long qint64;
typedef unsigned long long quint64;
typedef qint64 qlonglong;
typedef quint64 qulonglong;
typedef double qreal;
typedef std::ptrdiff_t qsizetype;
typedef unsigned int QRgb;
typedef quint64 WId;

// <QtGlobal> / <QtNumeric>
double qInf();
double qQNaN();
double qSNaN();

#define Q_UNLIKELY(expr) __builtin_expect(!!(expr), false)
#define Q_LIKELY(expr) __builtin_expect(!!(expr), true)
#define Q_UNUSED(x) (void)x;
void qt_assert_x(const char *where, const char *what, const char *file, int line) noexcept;
#define Q_ASSERT_X(cond, where, what) ((cond) ? static_cast<void>(0) : qt_assert_x(where, what, __FILE__, __LINE__))
#define Q_ASSERT(cond) ((cond) ? static_cast<void>(0) : qt_assert_x("", #cond, __FILE__, __LINE__))
#define Q_UNREACHABLE() do { Q_ASSERT_X(false, "Q_UNREACHABLE()", "Q_UNREACHABLE was reached"); __builtin_unreachable(); } while (false)

// ---------------------------------------------------------------------------------------------- QFlags
class QFlag
{
    int i;
public:
    constexpr inline QFlag(int value) noexcept : i(value) {}
    constexpr inline operator int() const noexcept { return i; }
};

template <typename Enum> class QFlags
{
    static_assert(std::is_enum<Enum>::value, "QFlags is only usable on enumeration types.");
public:
    typedef int Int;
    typedef Enum enum_type;
    constexpr inline QFlags() noexcept : i(0) {}
    constexpr inline QFlags(Enum flags) noexcept : i(Int(flags)) {}
    constexpr inline QFlags(QFlag flag) noexcept : i(flag) {}
    constexpr inline QFlags &operator&=(int mask) noexcept { i &= mask; return *this; }
    constexpr inline QFlags &operator&=(uint mask) noexcept { i &= mask; return *this; }
    constexpr inline QFlags &operator&=(Enum mask) noexcept { i &= Int(mask); return *this; }
    constexpr inline QFlags &operator|=(QFlags other) noexcept { i |= other.i; return *this; }
    constexpr inline QFlags &operator|=(Enum other) noexcept { i |= Int(other); return *this; }
    constexpr inline QFlags &operator^=(QFlags other) noexcept { i ^= other.i; return *this; }
    constexpr inline QFlags &operator^=(Enum other) noexcept { i ^= Int(other); return *this; }
    constexpr inline operator Int() const noexcept { return i; }
    constexpr inline QFlags operator|(QFlags other) const noexcept { return QFlags(QFlag(i | other.i)); }
    constexpr inline QFlags operator|(Enum other) const noexcept { return QFlags(QFlag(i | Int(other))); }
    constexpr inline QFlags operator^(QFlags other) const noexcept { return QFlags(QFlag(i ^ other.i)); }
    constexpr inline QFlags operator^(Enum other) const noexcept { return QFlags(QFlag(i ^ Int(other))); }
    constexpr inline QFlags operator&(int mask) const noexcept { return QFlags(QFlag(i & mask)); }
    constexpr inline QFlags operator&(uint mask) const noexcept { return QFlags(QFlag(i & mask)); }
    constexpr inline QFlags operator&(Enum other) const noexcept { return QFlags(QFlag(i & Int(other))); }
    constexpr inline QFlags operator~() const noexcept { return QFlags(QFlag(~i)); }
    constexpr inline bool operator!() const noexcept { return !i; }
    constexpr inline bool testFlag(Enum flag) const noexcept { return (i & Int(flag)) == Int(flag); }
private:
    Int i;
};

class QIncompatibleFlag
{
    int i;
public:
    constexpr inline explicit QIncompatibleFlag(int value) noexcept : i(value) {}
    constexpr inline operator int() const noexcept { return i; }
};

#define Q_DECLARE_FLAGS(Flags, Enum) typedef QFlags<Enum> Flags;
#define Q_DECLARE_OPERATORS_FOR_FLAGS(Flags) \
    constexpr inline QFlags<Flags::enum_type> operator|(Flags::enum_type f1, Flags::enum_type f2) noexcept \
    { return QFlags<Flags::enum_type>(f1) | f2; } \
    constexpr inline QFlags<Flags::enum_type> operator|(Flags::enum_type f1, QFlags<Flags::enum_type> f2) noexcept \
    { return f2 | f1; } \
    constexpr inline QIncompatibleFlag operator|(Flags::enum_type f1, int f2) noexcept \
    { return QIncompatibleFlag(int(f1) | f2); }

// ---------------------------------------------------------------------------------------------- QString & co.
class QChar
{
public:
    constexpr QChar() noexcept : ucs(0) {}
    constexpr QChar(char16_t c) noexcept : ucs(c) {}
    constexpr QChar(int c) noexcept : ucs(char16_t(c)) {}
    constexpr char16_t unicode() const noexcept { return ucs; }
private:
    char16_t ucs;
};

class QByteArray
{
public:
    QByteArray() {}
    QByteArray(const char *s) : d(s ? s : "") {}
    int size() const { return int(d.size()); }
    bool isEmpty() const { return d.empty(); }
    const char *constData() const { return d.c_str(); }
private:
    std::string d;
};

class QString
{
public:
    QString() {}
    QString(const char16_t *s) : d(s ? s : u"") {}
    QString(const char16_t *s, std::size_t n) : d(s, n) {}
    QString(const QChar *s, int n) { for (int i = 0; i < n; ++i) d.push_back(s[i].unicode()); }
    QString(QChar c) : d(1, c.unicode()) {}
    // NB: like a Qt built with QT_NO_CAST_FROM_ASCII is NOT assumed: QString(const char *) exists in Qt 5 and decodes UTF-8
    QString(const char *s) : d(fromUtf8(s).d) {}

    static QString fromUtf8(const char *s, int size = -1);
    static QString fromUtf8(const QByteArray &ba) { return fromUtf8(ba.constData(), ba.size()); }
    static QString fromLatin1(const char *s, int size = -1);
    static QString number(int n, int base = 10);
    static QString number(uint n, int base = 10);
    static QString number(double n, char f = 'g', int prec = 6);

    int size() const { return int(d.size()); }
    int length() const { return int(d.size()); }
    bool isEmpty() const { return d.empty(); }
    bool isNull() const { return d.empty(); }
    const QChar at(int i) const { return QChar(d.at(std::size_t(i))); }
    const char16_t *utf16() const { return d.c_str(); }
    QByteArray toUtf8() const;

    QString arg(const QString &a, int fieldWidth = 0, QChar fillChar = QChar(u' ')) const;
    QString arg(qlonglong a, int fieldwidth = 0, int base = 10, QChar fillChar = QChar(u' ')) const;
    QString arg(qulonglong a, int fieldwidth = 0, int base = 10, QChar fillChar = QChar(u' ')) const;
    QString arg(long a, int fieldwidth = 0, int base = 10, QChar fillChar = QChar(u' ')) const;
    QString arg(ulong a, int fieldwidth = 0, int base = 10, QChar fillChar = QChar(u' ')) const;
    QString arg(int a, int fieldWidth = 0, int base = 10, QChar fillChar = QChar(u' ')) const;
    QString arg(uint a, int fieldWidth = 0, int base = 10, QChar fillChar = QChar(u' ')) const;
    QString arg(short a, int fieldWidth = 0, int base = 10, QChar fillChar = QChar(u' ')) const;
    QString arg(ushort a, int fieldWidth = 0, int base = 10, QChar fillChar = QChar(u' ')) const;
    QString arg(double a, int fieldWidth = 0, char fmt = 'g', int prec = -1, QChar fillChar = QChar(u' ')) const;
    QString arg(char a, int fieldWidth = 0, QChar fillChar = QChar(u' ')) const;
    QString arg(QChar a, int fieldWidth = 0, QChar fillChar = QChar(u' ')) const;

    QString &operator+=(const QString &s) { d += s.d; return *this; }
    QString &append(const QString &s) { d += s.d; return *this; }

    friend bool operator==(const QString &a, const QString &b) noexcept { return a.d == b.d; }
    friend bool operator!=(const QString &a, const QString &b) noexcept { return a.d != b.d; }
    friend bool operator<(const QString &a, const QString &b) noexcept { return a.d < b.d; }
    friend bool operator>(const QString &a, const QString &b) noexcept { return a.d > b.d; }
    friend bool operator<=(const QString &a, const QString &b) noexcept { return a.d <= b.d; }
    friend bool operator>=(const QString &a, const QString &b) noexcept { return a.d >= b.d; }
    friend const QString operator+(const QString &a, const QString &b) { QString t(a); t += b; return t; }
    // Qt 5 (without QT_NO_CAST_FROM_ASCII) also has the const char * mixes
    friend const QString operator+(const QString &a, const char *b) { QString t(a); t += QString::fromUtf8(b); return t; }
    friend const QString operator+(const char *a, const QString &b) { QString t = QString::fromUtf8(a); t += b; return t; }
    bool operator==(const char *s) const { return *this == fromUtf8(s); }
    bool operator!=(const char *s) const { return !(*this == fromUtf8(s)); }
private:
    std::u16string d;
};

inline QString QString::fromUtf8(const char *s, int size)
{
    QString r;
    if (!s) return r;
    std::size_t n = size < 0 ? std::char_traits<char>::length(s) : std::size_t(size);
    for (std::size_t i = 0; i < n;) {
        unsigned char c = static_cast<unsigned char>(s[i]);
        char32_t cp; int len;
        if (c < 0x80) { cp = c; len = 1; }
        else if ((c >> 5) == 6) { cp = c & 0x1f; len = 2; }
        else if ((c >> 4) == 14) { cp = c & 0x0f; len = 3; }
        else if ((c >> 3) == 30) { cp = c & 0x07; len = 4; }
        else { cp = 0xfffd; len = 1; }
        for (int k = 1; k < len && i + k < n; ++k) cp = (cp << 6) | (static_cast<unsigned char>(s[i + k]) & 0x3f);
        i += len;
        if (cp >= 0x10000) { cp -= 0x10000; r.d.push_back(char16_t(0xd800 + (cp >> 10))); r.d.push_back(char16_t(0xdc00 + (cp & 0x3ff))); }
        else r.d.push_back(char16_t(cp));
    }
    return r;
}

#define QT_UNICODE_LITERAL(str) u"" str
// qstringliteral.h: the array size gives the length, so embedded NULs are kept
template <std::size_t N> inline QString qv_string_literal(const char16_t (&s)[N]) { return QString(s, N - 1); }
#define QStringLiteral(str) qv_string_literal(QT_UNICODE_LITERAL(str))
class QLatin1String
{
public:
    constexpr explicit QLatin1String(const char *s) noexcept : d(s) {}
    const char *latin1() const { return d; }
private:
    const char *d;
};

// ---------------------------------------------------------------------------------------------- containers
template <typename T> class QList
{
public:
    QList() {}
    QList(std::initializer_list<T> args) : d(args) {}
    int size() const { return int(d.size()); }
    int count() const { return int(d.size()); }
    int length() const { return int(d.size()); }
    bool isEmpty() const { return d.empty(); }
    const T &at(int i) const { return d.at(std::size_t(i)); }
    const T &operator[](int i) const { return d[std::size_t(i)]; }
    T &operator[](int i) { return d[std::size_t(i)]; }
    T value(int i) const { return d.at(std::size_t(i)); }
    const T &first() const { return d.front(); }
    const T &last() const { return d.back(); }
    void append(const T &t) { d.push_back(t); }
    QList &operator<<(const T &t) { d.push_back(t); return *this; }
    bool operator==(const QList &o) const { return d == o.d; }
    bool operator!=(const QList &o) const { return !(d == o.d); }
    typename std::vector<T>::const_iterator begin() const { return d.begin(); }
    typename std::vector<T>::const_iterator end() const { return d.end(); }
private:
    std::vector<T> d;
};

// Qt 5: QVector is NOT QList
template <typename T> class QVector
{
public:
    QVector() {}
    QVector(std::initializer_list<T> args) : d(args) {}
    int size() const { return int(d.size()); }
    bool isEmpty() const { return d.empty(); }
    const T &at(int i) const { return d.at(std::size_t(i)); }
    const T &operator[](int i) const { return d[std::size_t(i)]; }
    T &operator[](int i) { return d[std::size_t(i)]; }
private:
    std::vector<T> d;
};

template <typename A, typename B> struct QPair { A first; B second; };
template <typename K, typename V> class QMap {};
template <typename K, typename V> class QHash {};
template <typename T> class QSet {};
template <typename T> class QDeclarativeListProperty {};
template <typename T> class QQmlListProperty {};

class QStringList : public QList<QString>
{
public:
    QStringList() {}
    explicit QStringList(const QString &s) { append(s); }
    QStringList(const QList<QString> &l) : QList<QString>(l) {}
    QStringList(std::initializer_list<QString> args) : QList<QString>(args) {}
    QString join(const QString &sep) const;
    bool contains(const QString &s) const;
};

// ---------------------------------------------------------------------------------------------- QVariant
class QVariant
{
public:
    QVariant() {}
    QVariant(int) {}
    QVariant(uint) {}
    QVariant(qlonglong) {}
    QVariant(qulonglong) {}
    QVariant(bool) {}
    QVariant(double) {}
    QVariant(const char *) {}
    QVariant(const QString &) {}
    QVariant(const QStringList &) {}
    QVariant(const QByteArray &) {}
    template <typename T> T value() const;
    template <typename T> static QVariant fromValue(const T &);
    bool isValid() const;
    bool isNull() const;
    int toInt(bool *ok = nullptr) const;
    uint toUInt(bool *ok = nullptr) const;
    double toDouble(bool *ok = nullptr) const;
    bool toBool() const;
    QString toString() const;
    QStringList toStringList() const;
    friend bool operator==(const QVariant &, const QVariant &);
    friend bool operator!=(const QVariant &, const QVariant &);
};

// ---------------------------------------------------------------------------------------------- QObject plumbing
class QObject;
struct QMetaObject
{
    class Connection
    {
    public:
        Connection();
        Connection(const Connection &other);
        Connection &operator=(const Connection &other);
        ~Connection();
        // qobjectdefs.h: `operator RestrictedBool() const` — usable in `!c`, `if (c)`, `||`, not convertible to int
        typedef void *Connection::*RestrictedBool;
        operator RestrictedBool() const;
    private:
        void *d_ptr;
    };
};

namespace QtPrivate {
template <typename... T> struct List {};
template <typename L> struct ListDropLast;
template <typename H> struct ListDropLast<List<H>> { typedef List<> type; };
template <typename H, typename... T> struct ListDropLast<List<H, T...>>
{
    template <typename X, typename L> struct Cons;
    template <typename X, typename... Y> struct Cons<X, List<Y...>> { typedef List<X, Y...> type; };
    typedef typename Cons<H, typename ListDropLast<List<T...>>::type>::type type;
};
template <typename F, typename L> struct InvocableWith;
template <typename F, typename... A> struct InvocableWith<F, List<A...>> : std::is_invocable<F, A...> {};
// ComputeFunctorArgumentCount: the functor may take any prefix of the signal's arguments
template <typename F, typename L, bool = InvocableWith<F, L>::value> struct FunctorAcceptsPrefix : std::true_type {};
template <typename F> struct FunctorAcceptsPrefix<F, List<>, false> : std::false_type {};
template <typename F, typename H, typename... T> struct FunctorAcceptsPrefix<F, List<H, T...>, false>
    : FunctorAcceptsPrefix<F, typename ListDropLast<List<H, T...>>::type> {};

template <typename Func> struct FunctionPointer { enum { ArgumentCount = -1, IsPointerToMemberFunction = false }; };
template <class Obj, typename Ret, typename... Args> struct FunctionPointer<Ret (Obj::*)(Args...)>
{
    typedef Obj Object;
    typedef List<Args...> Arguments;
    typedef Ret ReturnType;
    enum { ArgumentCount = sizeof...(Args), IsPointerToMemberFunction = true };
};
template <class Obj, typename Ret, typename... Args> struct FunctionPointer<Ret (Obj::*)(Args...) const>
{
    typedef Obj Object;
    typedef List<Args...> Arguments;
    typedef Ret ReturnType;
    enum { ArgumentCount = sizeof...(Args), IsPointerToMemberFunction = true };
};
} // namespace QtPrivate

// members every QObject has that are not in the metatypes (static connect/disconnect, parent, setProperty ...);
// injected into class QObject by tools/gen_mock_decls.py
#define QV_QOBJECT_STATIC_API \
    template <typename Func1, typename Func2> \
    static inline QMetaObject::Connection connect(const typename QtPrivate::FunctionPointer<Func1>::Object *sender, Func1 signal, \
                                                  const QObject *context, Func2 slot) \
    { \
        typedef QtPrivate::FunctionPointer<Func1> SignalType; \
        static_assert(int(SignalType::IsPointerToMemberFunction), "connect: the signal must be a pointer to member function"); \
        static_assert(QtPrivate::FunctorAcceptsPrefix<Func2, typename SignalType::Arguments>::value, \
                      "connect: Signal and slot arguments are not compatible."); \
        (void)sender; (void)signal; (void)context; (void)slot; \
        return QMetaObject::Connection(); \
    } \
    template <typename Func1, typename Func2> \
    static inline QMetaObject::Connection connect(const typename QtPrivate::FunctionPointer<Func1>::Object *sender, Func1 signal, Func2 slot) \
    { return connect(sender, signal, sender, slot); } \
    static bool disconnect(const QMetaObject::Connection &); \
    QObject *parent() const; \
    void setParent(QObject *parent); \
    bool setProperty(const char *name, const QVariant &value); \
    QVariant property(const char *name) const; \
    bool inherits(const char *classname) const; \
    bool isWidgetType() const; \
    bool blockSignals(bool b) noexcept; \
    virtual ~QObject();

template <typename... Args> struct QNonConstOverload
{
    template <typename R, typename T> constexpr auto operator()(R (T::*ptr)(Args...)) const noexcept -> decltype(ptr) { return ptr; }
    template <typename R, typename T> static constexpr auto of(R (T::*ptr)(Args...)) noexcept -> decltype(ptr) { return ptr; }
};
template <typename... Args> struct QConstOverload
{
    template <typename R, typename T> constexpr auto operator()(R (T::*ptr)(Args...) const) const noexcept -> decltype(ptr) { return ptr; }
    template <typename R, typename T> static constexpr auto of(R (T::*ptr)(Args...) const) noexcept -> decltype(ptr) { return ptr; }
};
template <typename... Args> struct QOverload : QConstOverload<Args...>, QNonConstOverload<Args...>
{
    using QConstOverload<Args...>::of;
    using QConstOverload<Args...>::operator();
    using QNonConstOverload<Args...>::of;
    using QNonConstOverload<Args...>::operator();
    template <typename R> constexpr auto operator()(R (*ptr)(Args...)) const noexcept -> decltype(ptr) { return ptr; }
    template <typename R> static constexpr auto of(R (*ptr)(Args...)) noexcept -> decltype(ptr) { return ptr; }
};

// ---------------------------------------------------------------------------------------------- logging
class QDebug; // completed by <QtDebug> / <QDebug>
// marks the Q_ENUM/Q_FLAG enumerations (exactly those listed in the metatypes): streamable into QDebug
template <typename T> struct QvIsQEnum : std::false_type {};
class QMessageLogger
{
public:
    constexpr QMessageLogger() noexcept {}
    QDebug debug() const;
    QDebug info() const;
    QDebug warning() const;
    QDebug critical() const;
};
#define qDebug QMessageLogger().debug
#define qInfo QMessageLogger().info
#define qWarning QMessageLogger().warning
#define qCritical QMessageLogger().critical

// QCoreApplication is a metatypes class (QtCore); its static `translate` is injected by tools/gen_mock_decls.py
#define QV_QCOREAPPLICATION_STATIC_API \
    static QString translate(const char *context, const char *key, const char *disambiguation = nullptr, int n = -1);
