#!/bin/sh
# MANIFEST.setup_cmd — builds the framework offline from files on disk.
set -e
cd "$(dirname "$0")"
mkdir -p .work evidence replays lean/QV/Gen
for g in tools/gen_*.py; do python3 "$g"; done
(cd lean && lake build)
(cd harness && CARGO_NET_OFFLINE=true cargo build --release --offline)
echo "setup done"
