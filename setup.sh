#!/bin/sh
# MANIFEST.setup_cmd — builds the framework offline from files on disk.
set -e
cd "$(dirname "$0")"
mkdir -p .work evidence replays lean/QV/Gen
(cd harness && CARGO_NET_OFFLINE=true cargo build --release --offline)
# the generation steps the checks declare (tools/qvconfig.py "gen"), each once; every ./check re-runs its own
for g in $(python3 -c "
import sys; sys.path.insert(0, 'tools'); import qvconfig
seen = []
for p in qvconfig.PROPS.values():
    for g in p.get('gen', []):
        if g.startswith('gen_') and g not in seen: seen.append(g)
print(' '.join(seen))"); do python3 "tools/$g"; done
(cd lean && lake build)
echo "setup done"
