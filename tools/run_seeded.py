#!/usr/bin/env python3
"""Runs the checks against the seeded breaking changes kept under /verif/seeded/<ID>/<k>/.

usage: tools/run_seeded.py [ID ...] [--also ID,ID] [--tier quick|thorough]

For each seeded change: /repo must be clean; `git -C /repo apply patch.diff`; run `./check <ID>` (and the checks named
in meta.json "also_check" or by --also); undo with `git -C /repo checkout -- .` straight afterwards (always, also on
error); write seeded/<ID>/<k>/result.json.  The evidence file of each check is saved before and restored after, so the
committed evidence always comes from the unchanged tree.  Nothing is ever committed in /repo.
"""
import json, os, shutil, subprocess, sys, time

ROOT = os.path.dirname(os.path.dirname(os.path.abspath(__file__)))
REPO = "/repo"


def sh(cmd, **kw):
    return subprocess.run(cmd, shell=True, capture_output=True, text=True, **kw)


def repo_clean():
    return sh(f"git -C {REPO} status --porcelain").stdout.strip() == ""


def main():
    args = sys.argv[1:]
    tier, also, ids = "quick", [], []
    while args:
        a = args.pop(0)
        if a == "--tier":
            tier = args.pop(0)
        elif a == "--also":
            also = args.pop(0).split(",")
        else:
            ids.append(a)
    seeded = os.path.join(ROOT, "seeded")
    if not ids:
        ids = sorted(d for d in os.listdir(seeded) if os.path.isdir(os.path.join(seeded, d)))
    rows = []
    for pid in ids:
        base = os.path.join(seeded, pid)
        for k in sorted(os.listdir(base)):
            d = os.path.join(base, k)
            patch = os.path.join(d, "patch.diff")
            if not os.path.isfile(patch):
                continue
            meta = json.load(open(os.path.join(d, "meta.json"))) if os.path.isfile(os.path.join(d, "meta.json")) else {}
            checks = [pid] + [c for c in meta.get("also_check", []) + also if c != pid]
            if not repo_clean():
                print("refusing: /repo has uncommitted changes", file=sys.stderr)
                sys.exit(2)
            r = sh(f"git -C {REPO} apply {patch}")
            if r.returncode != 0:
                rows.append((pid, k, "patch-does-not-apply", r.stderr.strip()[:200]))
                sh(f"git -C {REPO} checkout -- .")
                continue
            result = {"property": pid, "change": k, "title": meta.get("title", ""), "tier": tier, "checks": {}}
            try:
                for c in checks:
                    ev = os.path.join(ROOT, "evidence", f"{c}.json")
                    bak = ev + ".seedbak"
                    if os.path.isfile(ev):
                        shutil.copyfile(ev, bak)
                    t0 = time.time()
                    cr = sh(f"./check {c} --tier {tier}", cwd=ROOT)
                    lines = [l for l in cr.stdout.splitlines() if l.startswith("VIOLATION")]
                    summary = [l for l in cr.stdout.splitlines() + cr.stderr.splitlines() if l.startswith(f"[check] {c} ")]
                    result["checks"][c] = {"rc": cr.returncode, "violations": lines, "summary": summary[-1:] if summary else [],
                                           "wall_s": round(time.time() - t0, 1)}
                    if os.path.isfile(bak):
                        shutil.move(bak, ev)
            finally:
                sh(f"git -C {REPO} checkout -- .")
                sh(f"git -C {REPO} clean -fdq -- lib src tests")
            caught = [c for c, v in result["checks"].items() if v["rc"] == 1 and v["violations"]]
            result["caught_by"] = caught
            json.dump(result, open(os.path.join(d, "result.json"), "w"), indent=1)
            rows.append((pid, k, "CAUGHT by " + ",".join(caught) if caught else "MISSED", meta.get("title", "")[:90]))
            print(rows[-1], flush=True)
    print()
    for r in rows:
        print("%-4s %-3s %-22s %s" % r)
    if not repo_clean():
        print("WARNING: /repo not clean after the run", file=sys.stderr)


if __name__ == "__main__":
    main()
