#!/usr/bin/env python3
"""Regenerates lean/QV/Gen/VerifEnv.lean: builds the harness against /repo's working tree and asks the REAL type map
(`qv-harness dump-env`).  Exit 2 if the harness cannot be built or the dump fails."""
import os, subprocess, sys
ROOT = os.path.dirname(os.path.dirname(os.path.abspath(__file__)))
env = dict(os.environ, CARGO_NET_OFFLINE="true")
import fcntl
os.makedirs(os.path.join(ROOT, ".work"), exist_ok=True)
with open(os.path.join(ROOT, ".work", "cargo.lock"), "w") as lk:
    fcntl.flock(lk, fcntl.LOCK_EX)
    p = subprocess.run(["cargo", "build", "--release", "--offline"], cwd=os.path.join(ROOT, "harness"), env=env,
                       stdout=subprocess.PIPE, stderr=subprocess.STDOUT, text=True)
if p.returncode != 0:
    print("gen_verif_env: harness build failed\n" + p.stdout[-2000:], file=sys.stderr)
    sys.exit(2)
p = subprocess.run([os.path.join(ROOT, "harness/target/release/qv-harness"), "dump-env"], stdout=subprocess.PIPE, text=True)
if p.returncode != 0 or "def verifEnv" not in p.stdout:
    print("gen_verif_env: dump-env failed", file=sys.stderr)
    sys.exit(2)
out = os.path.join(ROOT, "lean/QV/Gen/VerifEnv.lean")
old = open(out).read() if os.path.exists(out) else None
if old != p.stdout:
    open(out, "w").write(p.stdout)
print(f"gen_verif_env: {p.stdout.count('name :=')} entries")
