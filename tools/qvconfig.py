"""Per-property configuration of ./check."""

PROPS = {}
HOOK_COMMITS = ["4bf9c3e", "fb2c1fb"]
NOT_APPLICABLE = {}
# properties whose check exists but is being brought in line with repairs just made in /repo: not claimed until green
PENDING = {}

PROPS["C19"] = {
    "gen": ["gen_color_table.py"],
    "lean": ["QV.Props.C19"],
    "streams": ["c19"],
    "exhaustive": True,
    "exhaustive_note": "all 4096 three-digit and all 65536 four-digit lower-case hex colours; every SVG keyword in "
                       "lower/upper/capitalised case; 6/8-digit and malformed strings are sampled",
    "rule": "requests are distinct strings; non-trivial = every case runs Color::from_str or the full pipeline "
            "and is compared with the Lean spec (kind=spec) and the Lean model (kind=model)",
    "trusted_base": [
        "QV.Spec.SvgTable typed in from the npm color-name table (SVG 1.1 keywords)",
        "tools/gen_color_table.py regenerates QV.Gen.colorTable from lib/src/color.rs on every run",
    ],
    "assumptions": ["Qt reads #rgb/#argb/#rrggbb/#aarrggbb and SVG keywords as stated in the property text"],
    "level_text": "full proof: parse_color_eq_spec shows model = specification for every string (all hex lengths, all keywords, "
                  "case-insensitivity, rejection of everything else); the keyword table is regenerated from color.rs and "
                  "re-proved by kernel evaluation on every run; the model is compared with Color::from_str exhaustively on all "
                  "3/4-digit hex colours and through the real .ui output",
    "level_note": "trusted: Lean kernel; the hand-written model of from_str/parse_hex_color (tied by the c19 correspondence stream); "
                  "SVG table typed in from an independent source; Qt's reading of colour strings as stated in the property",
    "technique": "Lean 4 proof (model = spec for all strings) + table regeneration + exhaustive differential correspondence",
}

PROPS["C12"] = {
    "gen": [],
    "lean": ["QV.Props.C12"],
    "streams": ["c12"],
    "rule": "each case is a generated grid/form/box layout (flow, wrap count, ≤7 children with optional "
            "row/column/spans/stretches/minimum sizes incl. negative and too-large values) translated by the real "
            "pipeline; the <item> cells, array attributes and diagnostics of the real .ui are compared with the Lean "
            "specification (kind=spec) and the Lean model (kind=model); distinct = distinct requests",
    "exhaustive_note": "thorough tier enumerates all grids with ≤3 children and explicit positions in {none,0,1,2}² for both flows",
    "trusted_base": ["hand-written model of lib/src/uigen/layout.rs (counter, index validation, array insertion), tied by the c12 stream"],
    "assumptions": ["i32 arithmetic cannot overflow: indexes ≤ 65535 and at most one increment per child",
                    "clause 'row minimum height recorded at the row index' is refuted (F9, known finding)"],
    "level_text": "proof (partial: one clause refuted): grid_cells_and_arrays_partial proves for every flow, wrap count and child "
                  "sequence that the model emits each child at the specification's cell with its spans and records column/row "
                  "arrays as 'first value per index'; autoflow_closed_form gives (k/n, k%n); form and box variants; conflicts and "
                  "out-of-range indexes diagnosed. row_min_height_at_row is refuted by a kernel-checked witness (F9, known finding).",
    "level_note": "trusted: Lean kernel; hand-written model of layout.rs tied by the c12 stream on generated layouts through the real "
                  "pipeline; F9 is listed in KNOWN_FINDINGS.json and matched only when the output equals the F9 variant of the spec",
    "technique": "Lean 4 proof (simulation of the index counter and array insertion against a declarative spec) + differential correspondence",
}

PROPS["C10"] = {
    "gen": [],
    "lean": ["QV.Props.C10"],
    "streams": ["c10"],
    "rule": "each case is a generated object tree (depth ≤5, mixes of user ids and anonymous objects, ids and class names "
            "chosen to look like generated names: label1, Label1, QLabel1, KLabel, widget2, action1 …); `names`: the names "
            "assigned by the real ObjectTree::build vs the Lean model (exact) and vs the Lean spec predicate validNaming; "
            "`doc-names`: the full pipeline — names in the real .ui pairwise distinct, ids verbatim, every addaction / "
            "object-valued property / ui_->name in the real header resolves to a declared object",
    "trusted_base": ["hand-written model of qtname.rs/objtree.rs naming, tied by the c10 stream",
                     "refs_resolve is decided by the Rust-side oracle on real outputs only (no theorem)"],
    "assumptions": ["HashMap/HashSet behave as finite maps/sets"],
    "level_text": "proof for the naming clauses: names_unique (pairwise distinct, ids verbatim, generated names avoid every id) for "
                  "every object list with distinct ids; ensure_never_panics (the N+1-tries search always succeeds: pigeonhole + "
                  "injectivity of the decimal suffix); variable_name_is_qtify; dup_id_diagnosed. The reference-resolution "
                  "clause is checked on real .ui/header output by an oracle (partial).",
    "level_note": "trusted: Lean kernel; model tied by exact comparison of names on generated adversarial trees; reference "
                  "resolution (addaction, buddy, ui_->name) has no theorem — oracle on real outputs only; F5 (cross-prefix "
                  "collision) was repaired in /repo (fix: 4bdfee3) and its witness is replayed from corpus/C10 on every run",
    "technique": "Lean 4 proof (freshness invariant of the name generator, pigeonhole for totality) + differential correspondence + output oracle",
}

PROPS["C11"] = {
    "gen": [],
    "lean": ["QV.Props.C11"],
    "streams": ["c11"],
    "rule": "each case is a generated object tree (depth ≤7, fan-out ≤6; widgets, the four layouts, spacers, actions, static "
            "separators, menus, tab widgets, custom classes; explicit `actions` lists incl. menuAction(); one fifth with an illegal "
            "construct: unknown type with a subtree, children under an action/spacer, stray spacer/action/non-widget) translated by "
            "the real pipeline; the element skeleton (widget/layout/item/spacer/action/addaction with class and name, document "
            "order) of the real .ui is compared with the Lean model (kind=model) and the Lean specification (kind=spec)",
    "trusted_base": ["hand-written model of objtree.rs populate_node_rec and of the build dispatch in uigen/{form,object,layout}.rs; "
                     "the per-object rule `assemble` is shared between model and spec and validated against real output only",
                     "class-family flags in requests come from the harness's own table of Qt classes (docgen.family_of)"],
    "assumptions": ["every object carries an id in this stream (generated names: C10)"],
    "level_text": "proof: form_tree_preserved — for every object tree, flattening to the post-order vector with child indices and "
                  "rebuilding by indices equals the form defined by direct recursion (each resolving object once, inside its parent, "
                  "siblings in source order, unresolved subtrees absent); spec_names_preorder — document order of object elements = "
                  "pre-order of the QML tree; actions_rule; build_total (no stuck index/fuel).",
    "level_note": "trusted: Lean kernel; the element-kind rule per class (assemble) is shared by model and spec and is validated "
                  "against the real pipeline on generated trees; ancestry tests themselves are C17's subject",
    "technique": "Lean 4 proof (flatten/unflatten simulation over first-child/next-sibling forests) + differential correspondence on real .ui skeletons",
}

PROPS["C09"] = {
    "gen": [],
    "lean": ["QV.Props.C09"],
    "streams": ["c09"],
    "rule": "each case is a generated string (markup characters, both quotes, CR/LF/TAB, leading/trailing blanks, ']]>', "
            "'<![CDATA[', entity-looking text, non-ASCII BMP and astral characters) placed at one of 8 string-carrying positions "
            "(string, translatable string, item text, stringlist, tab title attribute, icon theme XML attribute, window title, "
            "<class> name) of a document translated by the real pipeline; (model) raw escaped text of the real .ui = Lean model; "
            "(pred) the Lean XML-1.0 reader decodes the real raw text back to the source string; (oracle) strict XML parse + "
            "Designer grammar check + read-back with the harness's own reader",
    "trusted_base": ["quick-xml's writer emits the events it is given and escapes with escape::escape (modelled, tied by the c09 stream)",
                     "harness/src/xml.rs (strict XML 1.0 reader) and harness/src/designer.rs (ui4 grammar subset) — independent of qmluic",
                     "conforms_designer has no theorem: decided by the oracle on real outputs"],
    "assumptions": ["strings are made of characters XML 1.0 can carry (the property's own scope)"],
    "level_text": "proof for the string clause: text_roundtrip and attr_roundtrip — for every string of XML 1.0 characters the Lean "
                  "XML reader (references, end-of-line and attribute-value normalisation) applied to the writer model's output returns "
                  "the string; escaped text contains no '<', escaped attribute values no '\"'/'<'. Well-formedness of whole documents "
                  "and Designer-grammar conformance are checked on real outputs by an oracle (partial).",
    "level_note": "trusted: Lean kernel; writer model tied by exact comparison of raw escaped text on generated strings; grammar "
                  "conformance and whole-document well-formedness by oracle only; F4 (CR / attribute whitespace not escaped) repaired "
                  "in /repo (fix: da9b4ee), witnesses proved in Lean (f4_*_witness) and replayed from corpus/C09",
    "technique": "Lean 4 proof (escape/read round trip for all XML strings) + differential correspondence + strict-parser/grammar oracle on real .ui",
}

PROPS["C08"] = {
    "gen": ["hash_iter_sites.py"],
    "lean": ["QV.Props.C08"],
    "streams": ["c08"],
    "rule": "each case is a generated document with 6–13 bindings per object (constant, dynamic, grouped gadget members, attached, "
            "callbacks), a quarter with 1–4 planted errors, translated 24 times in-process (8 runs × generate/reject/omit; every "
            "HashMap instance has fresh RandomState keys, worker threads have independent key seeds, many other documents are "
            "translated in between); .ui bytes, header bytes and the sorted list of (kind, range, message) must be identical; plus "
            "'multiplicity' documents in which SEVERAL entries of one unordered container interact (palette default roles next to "
            "colour groups, several handlers inside nested object / gadget / attached maps, many faulty bindings in one object, "
            "several dynamic and constant members of gadget maps, several attached properties incl. out-of-range ones, many "
            "anonymous objects / actions / menus, several structured values side by side)",
    "trusted_base": ["Rust's HashMap modelled as 'entries in an arbitrary permutation'",
                     "str's Ord is byte-lexicographic; for UTF-8 that is code-point-lexicographic (model uses code points)",
                     "tools/hash_iter_sites.py: heuristic scan pinning the 31 map-iteration sites (pins/C08_sites.json)"],
    "assumptions": ["itertools::sorted_by_key is a stable sort by the key's Ord (modelled by List.mergeSort)"],
    "level_text": "proof over the model: sorted_perm_invariant — for ANY two iteration orders of a map (distinct keys) sort-by-key yields "
                  "the same sequence (uniqueness of the sorted permutation under a total antisymmetric order on strings), hence "
                  "render_perm_invariant / visit_then_render_deterministic / includes_deterministic: byte-identical emission and the "
                  "same multiset of diagnostics for every iteration order. That each real iteration site is of one of the modelled "
                  "kinds is tied by the pinned site scan and by repeated-run comparison (partial by nature: RandomState itself is not modelled).",
    "level_note": "trusted: Lean kernel; HashMap = arbitrary permutation; the site list is heuristic (regex scan), the classification "
                  "sorted/order-insensitive of each site was read from the source; fresh-process determinism is also exercised by the "
                  "C15 stream (CLI runs)",
    "technique": "Lean 4 proof (sorting erases permutation) + pinned scan of map-iteration sites + repeated-run byte comparison",
}

PROPS["C17"] = {
    "gen": [],
    "lean": ["QV.Props.C17"],
    "streams": ["c17"],
    "rule": "each case is a generated class table (1-40 classes; DAGs, diamonds, cycles, self-loops, unknown and non-class "
            "super names, private/protected supers, duplicate class names, shadowed properties/methods/enums/variants) loaded "
            "through the real TypeMap/ModuleData::extend, queried exhaustively through the public API (is_derived_from and "
            "common_base_class for every ordered pair of classes; public_super_classes, get_property, get_public_method, "
            "get_enum_by_variant, get_type for every class x every member name of the pools plus absent names); the whole "
            "answer vector is compared with the Lean model (kind=model: exact owners, BFS-order effects, error values) and "
            "with the Lean specification (kind=spec: graph reachability / declared-by-an-ancestor, owner soundness checked "
            "against the real is_derived_from); distinct = distinct requests",
    "exhaustive_note": "besides the random tables, every graph on 2 (quick: 100 tables) resp. 3 (thorough: 4913 tables) classes whose "
                       "super lists are the ordered selections of at most two names out of the class names and one unknown name "
                       "is enumerated - all cycles, self-loops, diamonds and dangling references of that size in every listing order",
    "trusted_base": [
        "hand-written model of lib/src/typemap/{class,namespace,function,enum_,core,module}.rs (BaseClasses BFS with visited "
        "set, find_map_self_and_base_classes, is_derived_from, common_base_class, member lookups, sorted method table, "
        "Property::new/Method::new type resolution through the class scope), tied by the c17 stream",
        "QV.Spec.GraphOfTable.toGraph: the reading of a table as a graph (shared by the theorems and the spec side of the driver)",
        "the s-expression reader of the driver and the harness's construction of metatype::Class values from a request",
    ],
    "assumptions": [
        "one module importing the builtins; super-class names are unscoped (no `A::B`) and are not `QString`; a class name "
        "does not clash with a module-level enum or a primitive type name (requests outside this fragment are answered "
        "`(unsupported ..)`/`(skip ..)` and counted as skipped)",
        "member types are `int`/`void` (they resolve in the builtins scope once the class scope has been searched)",
        "class identity is the class name (all handles are obtained by name; a later class of the same name replaces the earlier one)",
        "the completeness clauses ('derives from' / 'found' whenever the graph says so, own declaration first) are refuted for "
        "tables with a reachable unresolved super class (F10); an `Err` answer counts as 'not found' for the property",
    ],
    "level_text": "proof (full after the F10 repair 8d2984c; the *_repaired theorems hold for every table incl. dangling references; the pre-repair behaviour is kept as refuted full statements/witnesses): base_classes_terminates proves that the "
                  "breadth-first walk terminates from every state of every table (fuel-free run relation, unique result, "
                  "fuel bound never hit) and base_classes_spec that it yields exactly the proper public ancestors, each once; "
                  "for ALL tables a positive is_derived_from, every member/enum/variant found, and every common base are right "
                  "(derives_sound, LookupSpec.found_sound, variant_resolves_to_listing_enum, common_base_is_ancestor_of_both), "
                  "'not found' means nobody declares it, an error means an unresolved reference is reachable; when no unresolved "
                  "reference is reachable from the class (all tables without dangling names, cyclic or not) derives_iff_reachable, "
                  "lookup_iff_declared (+ methods, nested enums, variants), lookup_own_first and common_base_exists_iff give the "
                  "full property; method_table_lookup proves the sorted-table search returns exactly the public methods of that "
                  "name; the full statements for dangling tables are refuted by kernel-checked witnesses (F10). For the code after "
                  "the proposed repair (.work/C17.fix.diff, model QV.Model.ClassGraph.Repaired, driver request cg-repaired) the "
                  "full statements are proved for every table (derives_iff_reachable_repaired, property/method/variant/"
                  "nested_enum_lookup_repaired, common_base_repaired).",
    "level_note": "trusted: Lean kernel; the hand-written model tied by the c17 stream (quick: 2100 tables, thorough: 34913 tables, "
                  "about 450 queries per table, 0 disagreements with the model); the specification's reachability oracle is itself "
                  "proved correct (ancestors?_spec); F10 (search stopped at the first unresolved super class) was repaired in /repo (fix: 8d2984c); "
                  "the model side `cg` is the repaired code (QV.Model.ClassGraphRepaired), witnesses replayed from corpus/C17",
    "technique": "Lean 4 proof (invariants of the BFS with visited set against inductive reachability; certified saturation "
                 "oracle) + refutation witnesses + exhaustive-per-table differential correspondence on generated class graphs",
}

# To be merged into /verif/tools/qvconfig.py (shape of PROPS["C12"]).
PROPS["C18"] = {
    "gen": [],
    "lean": ["QV.Props.C18"],
    "streams": ["c18"],
    "rule": "strengthened: preflight of the real CLI per layout (kills a discovery that does not settle), c18-once (processing lines: every canonical directory and file once, processed set = reachability on the real file system), c18-resolve (module-not-found count = imports that lead nowhere; components of visible directories usable; base-class properties accepted), c18-nolower, 110 import-spelling layouts (cycles of length 2/3, ./ // trailing / and ., detours, two spellings of one directory), 50 symlink layouts, file-alias layouts (F50, repaired); new theorems each_directory_inserted_once, directories_read_once, import_spelling_irrelevant, import_detour_irrelevant, same_directory_same_module. each layout is a generated directory tree (root + 1-5 directories, 0-6 .qml files each; root types among Qt "
            "widget classes, QObject, components of any directory, unknown names; string imports '.', '..', '../sib', "
            "relative paths to existing directories, non-existent directories, 'missing/../x', file names, trailing '/' "
            "and '.'; planted mutually importing directories, mutually inheriting components (within and across "
            "directories) and self-inheriting components; files without root object; unknown named modules) materialised "
            "under std::env::temp_dir() and removed afterwards; for EVERY permutation of the 1-5 sources (all 24 when <= 4 "
            "sources, 8 sampled otherwise) one TypeMap is filled by the real qmldir::populate_directories and every source "
            "is translated by uigen::build; compared with the Lean model (kind=model): the set of directory modules, the "
            "component table with each component's resolved super class or TypeMapError text, and per source "
            "accepted/built, sorted diagnostic messages, widget classes with the bindings that reached the .ui, and the "
            "<customwidgets> entries (class, extends, header) read by the harness's own XML reader; kind=spec: directory "
            "set = saturation under string imports (QV.Spec.QmlDir); kind=oracle (evaluated on the real outputs): "
            "c18-perms (identical answers for all permutations), c18-cli6 (the real qmluic BINARY built from /repo's working "
            "tree by env::cli_binary(): same exit status and same set + content of written .ui files for up to 6 orders of "
            "the source arguments), c18-exact (each custom class once, header = lower-cased "
            "<class>.h, extends = root type written in a visible <class>.qml, every non-Qt type used by an accepted "
            "document is listed), c18-reach (directory set = reachability computed on the real file system); "
            "kind=model c18-cliout (two orders per layout): exit status and written .ui files of the real binary = the Lean "
            "model of the generate_ui loop (cliRun) over the per-source outcomes; "
            "distinct = distinct requests; the Qt side of the model (derives-from-QWidget, accepted property names of 8 Qt "
            "classes) is measured on the real type map when the stream starts",
    "exhaustive_note": "permutations of the source list are exhaustive for layouts with <= 4 sources",
    "trusted_base": [
        "hand-written model of qmldir.rs (work-list, make_doc_component_data, path resolution), typemap lookups "
        "(ImportedModuleSpace reverse search, name_map last-wins, one-super base walk with visited set), "
        "make_doc_module_space, objtree type resolution, property/class diagnostics and UiForm custom widgets; tied by "
        "the c18 stream",
        "the generator's QML pretty-printer (imports, one root object, flat children, one constant binding each)",
        "Qt classes are summarised as (name, derives QWidget, accepted property names) measured by Class::get_property / "
        "is_derived_from on the real type map; the class graph inside Qt is property C17's subject",
    ],
    "assumptions": [
        "read_dir order is outside the model: results are proved independent of it only through the reachability "
        "characterisation (two files with the same stem, e.g. A.qml and A.QML, would make the component table depend on "
        "it — not generated)",
        "case-insensitive file systems and symbolic links are outside the model (paths are canonical component lists; "
        "the temp root is canonicalised before prefixes are stripped)",
        "I/O errors other than a missing directory are outside the model; sources are existing files",
        "type names used are not names of the Builtins module (int, bool, QString, ...), imports carry no alias/version, "
        "no import escapes the root of the tree (the driver answers (skip ...) otherwise; the generator never produces it)",
        "command line: CommandError::Other (I/O failure while reading/writing a source's files) still ends generate_ui at "
        "once; such errors are outside the model's file system, so cli_outputs_order_independent carries the hypothesis "
        "noFatal (no source hits an I/O-level error)",
    ],
    "level_text": "proof: discovery_terminates (work-list total, explicit fuel bound, measure pending + (pushBound+1)*#unvisited "
                  "strictly decreases; fuel irrelevance), inheritance_walk_terminates / translation_terminates (base-class "
                  "walk ends on A:B,B:A and A:A), discovered_iff_reachable (directory in the type map iff Reach from a source "
                  "directory through string imports of files with a root object, path resolution proved equal to the "
                  "relational Resolves), discovered_module + component_class (class with one super = root type, own import "
                  "list), discovery_order_independent and outputs_independent_of_argument_order (List.Perm of the sources: "
                  "same map, same translation of every document), customwidgets_exact (no class twice; listed iff "
                  "instantiated and the component's own root type resolves; extends = that class, header = lower-cased "
                  "name.h; accepted documents list every instantiated component), instances_accept_base_properties "
                  "(property/widget-ness of the base class carries over through any chain of components), and for the "
                  "command-line loop cli_outputs_order_independent (written outputs are a permutation of each other and the "
                  "exit status is equal for every permutation of the arguments), cli_written_iff_accepted, cli_status. The "
                  "clause that was refuted before (F15) is now proved; the pre-repair loop is kept as cliRunFailFast with the "
                  "kernel-checked witness f15_fail_fast_witness / f15_fail_fast_order_dependent.",
    "level_note": "trusted: Lean kernel; the hand-written model tied by the c18 stream (quick: 500 layouts ≈ 7 400 cases incl. "
                  "≈ 1 000 model comparisons and ≈ 500 order oracles on the real binary, 0 disagreements); Qt class summaries "
                  "measured on the real type map; read_dir order, symlinks, case-insensitive file systems and I/O errors are "
                  "outside the model; F15 (generate-ui stopped at the first rejected source) repaired in /repo 73d3cab, "
                  "regression witness corpus/C18/cli_fail_fast.c18.req",
    "technique": "Lean 4 proof (work-list invariant + well-founded measure; reachability characterisation; simulation-free "
                 "order independence by characterisation) + differential correspondence on materialised directory layouts "
                 "for all source permutations + oracles on the real outputs",
}

# Proposed block for tools/qvconfig.py (written by the C15 helper; not applied).
PROPS["C15"] = {
    "no_escalation": True,  # the thorough tier spawns thousands of processes: a moved source pin is reported, the search stays quick
    "gen": [],
    "lean": ["QV.Props.C15"],
    "streams": ["c15"],
    "rule": "strengthened: (multi …) cases — 2–6 sources drawn from safe and unsafe shapes (.. anywhere, absolute) × 8 output-directory shapes × option spellings, the answer lists every file inside AND outside the output directory (model and spec); cli-fresh-oracle after every gen step of every history (each output byte-identical to a fresh run, untouched iff it already held that content, nothing else changed); regenerate grid (binding-only / constant-only / both / neither edits, removed and read-only outputs, stale outputs, broken-then-repaired source); after every kill point a complete re-run must restore the reference outputs; new theorems mixed_sources_refused, accepted_iff_all_safe, existing_file_untouched_unless_changed, unchanged_outputs_untouched, regenerate_equals_fresh, rerun_after_kill_completes. every case runs the REAL `qmluic generate-ui` binary (built by the stream's constructor from /repo's working tree "
            "into .work/cli-target under a file lock) in a fresh directory below $TMPDIR. cli-paths/spec-cli-paths: one source "
            "path shape x --output-directory shape x --no-dynamic-binding x --no-lowercase-file-name; refusal / created file "
            "names compared with the Lean model (kind=model) and with Spec.Fs.specRefused/specNames (kind=spec). cli-hist: "
            "1-3 sources, 2-5 edit/regenerate steps (content edits, failing edits, removed outputs, stale outputs, blocking "
            "file/directory, missing/directory sources); per gen step the exit-status class, the strace'd sequence of successful "
            "mkdir/open(O_CREAT)/write/fchmod/rename syscalls, the set of files whose inode/mtime/size changed and the final tree "
            "(content classes) must equal the model's trace and abstract file system (kind=model). cli-rerun-oracle: after every "
            "gen step without I/O error the CLI is run again and must perform no file operation and change no inode/mtime "
            "(kind=oracle). cli-kill / cli-kill-oracle: SIGKILL injected (strace inject) at EVERY state-changing syscall of the "
            "last gen step; the set of surviving trees must equal the model's states after every trace prefix (kind=model) and "
            "each surviving file must hold its complete old or complete new content, other residue = one .tmp* file next to an "
            "output (kind=oracle). distinct = distinct request lines",
    "exhaustive_note": "kill points are exhaustive at syscall granularity for each kill history (every mkdir/open(O_CREAT)/write/"
                       "fchmod/rename of the run); path shapes x options are a fixed 28 x 8 x 4 grid (thorough: complete, quick: a third)",
    "trusted_base": [
        "hand-written model QV.Model.Cli of src/main.rs (generate_ui, generate_ui_file, with_output_file), qtname.rs FileNameRules, "
        "qmldir.rs is_qml_file and of the std/camino/tempfile functions they call (components, file_stem, with_file_name, join, "
        "create_dir_all, NamedTempFile::new_in + persist); tied by the c15 stream",
        "QV.Spec.Fs: abstract file system (Path -> Option Node), five ops, rename is one atomic step, CrashState = any trace prefix "
        "or a partially executed write",
        "strace 6.1 (syscall log, inject=...:signal=KILL:when=N), the harness's canonicalisation of paths and temp names",
        "translation results (ui/header bytes) are parameters of the model; content classes are identified by reference runs of the same binary",
    ],
    "assumptions": [
        "rename(2) replaces the destination atomically; a SIGKILLed process leaves exactly the effects of its completed syscalls",
        "no claim about durability after power loss (no fsync is issued), permissions/ownership, symbolic links, or aliasing of "
        "different spellings through `..`",
        "tempfile picks names `.tmp` + characters other than '.' and creates them with O_EXCL (checked on every traced run: `.tmp` + 6 alphanumerics)",
        "doc.type_name() is the file stem of the source path (the source is not reached through a symlink of another name)",
        "uigen is deterministic: unchanged inputs give byte-identical ui/header (C08)",
        "rerun_noop holds only if no two sources share an output path with different contents: refuted in general "
        "(Foo.qml + foo.qml -> foo.ui, finding, corpus/C15/case_collision.c15.req)",
        "after a failed persist (destination is a directory) the temp file is left behind: process::exit runs no destructor "
        "(modelled as it is; property text is silent on failing runs)",
    ],
    "level_text": "proof, PARTIAL BY NATURE (OS behaviour is assumed, one clause refuted): over the abstract file system, for ALL "
                  "sources, options, temp names and initial states: paths_correct/names_documented (exactly x.ui and, unless "
                  "--no-dynamic-binding, uisupport_x.h, ASCII-lower-cased stem unless --no-lowercase-file-name, beside the source "
                  "or at join(outdir, dir)); refusal_exact/refusal_on_text (with -O a run is refused iff some source has a RootDir or "
                  "ParentDir component = text starts with '/' or has a '..' segment; a refused run performs no op); no_escape (every "
                  "created/written/renamed path is outdir followed by >=1 Normal components; the only other ops are mkdirs of outdir "
                  "and its ancestors); crash_atomic/output_old_or_new (at every prefix of the trace and inside any write, each path is "
                  "untouched, or holds the COMPLETE new content planned for exactly that path, or is a .tmp* sibling of an output, or "
                  "is a newly created ancestor directory); rerun_noop_partial (second run = empty trace, same status, whenever the "
                  "first run had no I/O error and outputs do not collide); rerun_noop_refuted: the unconditional clause is false "
                  "(case-colliding sources), replayed on the real binary.",
    "level_note": "partial: (1) rename atomicity, kill semantics, durability, permissions, symlinks are assumptions the model cannot "
                  "exhibit; they are exercised (not proved) by SIGKILL injection at every state-changing syscall; (2) the re-run "
                  "clause is refuted for sources whose lower-cased names collide (finding; proposed fix in .work/C15.fix.diff). "
                  "trusted: Lean kernel; the hand-written model tied by trace/tree/exit-status equality on the real binary",
    "technique": "Lean 4 proof over an abstract file system (op-trace model of the CLI shell, invariant over all crash states) + "
                 "differential correspondence on the real binary (strace syscall traces, inode/mtime, exhaustive SIGKILL injection)",
}

_IR_RULE = ("each case is a generated binding program (expression or block with let/const, if/else, switch with default at "
            "any position/fall-through/break, early return) or signal callback (expression, block, function with typed "
            "parameters) over the verification classes VBase/VDerived/VOther (harness/metatypes/verif.json), depth ≤4 (quick) / "
            "≤6 (thorough), every operator of docs/language.md, casts, Math.max/min, method calls, subscripts, implicit and "
            "explicit this, literal spellings in all radixes, with 0/2/6 % type-breaking noise; compiled by the REAL pipeline "
            "(uigen::build: tir::build/build_callback with ObjectContext, analyze_code_property_dependency, evaluate_code) and "
            "observed through the read-only hook")

PROPS["C06"] = {
    "gen": ["gen_verif_env.py"],
    "lean": ["QV.Props.C06"],
    "streams": ["ir"],
    "rule": _IR_RULE + "; (pred cfgcheck) the REAL IR of every accepted program is run through the Lean CFG certificate "
            "checker whose soundness is proved; (model) the real IR equals the Lean model's IR exactly (blocks, statements, "
            "operands, local types, terminators, static deps, observers, constant evaluation, diagnostics); (pred cfgcheck-cxx) "
            "every second program also goes through the WHOLE pipeline — as a top-level binding, as a sub-binding of a grouped "
            "(gadget) property (font.pointSize/weight/bold/italic/kerning/family, sizePolicy.horizontalStretch) of the "
            "QWidget-derived VBase, or as a callback — and every goto-structured function body found in the REAL support header is "
            "re-read from its C++ text (harness/src/cxxcfg.rs: labels, gotos, if/else gotos, returns, Q_UNREACHABLE, definitions "
            "and uses of the aN temporaries) and must pass Cfg.checkFn, which adds 'a value-returning function has no reachable "
            "bare return'; a sixth of these block bodies have their tail cut off so that a path may end without a value: the "
            "translator must refuse them",
    "trusted_base": ["harness/src/cxxcfg.rs re-reads the emitted C++ (an unreadable body is a failure, never skipped)",
                     "harness/src/irser.rs serialises the real IR (public qmluic::tir types) — a wrong serialiser would hide a defect",
                     "QV.Gen.VerifEnv is dumped from the real type map on every run",
                     "the untrusted certificate producers computeReach/computeIns only matter for completeness (a bad certificate "
                     "makes the check fail, never pass wrongly: checkCfg_sound)"],
    "assumptions": ["variables the USER declared without initialiser (`let v: T;`) are not compiler temporaries: reads of them are "
                    "exempt (their numbering is taken from the model walk, tied to the real IR by the exact comparison)"],
    "level_text": "proof for ALL programs about the model builder (tied to the real code by the exact-IR stream) AND proof of the checker "
                  "run on every real output. Builder, for every context and program whatever its diagnostics: build_targets_exist — every "
                  "jump of a built body targets an existing block; build_blocks_terminated — every block has a terminator; "
                  "build_defines_before_use — on EVERY path from the entry every read of a local (compiler temporary or variable declared "
                  "with initialiser) is preceded on that path by an assignment, parameters are assigned on entry, variables the user "
                  "declared without initialiser are exempt; and when build reports no panic: build_unreachable_isolated — a block carrying "
                  "the unreachable marker is not the entry and NO block jumps to it (the invariant of finalize_completion_values' reverse "
                  "walk), build_no_reachable_unreachable, and build_passes_check_semantic — the WHOLE conclusion of checkCfg_sound holds for "
                  "every output of the builder on every path (semantic form, not `check … = true`, which would also depend on the untrusted "
                  "certificate producers). Checker: checkCfg_sound — a body accepted by the certificate check has, for EVERY path, existing "
                  "jump targets, no block without terminator or with the marker reached, every read preceded by an assignment; "
                  "returns_value_on_every_path — a body accepted by checkFn as value-returning has no return without a value on any path. "
                  "The check is still run on the real IR of every generated accepted program AND on the function bodies re-read from the "
                  "real header: After build, for bindings, runs analyze_code_property_dependency: analysis_preserves_cfg_conclusion — for EVERY body the pass "
                  "keeps every terminator and inserts only observe statements, each directly before a statement that reads the observed "
                  "local itself, so the whole conclusion of checkCfg_sound carries over on every path; build_analyze_passes_check_semantic "
                  "— the analysed body of every program satisfies it; build_analyze_observe_sender_assigned — the sender local of every "
                  "inserted observe statement is assigned on every path before it. The per-output checks still cover what the theorems do "
                  "not: the model/implementation correspondence itself and the C++ emission.",
    "level_note": "trusted: Lean kernel; IR serialiser; the ∀-programs theorems are about the Lean model of the builder and reach the real "
                  "builder through the exact model/implementation IR comparison of every run (differential, not proved); not covered by "
                  "them and decided per output: the C++ emitter (cfgcheck-cxx); analyze_code_property_dependency is covered (model of "
                  "propdep.rs, tied by the same exact-IR comparison); F1 (non-empty tail block marked unreachable), F17 (empty switch panic) and F100 (a variable declared "
                  "with initialiser in one switch clause could be read unassigned in a later clause — found by the proof attempt of "
                  "build_defines_before_use, whose invariant failed at walkBodies; pre-repair witness "
                  "Props.C06.f100_defines_before_use_old_refuted) are repaired in /repo; build_passes_check_full_statement (`check code = "
                  "true`, without the exemption of user-uninitialised variables, e.g. `{ let v: int; return v }`) stays an unproved "
                  "definition and is superseded by build_passes_check_semantic",
    "technique": "Lean 4 proofs by induction over the model walk (control-flow skeleton invariant + define-before-use certificate constructed "
                 "along the walk + graph invariant of the finalisation + preservation of the conclusion by the property-dependency pass) and "
                 "of a CFG certificate checker applied to every real IR; exact-IR differential correspondence",
}

# PROPS blocks for C04, C14, C20 — to be pasted into /verif/tools/qvconfig.py

PROPS["C04"] = {
    "gen": ["gen_pseudo_props.py"],
    "lean": ["QV.Props.C04"],
    "streams": ["c04"],
    "rule": "a quarter of the documents import with a version and a quarter of the handler functions carry a return type annotation (both WARNINGs); acceptance is the library's own Diagnostics::has_error(), cross-checked against the recorded kinds; clean documents, preferring ones with warnings, also run through the real CLI (exit 0, outputs byte-identical to the in-process ones, warning count); 37 fault kinds, incl. ill-typed DYNAMIC values at every level where a value function is built (scalar, gadget-map member, pointer property; nested-object-map and attached members are refused as such), ill-typed or ill-shaped values on the properties of the special consumers (`actions`, `model`, header properties, `separator`) — target properties and the non-fitting source type are chosen from the metatypes by type and READ/WRITE — and constants bound to properties whose type the .ui pass cannot serialise (candidates are derived from the metatypes by type: class-typed other than QBrush/QColor/QCursor/QKeySequence/QPixmap, QVariant, object pointers, class-typed attached properties), dynamic members of nested object maps and 1-3 handlers inside object, gadget and attached maps, each of which must be diagnosed inside its own text, two runs reporting the same diagnostics; constants only the header can set (`separator` next to other bindings) and constant object references (`buddy`) are in the ledger. Each case derives from a generated document (object trees over the real Qt 5 metatypes: widgets, the four layouts, "
            "spacers, actions, static separators, menus, tab pages, item views with header.* maps, combo models, explicit `actions` "
            "lists; per object 0-7 constant/dynamic scalar bindings, grouped font/size/rect/size-policy/margins/icon members incl. "
            "groups mixing constant and dynamic members, attached QLayout.*/QTabWidget.* bindings, signal handlers) translated by the "
            "real pipeline in generate mode. c04-ledger (oracle): the generator's independent ledger must balance against the real "
            ".ui (own strict XML reader) and the real header (token scan) in both directions. c04-fault (oracle): the same document "
            "with ONE fault out of a catalogue of 22 kinds planted at a random applicable object: an error diagnostic with the "
            "expected message lies inside the byte range of the planted binding, the document is not accepted, and for every 12th "
            "case the real CLI is run in a temp dir on [Good.qml, Faulty.qml, Other.qml] with a pre-existing faulty.ui: exit status 1, "
            "faulty.ui unchanged (content + mtime), uisupport_faulty.h not created, outputs of the two valid sources written, exact "
            "directory listing. passes (model): per-binding fate (embedded / generated / repeated / connected), the hook's "
            "evaluated-constant flags after the passes, acceptance and the multiset of (subject binding, message class) of the real "
            "run vs the Lean model, for the clean and the faulted document; distinct = distinct requests",
    "trusted_base": [
        "hand-written model QV.Model.Passes of uigen/{mod,objcode,object,layout,property,gadget,expr,binding}.rs at the level of binding "
        "fates, tied by the c04/c14/c20 correspondence streams (exact comparison per binding)",
        "tools/gen_pseudo_props.py regenerates QV.Gen.PseudoProps (exclude lists and special look-ups) from the source on every run; "
        "pseudo_tables_agree / excluded_names_are_looked_up re-prove the table lemmas by kernel evaluation",
        "harness/src/ledger.rs: the classification of generated bindings into the model's abstract attributes (constant / dynamic, "
        "readable / writable, group kind) comes from the generator's own tables; harness/src/xml.rs; header token scan",
        "grouped bindings are modelled one level deep; nested groups (palette.active.window) are outside the modelled fragment",
        "the harness's classification of property types from the metatypes JSON plus metatype_tweak (which properties are class-typed / variant / pointer)",
    ],
    "assumptions": [
        "layout pseudo-properties flow/columns/rows and consumed QLayout.* attached properties count as 'embedded' (they "
        "parameterise the cell computation; DESIGN.md §4)",
        "clause 'never in neither' is refuted for `QAction { separator: false }` as the action's only binding (F18, known finding: the "
        "unedited suite pins test_action_separator_false; the ledger oracle fails on such documents and is matched by "
        "KNOWN_FINDINGS); the theorem carries the hypothesis NoSilentDrop",
    ],
    "level_text": "proof (partial: one clause refuted): diagnosed_not_silently_dropped — in generate mode every scalar binding that entered "
                  "a code map is embedded in the form, or has update code, or has an error diagnostic attributed to it or to its group "
                  "(case analysis over the consumers that skip silently — SerializableValue::build → None, the exclude lists, the "
                  "never-initialised evaluation cell — against the consumers that pick up: UiSupportCode::build, the left-over attached "
                  "check, the special paths); ownership_total_partial — accepted ⇒ exactly one place, the only overlap being constant "
                  "members of a group with a dynamic member, repeated with the embedded value; cache_partitions; error_writes_nothing / "
                  "generateUi_writes_only_accepted / generateUi_exit_status over the model of generate_ui_file. ownership_full_statement "
                  "is refuted by a kernel-checked witness (`separator: false`), replayed on the real code from corpus/C04.",
    "level_note": "trusted: Lean kernel; the hand-written pass model (expressions abstract: builds / constant / converts / readable / "
                  "writable / return type fits), tied by exact per-binding comparison with the real pipeline incl. the read-only hook's "
                  "evaluated-constant flags; the generator's ledger and its classification tables; diagnostic ranges are checked by the "
                  "oracle on real output only (diag_within_binding has no theorem); brush/palette/nested groups not generated",
    "technique": "Lean 4 proof (partition of the bindings by the lazily cached evaluation flag, pointwise case analysis over consumers) + table "
                 "regeneration + differential correspondence + independent ledger oracle on real .ui/header + real CLI runs",
}

PROPS["C14"] = {
    "gen": ["gen_pseudo_props.py"],
    "lean": ["QV.Props.C14"],
    "streams": ["c14"],
    "rule": "c14-modes also checks the generator's own expectation: clean documents are accepted in generate and omit, reject refuses exactly when some binding needs the header (dynamic, handler, or a constant left unevaluated), header empty exactly otherwise; omit acceptance equals generate acceptance; acceptance via the library's has_error(). Each case derives from a generated document of the C04 generator (a third stripped to constant-only so that reject mode "
            "accepts), clean and with one planted fault (20 kinds). c14-modes (oracle): the document is translated in generate, reject "
            "and omit in-process; .ui bytes equal whenever produced and produced in the same modes; reject accepts ⇔ generate accepts "
            "with a header that has no update/eval/on functions and no connects (token scan of the real header); every omit-mode error "
            "(range, message) is in the generate-mode multiset; header only in generate mode. passes (model): for each of the three "
            "modes the real result (fates, flags, diagnostics by subject and class, acceptance, header presence) vs the Lean model",
    "trusted_base": ["hand-written model QV.Model.Passes (shared with C04), tied by the c04/c14/c20 streams",
                     "harness/src/ledger.rs header token scan and diagnostic classification by message text"],
    "assumptions": ["'header containing no bindings and no callbacks' = no CxxBinding and no CxxCallback object (model: bindings = [] ∧ "
                    "connected = []); on real headers: no update*/eval*/on* function and no QObject::connect"],
    "level_text": "proof (full, on the model): form_mode_independent (form, placed objects, built and panic flags are the same function of "
                  "the document in all three modes — the form is fixed before the mode switch and the evaluation cell is idempotent: "
                  "cell_state_is_route, evaluate_idem); reject_iff_empty_generate (both directions, via rejectEntry = [] ⇔ evalConst and "
                  "¬evalConst ⇒ a binding or a diagnostic in the C++ pass); omit_errors_eq_generate (preview mode reports exactly the diagnostics of generate mode, in the same order: since /repo c47e7fb it "
                  "builds the support code for its diagnostics and discards it), hence omit_errors_subset_generate (the property's clause) and "
                  "omit_accepted_iff_generate; common_errors_in_every_mode; reject_only_errors_are_rej; header_only_generate; unevaluated_binding_refused_by_reject (any top-level property the constant pass left unevaluated, constant or not, makes reject mode refuse the document)",
    "level_note": "trusted: Lean kernel; the hand-written pass model tied by exact comparison in all three modes on generated clean and "
                  "faulted documents; the real-header emptiness test is a token scan",
    "technique": "Lean 4 proof (the mode switch only reads the state left by the shared passes) + 3-mode differential correspondence + byte "
                 "comparison of real .ui across modes",
}

PROPS["C20"] = {
    "gen": ["gen_pseudo_props.py"],
    "lean": ["QV.Props.C20"],
    "streams": ["c20"],
    "rule": "half of the documents live in an in-process directory module with four custom components; every document also gets an unknown type placed above a component instance or above an object a surviving object refers to: the twin is the document with exactly that subtree and the references into it removed, the forms must be equal including <customwidgets>, and a reference to a vanished id must be diagnosed or dropped, never written. Each case is a clean document of the C04 generator with one fault (every one of the 37 kinds must be reported in preview mode, also compared with generate mode, the form equal to the twin's outside the faulted object's own values; × sampled positions; every planted binding of a multi-binding fault must be reported in omit mode; 4 per document in the quick "
            "tier). c20-local (oracle, on a variant where a third of the unreferenced objects are anonymous): omit mode yields a form; "
            "the planted error is reported with its range inside the planted binding (for the kinds the preview passes can see); the "
            "XML tree of the faulted run equals the tree of the fault-free run (document without the faulty binding / with the "
            "unknown-typed object removed) outside the faulted object's own property/attribute/addaction/item-model children, "
            "generated names compared up to renumbering; the faulted object has no property the fault-free one lacks (except the "
            "empty group of a planted member). for every case the document is also translated in generate mode and every error generate "
            "mode reports inside the planted binding must be reported in omit mode (fails with 'error reported in generate mode only' if "
            "c47e7fb is reverted). passes (model): the omit-mode result of the faulted document vs the Lean model",
    "trusted_base": ["hand-written model QV.Model.Passes (shared with C04/C14); QV.Model.Layout (C12) for the cell cursor witness",
                     "harness/src/xml.rs and the canonicalisation of generated names (any name that is not an id of the document ↦ '_')"],
    "assumptions": [
        "F21 (errors only UiSupportCode::build detects were not reported in preview mode) is repaired in /repo c47e7fb; "
        "runOmitOld_loses_error keeps the pre-repair behaviour as a kernel-checked example, "
        "corpus/C20/dynamic_mismatch_unreported_in_omit.c20.req is a passing regression case",
        "two clauses of 'identical outside the faulted object' are refuted (known findings): (1, F20) an entering faulty binding next to "
        "`separator: true` turns the static separator into an action (fault_local_full_refuted); (2, F19) a duplicated attached binding "
        "empties the child's whole attached map, so following siblings of a grid/form layout move "
        "(duplicate_attached_shifts_sibling_witness); both replayed from corpus/C20",
    ],
    "level_text": "proof (partial: two clauses refuted): omit_yields_form; every_error_reported (full statement proved: every diagnostic "
                  "generate mode reports is reported in omit mode; omit_diags_eq_generate) with errors_not_lost / unresolved_objects_reported; "
                  "fault_local_rejected_binding (+ callback, + unknown attached type): a binding rejected while the code maps are built "
                  "changes nothing anywhere and is reported; fault_local_failing_constant_partial (ill-typed constant on a non-action "
                  "object: form unchanged); fault_local_duplicate_binding / fault_local_duplicate_attached (the form equals that of the "
                  "document with exactly that object's own binding map erased); fault_local_unknown_type (form = form of the document "
                  "with exactly the unresolved subtrees removed). fault_local_full_statement refuted by a kernel-checked witness.",
    "level_note": "trusted: Lean kernel; the pass model tied by exact omit-mode comparison on faulted documents; layout cells and generated "
                  "names are not part of the pass model (cells: C12 model used for the witness; names: C10) — their locality is checked by "
                  "the XML-tree oracle on real output; object references and <customwidgets> are likewise not part of the pass model and are checked by that oracle; preview watcher/viewer (src/main.rs preview_file) not modelled",
    "technique": "Lean 4 proof (non-interference: per-object congruence of the constant pass lifted over the tree, pruning lemma for "
                 "unresolved subtrees) + differential correspondence + faulted-vs-fault-free XML tree comparison on real output",
}

# proposed block for tools/qvconfig.py (written by the C07 helper; not applied)
PROPS["C07"] = {
    "no_escalation": True,  # the thorough tier spawns thousands of processes: a moved source pin is reported, the search stays quick'no_escalation': True,
 'gen': ['panic_sites.py'],
 'lean': ['QV.Props.C07'],
 'streams': ['c07'],
 'rule': 'each case is one input text (kind=oracle): (a) generated well-formed documents, clean and with planted errors (c08::rich_document); (b) '
         'token-level mutations (delete/duplicate/swap/replace/insert tokens and token runs, unbalanced brackets and quotes, stray é 中 😀 U+2028 '
         'U+FEFF NUL U+0301 U+200B U+10FFFF anywhere and inside identifiers/strings/numbers, huge numbers, line-ending changes, case flips, wrapping '
         'in ≤ 60 brackets, double mutations) and truncations at 7-byte steps of every /repo/examples/*.qml, of the r###"…"### QML snippets of '
         '/repo/tests/*.rs, of generated and of stress documents; (c) token soup from a 147-token QML/JS vocabulary, bare and inside an object body '
         '/ binding / block / callback; (d) 321 stress documents: 260 semantic ones aimed at the unwrap/expect sites (buddy: null, actions: [] / '
         '[menuAction()], model: [] / null, icon.name: 1, shortcut: QKeySequence.Copy / Qt.Key_A, cursor: 1, self references, duplicate ids, empty '
         'document, only imports/comments, BOM, CRLF, empty switch, code after if/else, …), 22 label-stress documents (every diagnostic that carries '
         'label ranges, with multi-byte text before / inside / after the labelled nodes, on one and on several lines, CRLF, tabs, at the last byte) '
         'and 39 control-flow documents built systematically (switch with 0..3 cases × default absent / at every position, in a binding and in a '
         'callback, nested switches with and without braces, if / else-if chains of depth 0..3 × braces × final else, nested ternaries, let/const '
         'with and without annotation, callbacks with parameters, every call / array / member / cast shape, strings holding comment look-alikes); a '
         '17th mutation `utf8-dense` (2/3/4-byte characters in every string and comment + multi-byte comments between tokens, then one more '
         'mutation) so that any byte-count arithmetic on a range lands inside a character; bounded nesting ≤ 60 of 12 kinds. (e) TRIVIA (part of the '
         'tie, not a clause of C07 proper: comments are extras of the grammar, so the outputs with and without them must be the same): for every '
         'VALID document of the pool (generated, examples, test snippets, stress) the token boundaries are taken from the concrete syntax tree and '
         'named by position class `parent-kind:previous|next` (268 classes in 57 parent kinds in a quick run: between object members, inside binding '
         'expressions and statement blocks, between switch clauses, before/after `default:`, between `else` and `{`, in array literals, argument '
         'lists, between `on<Signal>:` and the function, inside import lines, before and after the root object, …); comments (`/* c */`, `/**/`, `/* '
         '/* */`, with é中😀, with quotes, with brackets, `// …\\n` variants) and blank space / blank lines / CRLF are put in (i) at EVERY boundary of '
         'every stress document, one without and one with a line terminator, (ii) at a sample of boundaries per position class over the whole pool, '
         '(iii) at all boundaries of a document at once (on a difference every boundary and every pair in one gap is tried alone) — ≈ 130 000 '
         'insertions per quick run; the mutated text must pass the totality oracle AND give the same acceptance, the same diagnostics (kind + '
         'message), the same .ui and header bytes in every mode. The 19 position classes at which the grammar itself parses differently (all only '
         "with a line terminator: ECMAScript restricted productions return/break/continue/throw/yield/postfix ++ --/async/=>, `as`, tree-sitter's "
         '`let`⏎ and `new`⏎, QML import / signal / `name: Type⏎{`) are listed with their reason in harness/src/streams/c07/trivia.rs; there only '
         'totality is demanded and the observed effect is counted. Every text is translated in-process in all three dynamic-binding modes under '
         "catch_unwind: no panic; a form that serialises and re-parses with the harness's strict XML reader, or ≥ 1 syntax error / error diagnostic; "
         'every syntax-error, diagnostic and label range has start ≤ end ≤ len on character boundaries; every report renders with '
         'codespan-reporting. ≥ 600 texts per quick run (all stress documents, a third also with --no-dynamic-binding, an eighth each in a '
         'sub-directory with a non-ASCII name and above the working directory so that the report has to print a relative path, the control-flow '
         'documents with a comment at a random and at every token boundary, a 300-term sum, 200 nested objects, 40 mutations) also go through the '
         'real release CLI binary in a fresh temp dir with a 20 s timeout: exit status 0 or 1, status 0 iff main.ui was written, status 1 only with '
         'a report that names the document. distinct = distinct request lines',
 'trusted_base': ['hand-written model QV.Model.Totality of tir/interpret.rs (evaluate_code), typeutil.rs (pick_type_cast, is_assignable, '
                  'deduce_type), tir/core.rs (resolve_return_type) and uigen/expr.rs (build_unchecked, parse_as_value_type, build_item_model, '
                  'build_object_ref_list); it has no correspondence stream of its own (no driver handlers): it is tied by review '
                  '(pins/C07_panic_sites.md) and by the stress documents of the c07 stream hitting every dispatch branch on the real code',
                  'wfCode (what the interpreter relies on from the TIR builder) is assumed, not proved: C05/C06 territory',
                  'tools/panic_sites.py: regex scan pinning 189 panic sites (204 occurrences) of lib/src + src/main.rs + src/reporting.rs — the '
                  'explicit ones (panic!/unreachable!/assert*/expect/unwrap/unwrap_*) AND 129 occurrences of operations that panic or abort '
                  'implicitly (index 48, slice 20, insert(i,…)/remove(i)/swap_remove/split_at/drain/borrow_mut 24, integer / and % by a non-literal '
                  '5, `as usize` 6, computed allocation sizes 9, process::exit 2, the 12 byte_range/start_byte/end_byte accessors and 3 hand-made '
                  'a..b ranges) — with a hand-written verdict and argument each (pins/C07_panic_sites.json/.md); every site also pins a hash of its '
                  'enclosing function, and the 92 sites whose argument rests on code elsewhere name it (128 guard references: functions, the whole '
                  "tir/builder.rs, the grammar's version in Cargo.lock) and pin its hash too: a new, vanished or unreviewed site, or a site whose "
                  'guard changed, breaks the obligation',
                  'tree-sitter, tree-sitter-qmljs, quick-xml, codespan-reporting: exercised, neither modelled nor reviewed',
                  'harness/src/xml.rs (strict XML 1.0 reader), the tokeniser/mutator of harness/src/streams/c07.rs',
                  "harness/src/streams/c07/trivia.rs: the position classes are read off tree-sitter's own tree; the table of grammar exceptions was "
                  'filled from a survey (160 insertions per class) and is part of the oracle: a difference at a listed class is not reported'],
 'assumptions': ["the input is valid UTF-8 (the property's own scope; the CLI rejects other files with an I/O error, exit 1)",
                 "runtime behaviours a total Lean function cannot exhibit are outside the theorems and only tested: tree-sitter's error-recovery "
                 'tree shapes, stack depth on deeply nested input (F11), allocation failure',
                 "in-process inputs are ≤ 64 KiB with nesting ≤ 60; hangs are caught by the check's overall timeout in-process and by the 20 s "
                 'per-run timeout for the CLI',
                 'full statement `object_ref_valid` is refuted (F2) until .work/C07.fix-1.diff is applied'],
 'level_text': 'proof (PARTIAL by nature: the modelled core only; the parser (tree-sitter) and the CST adapters of lib/src/qmlast are tested, not '
               'proved): unwrap_never_fails — for every property type, return type and evaluated value of the shape of the return type (ShapeOf '
               'stated explicitly: int/uint→Integer, double→Float, bool→Bool, QString→String, enum→EnumSet, pointer→ObjectRef with `null` evaluating '
               'to no value, string list→StringList|EmptyList), SerializableValue::build takes none of its 9 unwrap_*/panic! branches; '
               "evaluated_shape — on builder-well-formed IR the interpreter's value has the shape of the resolved return type; "
               'interp_panics_only_unreachable — no index panic, the only remaining one is unreachable!() and only if a block is terminated '
               'Unreachable (property_never_panics_partial; the unconditional statement is refuted by a kernel-checked witness: F18, closed in /repo '
               'by d950e95); item_model_never_fails, object_ref_list_total; object_ref_valid refuted by witness (F2) + _partial + _repaired; '
               'ranges_in_bounds and callback_span_valid — every range formed from node ranges (node, end..end, 0..0, the s..e span of '
               'verify_callback_parameter_type) satisfies start ≤ end ≤ len with end points among node end points; switch_default_position_le_cases '
               '/ switch_insert_never_panics / switch_remove_never_panics — for EVERY sequence of child kinds of a switch body (comments anywhere, '
               'error nodes, several defaults) the position SwitchStatement::with_cursor hands to `Vec::insert` (typedexpr.rs walk_stmt) and '
               '`Vec::remove` (tir/builder.rs visit_switch_statement) is in range; switch_comments_are_trivia; the variant that counts skipped '
               'comments (seeded change C07/1) is refuted by a kernel-checked witness (counting_extras_refuted); termination: all model functions '
               'structurally recursive (the interpreter loop on the shrinking unvisited-block list). Re-exports C10.ensure_never_panics and '
               'C11.build_total. Everything else — 189 pinned explicit and implicit panic sites each with a reviewed argument and pinned guards, '
               'parser/adapters/rendering/CLI exit status — is supporting evidence by the c07 fuzz stream, not proof.',
 'level_note': 'trusted: Lean kernel; the hand-written model (no differential stream of its own); the reviewed panic-site list (heuristic scan, '
               're-compared on every run); NOT covered by any theorem and named as such: tree-sitter recovery shapes, the CST→AST adapters, stack '
               'depth (F11: release binary aborts at ≈ 2 780 left-nested terms / ≈ 5 300 nested objects), allocation failure, codespan rendering. '
               'Findings: F2 open (fix proposed), F11 (known finding or fix-3), F60 (comment between switch clauses rejected: a valid program '
               "refused, C05's clause; found by the trivia family, repaired in /repo fe4f921, regression "
               'corpus/C07/f60_switch_clause_comment.c07.req), F17/F18 found by this stream too and already repaired in /repo (ae9e12f, d950e95)',
 'technique': 'Lean 4 proof (shape invariant of the constant interpreter + case analysis of the type-check/unwrap dispatch; range arithmetic) + '
              'pinned, reviewed scan of all explicit and implicit panic sites with pinned guards + 3-mode in-process fuzzing under catch_unwind with '
              'range/render/XML oracles + comment/blank insertion at every token boundary with an equal-outputs oracle + real-CLI exit-status runs'}

PROPS["C03"] = {
    "gen": ["gen_verif_env.py"],
    "lean": ["QV.Props.C03"],
    "streams": ["c03"],
    "rule": "`c03-judge` (kind=pred): a generated constant expression (pure int/double/bool/string expressions biased to the "
            "edges of the 64-bit range, shifts by 0..65, division by zero, astral-plane strings; plus the general generator in "
            "constant-only mode for enumerators, flags, lists, qsTr) is bound to a VBase property and translated by the real "
            "pipeline; the value read back from the real .ui with the independent XML reader is judged by Lean against "
            "Spec.ConstSem.eval of the same expression (exact integer text, bit-exact double, UTF-16 order); an undefined value "
            "must be rejected. `literal`/`spec-mv`: number literal spellings through the real parser vs Model.Literal / Spec.Ecma",
    "trusted_base": [
        "hand-written models of tir/ceval.rs (Model/Ceval.lean), qmlast/astutil.rs number parsing (Model/Literal.lean), tied by "
        "the ir and c03 streams",
        "IEEE-754 binary64 primitives: Lean's Float (C double) on the model/spec side, Rust f64 on the other; the decimal text of a "
        "double is read back with Rust's correctly rounded str::parse::<f64> (as uic does with QString::toDouble)",
        "Spec.ConstSem / Spec.Ecma: the documented semantics (docs/language.md, ECMA-262 NumericLiteral) written independently",
    ],
    "assumptions": [
        "uic reads <number> as a decimal 64-bit integer and <double> with a correctly rounded conversion",
        "the composition over whole expressions (walk → builder → evaluate_code → .ui) has no theorem: it is the c03 correspondence",
        "over-rejection of a defined constant (i64::MIN % -1; QString+QString constants) is counted, not a violation of C03",
    ],
    "level_text": "proof for the folding and literal steps: fold_binary_sound / fold_unary_sound (every operator application on "
                  "constants yields the denoted value of Spec.ConstSem, emits no code, and stays within 64 bits), "
                  "undefined_rejected (division by zero, overflow, negative or too large shift are refused), "
                  "shl_accepts_exactly_representable, literal_value (parse_number_str returns the ECMAScript MV for every integer "
                  "literal spelling), int_text_roundtrip; F6/F8 witnesses for the pre-repair behaviour. END-TO-END on ConstFrag ::= integer | true | "
                  "false | float | string | null | unary e | e (+) e ((+) not && ||): walk_const_sound (the walk returns a constant c, "
                  "state unchanged, ConstSem.eval e = val (valOf c)), walk_const_rejects_undefined / walk_const_fails_with_diagnostic "
                  "(undefined or ill-typed: walk fails, no code, >= 1 diagnostic), walk_const_integer_too_large (literals >= 2^63), "
                  "build_const_evaluates (a built binding's evaluateCode is evaluatedOf c, denoted (evaluatedOf c) = valOf c), "
                  "build_const_rejects_undefined. Casts and expressions with && / || / ?: on constants stay with the c03 stream.",
    "level_note": "trusted: Lean kernel; models tied by exact comparison (ir stream: IR and evaluated constants; c03: literals); IEEE "
                  "primitives; F6, F7, F8 were genuine defects, repaired in /repo (2f8ccf9, 9b906e0, 568b1aa), witnesses in corpus/C03",
    "technique": "Lean 4 proof (constant folder = denotational spec per operator, number-literal parser = ECMAScript MV) + "
                 "specification-judged differential check of the real .ui",
}

PROPS["C16"] = {
    "gen": [],
    "lean": ["QV.Props.C16"],
    "streams": ["c16"],
    "rule": "c16-compile (oracle): batches of generated documents translated by the real pipeline in generate mode, every ACCEPTED "
            "header compiled with g++ -std=c++17 -fsyntax-only together with a mini-uic ui_*.h against declarations generated by "
            "tools/gen_mock_decls.py from the SAME tweaked metatypes on cxx/qtmock.h.  Documents: operator/builtin probes (every "
            "operator of docs/language.md x 12 operand types incl. scoped enumerations x dynamic/constant operands in binding and "
            "callback position, Math.max/min, casts, ternaries, console.*, subscripts, lists, methods, float/integer literals, "
            "statement blocks incl. gadget sub-bindings with early returns); documents with 0..130 bindings; gadget sub-bindings "
            "(QFont, QSizePolicy); name-split families: one identifier split in every way between object id and binding path (plain "
            "property, gadget map + member at every cut, signal callback, trailing digit on the name or on the gadget property, all "
            "prefixes of the identifier); enumerator spellings: 18 enumerations (scoped and unscoped enumerations of classes, of "
            "namespace Qt and of gadgets incl. every `enum class` of the Qt 5 metatypes, flag aliases) x 11 positions (ternary+cast, "
            "==/!=, case labels, callback bodies, gadget sub-bindings, constant gadget members, values of the enumeration's type, "
            "bitwise operators); the shared rich_document generator; inventory documents with arbitrary string literals.  "
            "c16-scan (oracle): token scan of the real header (each this->setup/update/eval/on call has exactly one definition, "
            "definitions pairwise distinct and all used, BindingIndex enumerators distinct = number of update functions, each update "
            "uses its own enumerator, bindingGuard_[N] with N = ceil(n/32) >= 1 iff n > 0 and indexed by index >> 5 only, observer "
            "arrays non-empty, owned by one function and larger than every observed[k], std::max/min => <algorithm>, std::fmod => "
            "<cmath>, qDebug.. => <QtDebug>, exactly the ui_ include); c16-inv (model): header inventory of the real header "
            "(includes, setup() calls, index enum, member functions in order, guard size, observer arrays, spelled literals, spelled "
            "enumerator operands, number of static_cast<int>( ) = Lean model, for inventory, name-split and enumerator documents; "
            "c16-lit (model): spelling of a source string in the real header = Model.formatStringLiteral; c16-literals (oracle): "
            "every emitted spelling compiled AND RUN, the UTF-16 units / bytes printed by the program = the source string; "
            "c16-rejects (oracle): bodies that do not return a value of the property type on every path must be refused with the "
            "return-type diagnostic, in gadget sub-bindings exactly as in plain bindings; spec-cxxlit (spec): g++'s reading of 2400 "
            "random spellings (incl. ill-formed ones) = Spec.CxxLit.decode16/decode8; distinct = distinct requests; signal pointers: 12 notify signals carrying the value and 13 plain signals whose parameters cover every passing convention (by value: arithmetic, enumerations, QFlags, pointers; by reference to const: QString, QVariant, lists, gadgets; mixes), connected by handlers with none/some/all parameters and by bindings; c16-lit sig (model): the QOverload<…>::of(&Class::signal) spellings of the real header = formatSignalPointer; c16-doubles (oracle): the double constant spelled in the real header, compiled and RUN, has the bit pattern of the source constant expression (±inf, NaN, ±0.0, denormals, ±DBL_MAX, folded sub-expressions; 4 positions); c16-lit num (model): spelling of non-finite constants = formatNonFinite",
    "trusted_base": [
        "g++ 12 (-std=c++17) as the C++ compiler; cxx/qtmock.h + cxx/QtDebug: hand-written mock of the documented Qt 5 API "
        "(QString/QStringLiteral, QFlags + Q_DECLARE_OPERATORS_FOR_FLAGS as in qflags.h of Qt 5, QList != QVector, "
        "QObject::connect(sender, pmf, context, functor) with Qt's sender/argument-prefix checks, QOverload, QDebug incomplete "
        "without <QtDebug>, Q_ASSERT_X, qInf/qQNaN)",
        "tools/gen_mock_decls.py: classes/enums (enum and enum class)/flags/properties (READ/WRITE members)/signals/slots/methods "
        "from the tweaked metatypes dumped by the harness; argument passing convention (class types by const reference) is Qt's "
        "convention, not recorded in metatypes; default-argument signal families are merged into one member with default arguments",
        "tools/mini_uic.py: Ui::<Class> with one typed pointer per named widget/layout/spacer/action except the root (expat)",
        "harness token scanner of the header (incl. its rule for 'qualified name in operand position = enumerator operand'); the "
        "generator's pretty-printer and its abstract description of each inventory document (which bindings are dynamic, observer "
        "counts, builtin uses, literals, enumerator uses, casts)",
        "the harness's own verification classes WBase/WDerived/WGadget (properties of every kind, scoped and unscoped enumerations, "
        "flag alias, name-split property families) loaded next to the Qt 5 metatypes",
        "QV.Model.RustDebugTable: which characters Rust's Debug prints as \\u{..}: 909 ranges measured on the installed "
        "toolchain (static file, used only by the old-behaviour witnesses; tools/gen_rust_debug_table.py regenerates it by hand)",
        "QV.Spec.CxxLit written from [lex.string]/[lex.ccon]; out-of-range numeric escapes (implementation-defined) count as "
        "ill-formed and are not generated; validated against g++ by the spec-cxxlit cases",
    ],
    "assumptions": [
        "'a C++17 compiler accepts the header' is decided by running g++ on generated documents (correspondence by nature, no theorem)",
        "Qt 5 semantics of the mock (the metatypes in contrib/ are Qt 5): QFlags has only operator| for two enumerators, QVector is not QList",
        "the model takes bindings in visiting order (sorted by key: C08) and summarises expression code by ExprInfo; the C++ "
        "statements inside function bodies are C01/C06's subject",
        "uigen accepts gadget maps only for the gadget classes it knows (QFont, QSizePolicy, ...): deeper nesting than "
        "property.member cannot be produced through the real pipeline and is covered by the theorem only",
        "one clause is false of the code today: an enumerator whose enumeration has a QFlags alias is typed as the alias (F25, known "
        "finding): headers binding an enum-typed property to such enumerators dynamically do not compile",
    ],
    "level_text": "proof (partial): issued_names_distinct / fn_names_distinct - over the whole sequence of generate calls of "
                  "UiSupportCode::build (all objects, gadget sub-bindings whose prefixes are built from generated names, callbacks) no "
                  "name is issued twice and the setup/update/eval/on member functions are pairwise distinct (corollary of C10's "
                  "generate_fresh); index_per_binding; guard_large_enough + guard_slots_distinct + guard_decl ((n+31)/32 words, "
                  "index>>5 inside, (word,bit) injective, no zero-length array); observer_arrays_large_enough; includes_cover (<algorithm>, "
                  "<QtDebug>, <cmath>); literal_roundtrip / literal_roundtrip_narrow - for EVERY string the spelling written by "
                  "format_cxx_string_literal is read by the C++17 literal reader as exactly the UTF-16 units / UTF-8 bytes of the string "
                  "(octal3_read: a 3-digit octal escape cannot absorb a following digit); enumerator_spelling_resolves (every enumerator "
                  "operand is spelled by a qualified name that denotes it; a scoped enumerator only through its enumeration); "
                  "ops_subset_cxx (arithmetic incl. std::fmod with its <cmath> use, comparison without pointer ordering, bitwise operators "
                  "with unscoped, QFlags and scoped enumeration operands - scoped ones printed as static_cast<int>(operand) - through the "
                  "double cast, with and without Q_DECLARE_OPERATORS_FOR_FLAGS); builtin_calls_welltyped (std::max/min incl. the explicit "
                  "<uint>) proved in full over small typing tables; the pre-repair behaviour is kept as ...Old/...Pre70 definitions with "
                  "kernel-checked witnesses (F3b, F3a, F13, F23, F24, F70). Compilability is checked by g++ on every accepted generated header. signal_pointer_matches_declaration (the parameter list printed in QOverload<> is the declared one, lists and gadgets by reference to const).",
    "level_note": "trusted: Lean kernel; model tied by exact comparison of header inventories (names, indexes, arrays, includes, literal "
                  "and enumerator spellings, int casts) and literal spellings (quick, seed 1: 2354 generated + 27 corpus cases, 1768 model "
                  "comparisons, 0 disagreements) and Spec.CxxLit tied to g++ (2400 spellings, 0 disagreements); compile oracle: quick tier "
                  "about 3000 accepted documents in 74 translation units, 14 s wall; F3a, F3b, F13, F22, F23, F24, F70 repaired in "
                  "/repo (0f767b2, 5f82544, bd13865, 61d18c3, 17832f1, 5a4a210, 4e55b2c), witnesses replayed as regression cases from "
                  "corpus/C16; F25 (enumerator typed as its QFlags alias) is a known finding, matched only when every g++ message of the "
                  "failing batch is the QFlags->enumeration conversion error; the seeded changes C16/1-4 and C06/2 are each found with "
                  "failing inputs (c16-compile/c16-scan/c16-inv/c16-rejects); qualify_cxx_variant_name and format_bitwise_operand are "
                  "pinned modelled functions; is_const_ref_preferred is a pinned modelled function; the generator's f64 arithmetic for the expected value of constant expressions counts as the same IEEE operations as the constant folder",
    "technique": "Lean 4 proof (freshness invariant threaded through the build loop, tag injectivity, shift/mask arithmetic, "
                 "state-machine literal reader round trip, small C++ typing tables) + refutation witnesses + differential correspondence "
                 "+ compile-and-run oracle with g++ against declarations generated from the same metatypes",
}


PROPS["C02"] = {
    "gen": ["gen_verif_env.py"],
    "lean": ["QV.Props.C02"],
    "streams": ["c02"],
    "rule": "grouped targets: every 4th int/bool/QString program is the value of a MEMBER of a gadget property of object a (font.*, sizePolicy.*) next to 0-2 constant and 0-2 dynamic sibling members; forms include Math.max/min of dynamic reads, the same property through one / two paths, QString::arg chains, list subscripts; (oracle c02-doc) 400 (quick) / 4000 whole documents over real Qt classes + VBase (bindings on widgets, layout, root, QAction; QFont/QSizePolicy maps mixing constant and dynamic members; a callback next to bindings; must-reject documents: dynamic attached property, dynamic member of a nested object map, notify-less source, dynamic pseudo property) judged by the header scan: for a grouped binding update<B>() is the read-modify-write recv->setP(eval<B>(recv->p())), every member assigned from its value function, constant members embedded, 'accepted and a dynamic member has no complete update path' fails; scanner mutants must be refused. " + "each case derives from a generated binding program over the verification classes VBase/VDerived/VOther "
            "(harness/metatypes/verif.json; objects a,b:VBase, o:VOther, dv:VDerived; binding on object a) emphasising reads "
            "through chains of pointer properties (a.next.next.i, b.next.peer.n, o.base.next.s), through locals, locals assigned "
            "in different branches/blocks, ternaries selecting objects, reads inside non-taken branches and switch bodies, null "
            "guards, constant (k), read-only-with-notify (ro), notify-less (nn), write-only (wo) properties, method results "
            "(a.pick(0).i), this/implicit this, derived-class objects; compiled by the REAL pipeline (uigen::build → tir::build, "
            "analyze_code_property_dependency) and observed through the read-only hook. "
            "(pred coveredcheck) the REAL post-analysis IR of every accepted binding passes the Lean checker `covered` (every "
            "pointer read of a non-constant property is statically connected or observed by a preceding ObserveProperty on the "
            "same unmodified local; observer handles pairwise distinct and < observer count; no notify-less read survives) and "
            "every planted read of `nn` is rejected with 'unobservable property'; "
            "(oracle c02-header) token scan of the REAL uisupport header: one QObject::connect line per distinct static dep in "
            "setup<B>(), the observer snippet with the right index/local/signal before the read, observer array size, setup() "
            "calls every setup… before the first update…; "
            "(pred c02-history) the REAL IR is executed by the Lean abstract signal/slot world (QV.Model.Observe: setup, then a "
            "random history of 10–30 value changes / re-pointings / nullings over a random initial world incl. null pointers and "
            "cycles); after setup and after every step the target must equal a fresh evaluation of the IR in the current state and "
            "every non-constant property that evaluation read must have a live connection",
    "trusted_base": ["harness/src/irser.rs serialises the real IR (public qmluic::tir types) — a wrong serialiser would hide a defect",
                     "QV.Gen.VerifEnv is dumped from the real type map on every run (PropInfo of the change steps; "
                     "notify_choice_verifEnv is re-proved against it by kernel evaluation)",
                     "harness/src/streams/c02.rs header scanner (textual) for the IR → C++ step of the subscriptions",
                     "QV.Driver.Observe.pureEval: the operators of the history-safe sub-language (int + - *, comparisons, "
                     "&& || !, string +, pointer ==/!=); other rvalues make the history case end as undefined, never pass wrongly"],
    "assumptions": ["Qt semantics assumed by the abstract world (QV.Model.Observe header): direct connections in one thread; "
                    "QObject::connect returns a handle that is true until disconnected; QObject::disconnect(handle) removes "
                    "exactly that connection and invalidates the handle; a default-constructed handle is false; emitting a "
                    "notify signal runs, before the setter returns, the slot of at least one connection that was live when the "
                    "emission started (any number ≥ 1 of runs is covered: Delivered); a setter that changes the value emits the "
                    "NOTIFY signal declared in the metatypes",
                    "outside the abstract world: queued connections, threads, deletion of observed/sender objects (the "
                    "'observer.object may point to deleted object' comment), re-entrant changes made by the binding's own "
                    "evaluation (writes / impure methods inside a binding), several bindings forming a loop (debug guard)",
                    "a pointer returned by a METHOD (a.pick(0).i) is observed for the property read through it, but a later "
                    "change of what the method returns is not a property change and is outside the property text",
                    "the emitted C++ follows the IR statement by statement (C16/C01 tie; c02-header checks the subscription part)"],
    "level_text": "proof over the abstract world + proof about the model of propdep.rs + translation validation of every real IR: "
                  "propdep_covers — for EVERY IR without observe statements, if analyze_code_property_dependency (model) reports no "
                  "diagnostic and no panic its output passes `covered`; and for ALL programs (one more induction over the model walk): "
                  "build_noObserve — the builder never emits an observe statement; build_analysis_never_panics — the object operand of "
                  "every readProperty the builder emits is a local, a named object or non-pointer, so the analysis never reaches its "
                  "`invald read_property` panic; build_propdep_covers — the analysed body of EVERY program on which the analysis reports "
                  "no diagnostic passes `covered`; build_binding_current — for every such program the currency conclusion holds with no "
                  "coverage hypothesis left; binding_current/binding_subscribed — for every covered body, "
                  "after setup() and after ANY finite history of property changes with notification (incl. re-pointing and nulling of "
                  "intermediate pointers, changes of unread and notify-less properties, extra slot runs from stale observers) along "
                  "which the expression stays defined, target = value of the body in the current state and every read of the last "
                  "evaluation is subscribed (invariant by induction; frame lemma; re-attachment rule of the emitted snippet); "
                  "stepFn_step — the executable step used on real IR is a step of the relation; unobservable_rejected / "
                  "unobservable_body_rejected — a pointer read of a non-constant notify-less property yields the diagnostic; "
                  "notify_choice (+ notify_choice_verifEnv on the regenerated table) — find_notify_signal returns the most-argument "
                  "eligible signal overload.",
    "level_note": "partial: (1) Qt's real signal delivery is assumed, not verified (see assumptions); (2) the IR fragment of "
                  "binding_current treats operators/casts/builtins/pure method calls as an arbitrary deterministic function of operand "
                  "values and excludes writes inside bindings and evaluations revisiting a block (the language has no loops; the "
                  "history stream would report such IR as undefined, C06 covers the CFG); (3) the link model-of-propdep ↔ real "
                  "propdep.rs is the exact-IR correspondence of stream `ir` (C06) plus `coveredcheck` on every real IR here (now redundant for the model: coverage of "
                  "every built body is a theorem, build_propdep_covers; kept as translation validation of the real analysis output) — no "
                  "theorem about the Rust source; (4) gadget-map members (font.*, sizePolicy.*) are generated: their IR goes through coveredcheck and the history run, and the header scan checks the shared update path of the whole gadget; gadget maps nested deeper than one level and contentsMargins/geometry members (rejected by qmluic as not readable) are not generated",
    "technique": "Lean 4 proofs (coverage of the dependency analysis, for every output of the model builder; invariant of an abstract signal/slot world) + checker with "
                 "soundness proof applied to every real IR + execution of real IR in the abstract world on random histories + header scan",
}

PROPS["C01"] = {
    "gen": ["gen_verif_env.py"],
    "lean": ["QV.Props.C01"],
    "streams": ["c01"],
    "rule": "`spec-c01` (kind=pred, the execution oracle): batches of ~32 generated well-typed binding programs (the general "
            "type-directed generator at noise 0 over VBase/VOther/VDerived + targeted programs: % / << >> on negative and boundary "
            "operands, uint arithmetic, Math.min/max on uint/int/double, a folded constant next to a dynamic operand, nested switch "
            "with default in the middle and fall-through, break under nested if, let/const shadowing, early return and dead code, "
            "null guards by && || ?:, casts, an untyped constant taking the type of the other ternary branch, string comparison / "
            "arg / subscripts, switch on strings) are bound to a property of object `a` and translated by the REAL pipeline "
            "(generate mode); the real uisupport_*.h + a mini ui_*.h read off the real .ui are compiled with g++ -std=c++17 "
            "against the RUNTIME mock (cxx/rt/qtrt.h + classes generated from harness/metatypes/verif.json by "
            "tools/gen_rt_decls.py) and RUN: objects built, setup() called, then for each of 12 (thorough 16) random states the "
            "properties are stored and the real eval<Object><Property>() is called; Lean evaluates Spec.Sem on the same program "
            "and states and judges every printed value the specification defines (undefined states are not compared). "
            "`c01-ir` (kind=pred): Model.IrSem executes the REAL IR (read-only hook) in 6 states and must return the Spec.Sem value "
            "(separates builder from C++ emitter). `c01-body` (kind=model): exact text of the real eval function = Model.CxxBody of the "
            "model IR. distinct = distinct requests",
    "trusted_base": [
        "g++ 12 -std=c++17 -O0 as the C++ implementation (int = 32 bit two's complement, >> arithmetic, IEEE binary64)",
        "cxx/rt/qtrt.h: hand-written runtime mock of the documented Qt 5 API the header uses (QString over UTF-16 with arg/isEmpty, "
        "QList/QStringList, QVariant minimal, QFlags, QObject::connect/disconnect with direct connections and argument-prefix "
        "functors, QOverload, qDebug recording, QCoreApplication::translate = identity, Q_ASSERT_X/Q_UNREACHABLE/SIGSEGV/SIGFPE "
        "abort the guarded evaluation and are reported); tools/gen_rt_decls.py: runnable classes from verif.json (fields, "
        "getters/setters/notify signals, enum values k / flags 0,1,2,4, deterministic method bodies mirrored by "
        "lean/QV/Driver/Sem.lean hostMethod); the generated main() (direct stores, `#define private public` to call eval)",
        "the generator, its pretty-printer, the mini ui_*.h scanner; Lean's Float as IEEE binary64 (driver side)",
        "Spec.Sem: the documented language read as JavaScript where docs/language.md is silent (evaluation order, block scoping, "
        "completion values), int32 overflow / division by zero / null / out-of-range / unassigned / unrepresentable constant = undefined",
        "Model.Walk/Builder/Finalize tied to the real code by the ir stream (exact IR); Model.CxxBody tied by c01-body",
    ],
    "assumptions": [
        "the composition of the per-construct theorems over arbitrary programs is not a theorem: it is decided per program by c01-ir "
        "and spec-c01",
        "QString::arg(double) formatting and QVariant conversions between different stored types are not specified (not compared)",
        "uses of an integer constant outside the range of the int/uint type it meets are undefined in Spec.Sem (see F41)",
        "a crash (SIGSEGV/SIGFPE/out-of-range read) of the generated code in a state — or of setup() in the initial state — counts as "
        "a failure exactly when Spec.Sem defines a value there; every program runs in a child process of its own (fork), so "
        "memory corruption caused by undefined behaviour of one program cannot take a batch down",
        "call order (F42) is not observable by C01: every invokable with a result is pure in the verification classes",
    ],
    "level_text": "proof (partial): compile_correct_full_statement stated; proved for every input: fold_agrees_spec / "
                  "fold_unary_agrees_spec (folding of integer constants = Spec.Sem, no code emitted; corollary of C03), fold_int32_agree "
                  "(range condition under which 64-bit folding = 32-bit int arithmetic) + fold_int32_hypothesis_needed, emit_sound "
                  "(emit_result: one fresh local, append-only, previously computed locals preserved), unary_correct / binary_correct "
                  "(the emitted statement computes Spec.Sem.unop/binop), logical_wiring + logical_and_value / logical_or_value "
                  "(short-circuit CFG fragment), ternary_fragment, if_fragment + if_wiring, return_of_completion, and "
                  "compile_correct_partial END-TO-END (build -> IR -> IrSem = Spec.Sem in every world) for P ::= e, e ::= integer | true | false "
                  "| o.p | unary e | e (+) e | e && e | e || e | e ? e : e (nested arbitrarily), and compile_correct_block END-TO-END for "
                  "P ::= { B }, B ::= e | return e | let x = e; B | const x = e; B with reads of the declared variables. Both come from ONE "
                  "induction over the monadic walk at CFG level (walk_fragment / walk_block_fragment; steps walk_logical, walk_ternary, "
                  "walk_block_let). Invariants: Walked (blocks below the entry block untouched, entry block append-only, blocks "
                  "entry..exit terminated, exit block open), TyRel (operand type = Spec.Sem.staticTy where untyped constants are "
                  "converted), Sim (over any final code covering the builder, from the entry position to the exit position, reference "
                  "value in the operand), VarRel/ValRel (name map ~ variable stack ~ IR locals). finalize_completion_values for a final "
                  "expression (return_of_completion) and a final return (finalize_after_return). compile_correct_straight is the earlier "
                  "straight-line form as corollary; compile_correct_property_read the earlier special case o.p. Not in the induction: "
                  "assignment to variables, typed/uninitialised declarations, nested blocks, float/string/null literals, calls, casts, "
                  "subscripts, if/switch/break. "
                  "Everything beyond is decided by execution of the real C++ and of the real IR against Spec.Sem.",
    "level_note": "trusted: Lean kernel, g++, the runtime mock; quick tier (seed 20260925): 68 spec-c01 requests / 60 translation units, "
                  "~1 850 programs x 12 states run (~14 200 values compared, ~25 % of the states undefined and skipped), 2 352 real IRs "
                  "executed by IrSem (~10 000 values), 2 352 function bodies compared exactly (0 disagreements); thorough tier: 465 "
                  "requests / 400 translation units (~155 600 values compared), 19 617 real IRs (~82 400 values), 19 617 bodies (0 "
                  "disagreements). Findings: F40 (let in a switch clause leaked: uninitialised read) — found here, REPAIRED in /repo "
                  "(2a702d4), corpus witness now a passing regression case; F32 (let directly in an if branch leaked; repaired a011e08) "
                  "— regression witness corpus/C01/let_in_if_branch; F41 (an integer constant whose C++ spelling is a long literal — "
                  "outside int, or -2147483648 — as argument of Math.max/min: std::max/min deduction fails in every argument "
                  "order, the header does not compile) — KNOWN, attributed semantically by the driver tag f41-spec-c01 (quick 0, "
                  "thorough 16 batches, corpus 7, no unattributed failure). Spec.Sem scopes the statement list of each switch clause separately (declarations end with the clause, also on fall-through; later clauses see the outer variable) — the language after repair 0aff63c (F100); stated deviation from ECMAScript, where the case block is one scope; regression witnesses corpus/C01/switch_clause_scope.c01.req, corpus/C13/switch_clause_scope.c13.req, targeted labels switch-clause-scope-*. The translation context of qsTr is observed in the value comparison: Spec.Sem's qsTr is parameterised by the document type name (Ctx.docType, Host.tr), the runtime mock's QCoreApplication::translate returns `<context>source` (injective in (context, source)), every document has an anonymous root (generated name `widget`) and a type name `T<k>` / `MyType` different from it; bindings (spec-c01, c01-ir) and signal handlers (spec-c13) alike; targeted label tr-context, witnesses corpus/C01/tr_context.c01.req, corpus/C13/tr_context.c13.req. Not covered by execution: bindings in gadget / attached / nested maps (the harness documents bind plain properties of one object; one translator per document serves them all).",
    "technique": "Lean 4 proof (per-construct compiler correctness lemmas over an executable reference semantics) + specification-judged "
                 "execution of the real generated C++ and of the real IR",
}

PROPS["C13"] = {
    "gen": ["gen_verif_env.py"],
    "lean": ["QV.Props.C13"],
    "streams": ["c13"],
    "rule": "`spec-c13` (kind=pred, execution oracle): batches of ~24 generated handlers (expression, block, function with 0..n typed "
            "parameters; the general effect generator at noise 0 + targeted handlers: fewer parameters than the signal carries, all "
            "parameters, the defaulted signal with and without parameter, branches with different effect orders, return in handlers, a "
            "write visible to a later read, switch with fall-through, receiver/argument and left/right evaluation order) bound as "
            "on<Signal> on object `a` (signals fired(), fired2(int,QString), defaulted(bool=), moved(VBase*)), translated by the REAL "
            "pipeline; the real header is compiled against the runtime mock (cxx/rt) and RUN: setup() makes the real "
            "QObject::connect, then for each of 6 (thorough 12) random object states the signal is EMITTED with random arguments "
            "and the recorded trace (setter calls with values, method calls with arguments, log calls) is printed, together with "
            "the number of live connections after setup() (must be exactly 1, on the declaring object); Lean evaluates Spec.Sem's "
            "effect trace for the same handler, state and arguments and judges (undefined states are not compared). "
            "`c13-body` (kind=model): exact text of the real setup<Name>() (connect + typed lambda) and on<Name>() functions, or the "
            "exact rejection messages (ambiguous overloads over(int)/over(QString) and bump(int)/bump(double), slots, methods, "
            "unknown names, names outside on[A-Z], incompatible / too many parameters) = Model.Callback + Model.CxxBody. "
            "distinct = distinct requests",
    "trusted_base": [
        "as C01: g++ 12, cxx/rt/qtrt.h (connect/disconnect/emit as DIRECT connections serving the functor the prefix of the signal's "
        "arguments it accepts, setters and invokables recording trace events, qDebug recording its arguments), "
        "tools/gen_rt_decls.py, the generators and printers",
        "Spec.Sem: JavaScript evaluation order (callee and left-hand reference first), trace = property writes, method calls (pure ones "
        "too), log calls; an untyped constant argument is an `int`",
        "Model.Callback tied by c13-body; Model.Walk/Builder tied by the ir stream; class facts from the real type map (Gen/VerifEnv)",
    ],
    "assumptions": [
        "Qt delivers a direct connection synchronously and passes the leading arguments to a functor taking fewer (documented Qt behaviour, "
        "implemented by the mock)",
        "the general trace equality (callback_trace_full_statement) is decided per handler by execution, not proved; with the "
        "specification's call order it is FALSE of the code today (F42): Spec.Sem carries the order as Ctx.argsFirst (false = the "
        "specification, true = the F42 variant used only for attribution)",
        "a handler whose generated code crashes counts as a failure exactly when Spec.Sem defines its trace in that state; every "
        "handler runs in a child process of its own",
        "annotations naming classes the generated environment has no facts for (QWidget, QObject) are skipped by the model comparison",
    ],
    "level_text": "proof (partial): signal_name_some_iff / signal_name_rejects / signal_name_injective (on<Signal> mapping defined exactly "
                  "on on[A-Z].., injective), uniquify_single, chain_some / chain_none_iff, sortDesc_mem / sortDesc_sorted, "
                  "uniquify_most_arguments (accepted overload is one of the overloads with the most arguments), uniquify_ambiguous_iff "
                  "(ambiguous = in order of increasing argument count some overload does not extend its predecessor: kind, return type or "
                  "leading arguments differ), compat_trans / chain_all_compat, callback_is_signal, rejected_has_message, "
                  "params_accepted_iff (#params <= #args and param type assignable FROM the argument type, position by position: leading "
                  "arguments), too_many_rejected; callback_trace_full_statement stated; callback_trace_partial END-TO-END for the "
                  "handler fragment H ::= o.p = true|false. Effects of arbitrary handlers are decided by executing the real header.",
    "level_note": "quick tier (seed 20260925): 32 spec-c13 requests / 24 translation units, ~560 handlers x 6 emissions (~2 450 traces "
                  "compared, ~21 % undefined), 940 function-text / rejection comparisons (0 disagreements, 2 skipped); thorough tier: 271 "
                  "requests / 200 translation units (~56 400 traces compared), 6 040 text comparisons (0 disagreements). Findings: F43 "
                  "(assignment right-hand side evaluated before the left-hand object) — found here, REPAIRED in /repo (5ccd31a), corpus "
                  "witness now a passing regression case; F42 (call arguments evaluated before the callee expression) — KNOWN (repair "
                  "contradicts a pinned snapshot), attributed semantically by the driver tag f42-spec-c13: the real traces must equal "
                  "Spec.Sem with ONLY the arguments-first deviation (quick 5, thorough 43 batches); F44 (F41's cause in a handler: "
                  "long literal as argument of Math.max/min or of the overloaded slot bump(int)/bump(double): header does not compile) — "
                  "KNOWN, tag f41-spec-c13 (quick 1, thorough 9); no unattributed failure in either tier. Spec.Sem scopes the statement list of each switch clause separately (declarations end with the clause, also on fall-through; later clauses see the outer variable) — the language after repair 0aff63c (F100); stated deviation from ECMAScript, where the case block is one scope; regression witnesses corpus/C01/switch_clause_scope.c01.req, corpus/C13/switch_clause_scope.c13.req, targeted labels switch-clause-scope-*. The translation context of qsTr is observed in the value comparison: Spec.Sem's qsTr is parameterised by the document type name (Ctx.docType, Host.tr), the runtime mock's QCoreApplication::translate returns `<context>source` (injective in (context, source)), every document has an anonymous root (generated name `widget`) and a type name `T<k>` / `MyType` different from it; bindings (spec-c01, c01-ir) and signal handlers (spec-c13) alike; targeted label tr-context, witnesses corpus/C01/tr_context.c01.req, corpus/C13/tr_context.c13.req. Not covered by execution: bindings in gadget / attached / nested maps (the harness documents bind plain properties of one object; one translator per document serves them all).",
    "technique": "Lean 4 proof (overload choice, parameter rule, name mapping) + specification-judged execution of the real generated C++",
}

PROPS["C05"] = {
    "gen": ["gen_verif_env.py"],
    "lean": ["QV.Props.C05"],
    "streams": ["c05"],
    "rule": "programs are bound on object `a` (class VBase of harness/metatypes/verif.json) in the document shape of the ir stream and "
            "translated by the real pipeline in generate mode. `c05-accept` (kind=pred): 3 000 WELL-TYPED programs (bindings of all 14 "
            "property types and callbacks of 5 signals) generated type-directed from the constructs of docs/language.md only "
            "(harness/src/typegen.rs: every operator class, casts, ternary, Math.max/min, qsTr, QString::arg/isEmpty, QList::isEmpty, list "
            "subscripts, let/const with and without annotation, uninitialised let + assignment, if/else, switch/case/default/break, return, "
            "property writes with upcast, overloaded slots, console.*, callback parameters); Lean (Spec.Typing) must type the program and "
            "the real compiler must accept it WITHOUT ANY diagnostic and produce an output for it. `c05-reject` (kind=pred): ~3 650 "
            "programs obtained from such programs by ONE type-breaking edit out of a catalogue of 54 kinds (operand of another type per "
            "operator class, int literal <-> double literal, non-bool condition in if/?:/&&/||/!, assignment to const / read-only property / "
            "rvalue / of a wrong type, argument count and type, unknown member, unsupported binary/unary operator and statement, function "
            "expression, bad `as`, pointer mix in ?: and ==, pointer ordering, `null < null`, enum mix, result type not assignable (21 "
            "property/value type pairs), return without value / of mixed types, callback with too many / mistyped / untyped / duplicated "
            "parameters or a named function, undeclared variable, use outside the declaring block / after the switch / after an if branch, "
            "let without type and value, const without value, mixed array, subscript index/non-list, case value type, Math.max mixed, qsTr "
            "of a non-literal, literal default vs uint, void used as value, unreadable property, break outside switch, ternary branches): "
            "if Lean says ill-typed the real compiler must have produced >= 1 error and neither a .ui value nor a support-code function for "
            "the binding; if Lean says well-typed the edit was not type-breaking (counted as kept-well-typed) and the compiler must accept; "
            "the verdict string carries mutation kind x outcome. `c05-ir` (kind=pred): the REAL IR of every accepted program (hook) is "
            "re-checked by the independent judgement Spec.IrTyping.check (operands admissible per operator table, result type = type of the "
            "assigned local, only plain copies may rely on assignability, property reads/writes, call arguments, bool branch conditions, "
            "one common return type assignable to the property). `c05-verdict` (kind=model): accepted/rejected of the real compiler vs the "
            "Lean MODEL of the checker (tir::build + dependency analysis + verify_code_return_type / verify_callback_parameter_type / "
            "extract_string_list: QV.Model.TypeCheck), on all of the above programs",
    "trusted_base": [
        "Spec.Typing / Spec.IrTyping: the typing rules of docs/language.md written independently of typedexpr.rs/tir/builder.rs/ceval.rs; "
        "20 decisions (D1-D20, listed in the file header) fix what the documentation leaves open, each exercised by corpus/C05/decisions.c05.req",
        "hand-written models of typeutil.rs (Model/Types.lean), tir/builder.rs (Model/Builder.lean), tir/ceval.rs (Model/Ceval.lean), "
        "typedexpr.rs (Model/Walk.lean) tied by the ir stream (exact IR) and, for the post-build checks of uigen (Model/TypeCheck.lean), by "
        "the c05-verdict comparison",
        "the generator's pretty-printer (harness/src/ast.rs) and the detection of outputs (property element of widget `a` in the real .ui "
        "read by the independent XML reader; function names evalA<Prop>/updateA<Prop>/onA<Signal> in the real header)",
    ],
    "assumptions": [
        "a failure of the constant folder that depends on VALUES (integer overflow, division by zero, shift count, literal beyond i64) is "
        "not a typing error: the generator avoids such constants and the oracle exempts the two messages",
        "programs whose tail is not clean (a declaration, break or switch in tail position after value-producing statements) have an "
        "unspecified result: nothing is demanded of them (verdict `unspecified`; 0 such cases are generated)",
        "the soundness THEOREMS cover all expression forms and all statement forms (scoping included); two clauses of whole-program "
        "soundness have no theorem and are decided by the streams only: the RESULT clause of a binding (D16: the checker decides it on the "
        "return terminators of the IR after finalize_completion_values, the specification on the returns and tail expressions of the "
        "source) and the parameters of a callback FUNCTION against the signal (D18); the acceptance direction (well-typed => accepted) "
        "is decided by the c05-accept stream",
    ],
    "level_text": "proof of the per-rule characterisations for all inputs: is_assignable = identity/upcast/enum-flags alias/literal adoption "
                  "(is_assignable_iff, never a conversion), deduce_type = one common type (no upcast), pick_type_cast = the documented cast "
                  "table (pick_type_cast_is_the_cast_table), operator token tables, per-operator admissible-type tables of the dynamic path "
                  "(dynamic_unary_iff/_type, dynamic_binary_iff/_type) and of the constant path (constant_unary_iff/_type, "
                  "constant_binary_iff/_type), CONSISTENCY of the two paths with the exact exceptions (QString-typed constants over-rejected "
                  "= F33, i64::MIN % -1, null == null only on the constant path; the former exception null < null = F30 is repaired: "
                  "null_ordering_rejected), verify_code_return_type and verify_callback_parameter_type = rules D16/D18; proof of SOUNDNESS of "
                  "the model w.r.t. the specification (accepted => typed) for EVERY expression form without exclusion (model_sound_expr: typed "
                  "with exactly the operand's type) and EVERY statement form (model_sound_stmt/_stmts: let/const, blocks, if/else, "
                  "switch/case/default/break, return) including JavaScript block scoping "
                  "(declared_in_block_branch_or_clause_not_visible_after, true since the repairs of F32 and F40), and from the top "
                  "(program_statements_sound, callback_statement_sound, binding_sound_up_to_result_clause). The full statement over whole "
                  "programs (model_sound_full_statement) is no longer refuted and is proved up to the result clause of bindings and the "
                  "parameter clause of callback functions, which the c05 streams decide (partial).",
    "level_note": "trusted: Lean kernel; Spec.Typing is the reading of docs/language.md (decisions D1-D20 recorded); models tied by exact IR "
                  "comparison (ir stream) and by c05-verdict (total agreement); findings of this property: F30 (null < null folded; repaired "
                  "9ae7b5c), F32 (let in an unbraced if branch leaked: uninitialised read; repaired a011e08), F40 (the same out of switch "
                  "clauses; repaired 2a702d4) - all three now regression cases in corpus/C05; known: F31 (constant list mixing qsTr and bare "
                  "strings refused; pinned by an upstream test), F33 (QString-typed constants over-rejected by the folder)",
    "technique": "Lean 4 proof (checker rules = specification tables; soundness of the walk w.r.t. the specification by induction over expressions and statements) + "
                 "specification-judged differential check of the real compiler on type-directed programs and their single-edit mutants + "
                 "independent re-typing of the real IR",
}


# ---- text deltas after the strengthening of C17 / C18 / C07 (typed members, component chains, import forms, non-ASCII
# identifiers, component sets, boundary constants); kept as post-assignments because the blocks above are generated text
PROPS["C17"]["rule"] += ' ; MEMBER TYPES (same name declared at several levels): 444 tables enumerating EVERY status vector {resolvable, unresolvable, absent}^n for property p0 / method m0 (1-3 overloads over signals, slots and methods; ONE type of ONE overload that does not resolve fails the name; `absent` is sometimes a protected/private method) / signal a / nested enum E with enumerator V0 (unscoped, scoped, absent) on 14 graph shapes (chains of 1-4 classes, diamond, two unrelated bases, a base that is also listed directly before resp. after the class deriving from it, an unresolved and a non-class super listed first, a 2-cycle, a self-loop, a 3-cycle, a cycle with an unresolved super on it, a private base; thorough: + chain of 5, diamond with a tail, 4 rounds) plus 400 (thorough 6000) random tables of 1-9 classes whose member types come from a pool of ~60 spellings (builtins, QStringList / QList<..> / QVector<..>, pointers, classes, nested enums that are or are NOT visible from the DECLARING class, scoped names `C0::E`, `C0::V0`, `E0::x`, unknown `X<..>` decorations, names that exist nowhere); every table as kind=model (exact owners and errors `(err tr|sc|ud "Name")`), kind=spec (coarse; answered `(skip not-determined)` when several declarations can decide and differ in resolvability) and kind=pred (the EXACT real answers judged by QV.Spec.GraphMembers: the owner must be a declaring class reached without passing another declaring class — the class itself whenever it declares the name — and its declaration must resolve; an error iff such a declaration does not resolve, or nothing is declared and a super class is unresolved; the overload list must be the owner\'s public methods of that name in declaration order; enumerators/nested enums likewise, never an error for nested types); WHOLE PIPELINE (kind=oracle): 1164 documents (`c17-doc` in-process generate mode, 77 of them also `c17-cli` through the real binary with the classes in a --foreign-types file) over class families on top of QWidget (chains of 1-3, diamond, unresolved super listed first) x status vector x {property binding, property read, method call, signal handler, type name in a binding} x instantiated class x look-up through the instance or `(x as Ancestor)`; resolvable declarations have a type (int / QString / bool) resp. an arity that is distinct per level and the document is written for the declaration that must decide, so that binding another level\'s declaration is a type error; expected: accepted (and the .ui value element / the call / the connect in the header checked), \'<property|method|signal> resolution failed\', or \'unknown property|signal\' / \'not found in type\''
PROPS["C17"]["rule"] += ' ; ISOLATION: every table request, and every whole-pipeline request on a cyclic class family (a sixth family `cycle`: L1 <-> L2 above L0, 233 documents), is answered in a CHILD PROCESS (qv-harness answer c17, one request, 5 s): a look-up that does not terminate is answered (fail "child-timeout" …), one that exhausts the stack (plain recursion on a cyclic graph aborts the process) (fail "child-crashed" (status "signal 6") …) — a failing input instead of a harness that hangs or dies; after 12 such answers the remaining isolated cases of the run are not started ((fail "not-run" …)); c17-cli runs have a 20 s timeout'
PROPS["C17"]["trusted_base"] = list(PROPS["C17"]["trusted_base"]) + ["QV.Spec.GraphMembers.typeResolves (the specification's reading of 'a type name resolves in the scope of a class', by certified reachability) is not proved equal to the model's resolveTypeExpr: tied by the kind=pred cases", "the driver's parseType (the decoration stripping of util::decorated_type: QStringList, QList<..>, QVector<..>, trailing '*', '::') is glue outside the theorems, tied by the stream (the type NAME is what both sides receive)", 'the expectation of the whole-pipeline cases is computed in Rust (harness/src/streams/c17/pipeline.rs: deciders = declaring classes reached without passing a declaring class) — the same rule as QV.Spec.GraphMembers.Decides, not the Lean function']
PROPS["C17"]["assumptions"] = list(PROPS["C17"]["assumptions"]) + ['member type names are unscoped or `A::B` names, optionally `T*`, QList<T> / QVector<T> / QStringList, or another `X<..>`; QML components, namespaces and aliases as member types are outside the fragment', 'whole-pipeline cases: as long as finding F92 is not listed in KNOWN_FINDINGS.json the tool\'s present answer for a method call / signal handler / type name on a class with an unresolved super class (the unresolved class is reported) is accepted as `super-unresolved`; once "F92" is listed (known or fixed) the specification\'s rule is demanded']
PROPS["C17"]["level_text"] += "  Members with types (QV.Model.ClassGraph.Typed, specification QV.Spec.GraphMembers): search_decided — for every table the search returns the answer, Ok or Err, of a class that declares the name and is reached from the queried class without passing another class that declares it (Decides = reachability in the graph cut at the declaring classes), the class's own declaration whenever it declares the name, and if nobody declares it 'not found' resp. the deferred error of an unresolved super class; property_decided / method_decided / variant_decided instantiate it; own_property_declaration_decides, own_method_declaration_decides: the answer is the class itself or the error of ITS declaration's types; unresolvable_own_property_is_error / unresolvable_own_method_is_error: no fall-through to an ancestor (one bad overload fails the name); unique_decider_decides: on a chain the nearest declaring class decides; typed_property_extends_untyped: with default types the typed look-up is Repaired.getProperty, so the earlier theorems speak about what the driver answers."
PROPS["C17"]["level_note"] += ' [updated] quick 2100 + 363 + 400 tables (2869 model / 2869 spec / 765 pred cases) and 1188 whole-pipeline cases, thorough 34913 + 2748 + 6000 tables (99 780 cases), 0 disagreements; theorems 41 -> 54.'
PROPS["C18"]["rule"] += ' ; CHAIN family (72 layouts quick / 432 thorough): component chains of length 1-4 (component -> component -> … -> end); within one directory / every link in another directory imported by string under the import spellings, the using document importing the first directory only (a component\'s super class is resolved through the component\'s OWN imports) / mixed; ending in a Qt widget class, QVBoxLayout|QHBoxLayout, QAction, QObject, an unresolvable name (no such type / a Qt class in a file that does not import the Qt module) or a CYCLE (self, 2- and 3-cycles, a chain leading into a cycle, within and across directories); a binding + children at every level; sources = using documents (every component as root and as child, bindings of properties inherited from the end class, from intermediate Qt ancestors, and one the end class lacks) and the component files themselves, all 24 orders for the mixed set; kind=oracle c18-judge (all families) / c18-judge-all (chain family + corpus/C18/chains.c18.req): a judge written on the generated layout and the real file system only (no type map, no Lean model) demands per source EXACTLY the diagnostics the files call for (good document => accepted, none; every fault => its message once), every object with its binding in the .ui, <customwidgets> = the instantiated components each once with extends = the root type written in the component\'s own file (the DIRECT super) and header by the file-name rule, non-instantiated ancestors absent; through the real binary: .ui written for exactly the good sources, exit 1 iff a judged source is faulty; the measured Qt table also holds QVBoxLayout / QHBoxLayout / QAction with their kind ((qt ("QAction" false (...) action) …), 3-element entries still parse)'
PROPS["C18"]["level_text"] += '  Chains: chain_accepts_end_class_properties (a chain of any length reaching Qt class q: property found iff q has it, widget-/layout-/action-ness = q\'s), chain_instance_accepted, cyclic_chain_never_widget + cyclic_chain_instance_rejected (a chain that returns to a visited component terminates, is no widget/layout/action, every property unknown, instance diagnosed), customwidget_extends_direct_super, customwidgets_only_instantiated; the model\'s Qt summary carries isLayout/isAction, child class test = action or layout or widget." (theorems 28 -> 34)'
PROPS["C18"]["assumptions"] = list(PROPS["C18"]["assumptions"]) + ['documents are flat (root + children, <= 1 constant binding per object): components are instantiated directly below the root; QMenu and layout classes other than QVBoxLayout/QHBoxLayout are not generated', 'the judge does not judge a document where reading the files is ambiguous (same name in two visible directories, component named like a Qt class, file without root object, unknown named module imported by a component, Qt class outside the measured table): counted under c18-judge (about 13 % of the generic sources), a failure in the chain family']
PROPS["C18"]["trusted_base"] = list(PROPS["C18"]["trusted_base"]) + ['hand-written Rust judge (a second reading of the files), measured kinds by is_derived_from(QAction / QLayout / QWidget) in the order of UiObject::build']
PROPS["C07"]["rule"] += '  (f) IDENTIFIERS WITH NON-ASCII LETTERS (`uid`, about 7 600 cases per quick run; harness/src/streams/c07/unicode_ids.rs): a pool of 30 names (first character of 2, 3 or 4 bytes, lower / Unicode-upper / title case, single-character names, a combining mark or ZWJ after or as first character, emoji, U+10FFFF, `_`/`$` prefix, ASCII-first, `é` spelling, ASCII controls; the accepted character set was measured on the grammar); OBJECT documents (about 4 100): 7 name sources (nested id, root id, id deep in layouts, two ids differing in the first character only, custom component type WITHOUT id so that the generated object name derives from the type name, component type plus id, the document\'s own type name) x 21 features that derive a C++ name, object name or file name (static; dynamic binding on a property, gadget member, gadget group, size policy, attached property; type error; callbacks with and without body, parameter, self reference; several at once; referenced from another object\'s binding, callback, buddy, pointer ternary, actions, menuAction(); item model; object map) x pool, the full grid in-process, every (name, feature), (source, feature), (source, name) pair of the 10 non-ASCII core names through the real CLI; SYNTAX documents: 108 grammar positions (locals, parameters, switch and if bodies, members, enum / type / cast names, attached, grouped and handler spellings, property / signal / function / enum / component declarations, unknown types, imports, pragmas) x 13 names; FOREIGN documents: C++ classes with non-ASCII class, property, signal, slot, method, enum and enumerator names (a second --foreign-types file for the CLI); FILE-NAME documents: 40 type names (pool + names with a blank, a dot, a leading dash or dot, 160 bytes, upper-case extension) x 4 features, and components that instantiate themselves or each other (12 CLI cases with the 20 s timeout); 300 random MULTI documents; 360 uid documents through mutate / densify / truncate and 40 with a comment at every token boundary; a new mutation uid-rename-id|any|one on 600 pool documents (examples, test snippets, generated, stress): an object id (all occurrences), any identifier, or one occurrence gets a non-ASCII letter of 2/3/4 bytes as first character, inner character or prefix. New request forms (c07 "text" "TypeName" [dir]), (c07-twin …), (c07-cli HOW "text" "File.qml" (file "Other.qml" "text")…). Oracle: the totality oracle in all three modes plus the real CLI (494 runs): exit 0 or 1, <stem>.ui and uisupport_<stem>.h written iff exit 0 (names compared ignoring letter case). TWIN ORACLE (part of the tie, 6 100 cases): the same document with the names replaced consistently by ASCII names of the same upper/lower class must behave alike in every mode (syntax verdict, built, error and warning counts, messages with the names mapped back; for on<Name> positions only acceptance). (g) INTEGER BOUNDARIES: 13 operators x 12x12 operands (i64::MIN … MAX, +-2^31, 2^32, 63/64) plus the unary operators, 1 920 documents + 27 CLI runs.'
PROPS["C07"]["assumptions"] = list(PROPS["C07"]["assumptions"]) + ['the uid cases with names XML 1.0 cannot carry (U+FFFE / U+FFFF ids, control characters in file names) are generated only once finding F90 is listed in KNOWN_FINDINGS.json (known or fixed)']
PROPS["C18"]["rule"] += ' ; IMPORT-FORMS family (60 layouts quick / 360 thorough): every link of a 1-3 component chain (each component in its own directory) and the source\'s own imports written in one of 15 styles — with a version (named `import qmluic.QtWidgets 6.2` / 5.15 / 6, string `import "../b" 1.0`), under an alias (alone: the route is cut; next to a plain statement), twice / under two spellings, the own directory explicitly, unused imports in between, the Qt module last or between directory imports; a directory imported under an alias only must NOT be discovered; judged by c18-judge-all + model + c18-once / reach / resolve / exact; import nodes may carry (version "…") / (alias "…") among their arguments (plain nodes unchanged); the diags of an answer hold errors and warnings, accepted = built and no error; the chain family gives a version to one statement in five; corpus/C18/import_forms.c18.req (8 witnesses, 144 requests)'
PROPS["C18"]["level_text"] += '  Imports: versioned_import_is_the_import, versioned_import_only_warns (same form, widgets, customwidgets and verdict; only the warning differs), aliased_import_contributes_nothing, aliased_import_rejects_document; Output.accepted = built and no ERROR diagnostic (customwidgets_exact clause 3 reworded accordingly)." (theorems 34 -> 38)'
PROPS["C18"]["assumptions"] = list(PROPS["C18"]["assumptions"]) + ["the position of the import-statement diagnostics among the others is not modelled (diagnostics are compared sorted); versions and alias names are opaque strings; errors of DISCOVERED components go to the project diagnostics, which the in-process answers do not carry (the judge checks that the CLI's exit status is unaffected)"]
PROPS["C18"]["trusted_base"] = list(PROPS["C18"]["trusted_base"]) + ['qml_text writes `import M <version> as <alias>`']
PROPS["C07"]["rule"] += '  (h) COMPONENT SETS (`set`, 292 cases): several QML files in one or two directories (string import "../lib"), 15 shapes: self-root, self-root-child, self-child, cycle2, cycle3, import-cycle, import-self, cross-dir-cycle, chain-into-cycle, diamond-cycle, diamond-ok (valid diamond + an UNUSED 2-cycle in the same directory), mutual-child, cycle-behind-child, chain-ok, dangling; each with the instance as root / as child of the main document x static / dynamic binding / callback, ASCII and non-ASCII component names; through the real CLI (242 runs, 20 s limit: every file alone and all on one command line, also --no-dynamic-binding): exit 0/1, 0 iff every .ui written, 1 only with a report; in-process through qmldir::populate_directories + uigen::build with ONE fresh type map per set in all three modes: 42 sets without a reachable inheritance cycle plus <= 8 cyclic sets per run (chosen by the seed, run LAST because a hang costs a worker). A document that instantiates a component whose chain of roots never reaches a Qt class must be refused in every mode and never written; the sets valid by construction must be accepted. New requests (c07-set (files …) (sources …)), (c07-cli-set generate|reject (files …) (sources …)). (i) BOUNDARY CONSTANTS (`bc`, 8 835 cases): 41 integer operands (i64 min…max, +-2^31, 2^31+-1, 2^32, 2^53, 2^53+1, literals that do not fit such as 2^63 / 2^64, hex / octal / legacy-octal / binary / `_` spellings, folded expressions such as `-9223372036854775807 - 1`, `1 << 62`) and 20 double operands (+-1e308, 1e309, -0.0, NaN / +-inf as folded divisions, +-2^63.0, denormal, `.5`, `5.`) under 14 binary integer operators, 3 shifts x 12 shift counts, logical, ternary, 7 unary forms, 21 cast forms (incl. the unsupported ones), double x double, mixed int/double, Math.max/min, .arg, subscripts, switch labels, let chains; bound to int / uint / double / bool / QString / enum / flags properties and in callbacks, CONSTANT (folded) and DYNAMIC (one operand a property read, so the folder is bypassed); totality in all three modes + 54 CLI runs.'
PROPS["C07"]["level_note"] += ' quick 27 081 cases (was 8 401), 1 429 CLI runs, wall about 55 s.'

# ---- round-4 text deltas (forms): attached layout properties located in the .ui; CLI leg of the mode comparison
PROPS["C04"]["rule"] += (" Attached layout properties have a checkable fate: per layout a set of attached families, most often exactly one, with a "
                         "non-default value; the value must stand in the matching attribute of the parent <layout> (rowstretch / columnstretch / "
                         "rowminimumheight / columnminimumwidth / stretch), or on the <item> for row / column / spans / alignment; the index within "
                         "the attribute is C12's subject.")
PROPS["C04"]["assumptions"] = list(PROPS["C04"]["assumptions"]) + [
    "[updated] flow / columns / rows count as consumed by the layout (DESIGN §4); every other attached layout property is located in the .ui "
    "(it no longer counts as 'embedded' by assumption)"]
PROPS["C14"]["rule"] += (" For one oracle case in eight the real CLI is run without and with `--no-dynamic-binding` in fresh temp dirs; exit status, the "
                         "set of files written, .ui bytes and header bytes must equal the in-process generate and reject results respectively.")
PROPS["C20"]["level_note"] += ("; the per-row/per-column attributes of the layout holding the faulted object are treated as that object's own attached values")

# ---- round-4 text deltas (semantics): string order, overload sets
PROPS["C01"]["level_note"] += (" Folded and run-time comparisons of string constants/values whose UTF-16 code unit order differs from code point order "
    "(astral vs U+E000..U+FFFF, prefixes, empty string, combining marks) decide run-time values: targeted labels "
    "const-string-compare-{if,ternary,logical,eq-bool,switch,nested}, string-compare-runtime; witnesses corpus/C01/const_string_order.c01.req.")
PROPS["C13"]["level_note"] += (" Overload sets: verification classes VOverBase/VOver (harness/metatypes/verif_overloads.json) carry default-argument chains of "
    "1-3, chains with a gap, forks in a leading / trailing argument type, arity-only and last-step breaks, signal vs slot / method of one name, "
    "slot-only names and names declared in base and derived class; every name is judged against the specification (oracle c13-overload: most-derived "
    "declaring class; increasing-arity prefix chain of equal kind and return type => longest member if it is a signal, else 'cannot bind to overloaded "
    "signal' / 'not a signal') and compared with Model.Callback.uniquifyMethods (c13-body overload); real Qt classes (QSpinBox/QDoubleSpinBox.valueChanged, "
    "QComboBox.activated/highlighted/currentIndexChanged ambiguous; clicked/toggled/triggered/textChanged accepted) in the stream and in "
    "corpus/C13/overloaded_qt_signals.c13.req; handlers with folded / run-time string comparisons (label const-string-compare).")
PROPS["C13"]["trusted_base"] = list(PROPS["C13"]["trusted_base"]) + ["the Rust statement of the overload rule (`spec_resolve` in c13.rs) and the overload metatypes file"]

# ---- round-4 text deltas (C17 scoped names)
PROPS["C17"]["rule"] += ' ; SCOPED NAMES as a first-class query: (gscoped "A::B::C") = get_type_scoped on the module, (cscoped "C" n) / (rscoped "C" n) = get_type_scoped / resolve_type_scoped on class C (star forms: gscoped* the listed names, cscoped* / rscoped* every class x the listed names); every table with member types (844 quick) and every fourth random table gets about 140 module-level names `A`, `A::B`, `A::B::C` with A among up to 5 classes (first, last, those declaring enums) / a module enum / a builtin / an unknown name and B among the members of A, of ancestors, of DESCENDANTS, sibling and top-level classes, A itself, module enums, builtins, nested enums of other classes, enumerators, unknown names, and (tables of at most 12 classes) 28 names from every class; exact answers `-` | (ok class|enum|prim "Qualified") vs the model, coarse `(found)` | `-` vs the specification, and the exact answers judged (kind=pred): found iff every part after the first is a nested enum DECLARED by the class before it or one of its public ancestors (never something merely visible from there), the owner of the enum found an ancestor-or-self that declares it, nothing has a third part; WHOLE PIPELINE: 608 documents (`let n: A.B = …`, `(… as A.B)`, the enumerator `A.V`; 59 also through the real binary) over two class families with nested enums (chain + sibling with a scoped enum; diamond) and A among the family and QWidget / QPushButton / QAbstractButton: accepted iff B (resp. V) is declared by A or a public ancestor, else \'undefined type\' / \'undefined reference\' (\'bare type reference\' for a member enum type used as a value); corpus/C17/scoped_names.c17.req'
PROPS["C17"]["level_text"] += "  Scoped names (moduleGetTypeScoped / classGetTypeScoped / classResolveTypeScoped): scoped_found_only_members (a scoped name of two or more parts is found only with exactly two parts, A a class, B found by A's member look-up), scoped_found_iff_member (A::B found iff A or a public ancestor declares the nested enum B; the enum found is declared by a class A derives from)."

# ---- round-4 text deltas (typing / program generators)
PROPS["C05"]["rule"] += (" Operand-swap edits break exactly ONE operand position — the left or the right operand of every operator class (arithmetic, "
    "bitwise, shift, comparison, logical, Math.max/min, pointer/enum comparison), the condition, the consequence or the alternative of a ternary — "
    "decided on the side stream and labelled pos:*.")
for _p in ("C06", "C01", "C03"):
    PROPS[_p]["rule"] += (" A quarter of the block bindings are mixed-constness blocks: constant completion value (final expression or final return) "
        "after dynamic early returns (if, else-if chain, switch clauses, through a let) and the mirror image, all-constant paths under a dynamic or "
        "literal condition; none may be evaluated as a constant (eval field of the exact IR).")
PROPS["C02"]["level_text"] += (" evaluated_constant_entry / branching_entry_not_constant / reading_entry_not_constant — a body evaluate_code folds to a "
    "constant has an entry block that returns that constant, or that neither branches on a condition nor assigns a property read: a body whose entry "
    "block branches is never folded (the constant fast path looks at the entry block; tied by the eval field of the exact-IR stream).")
PROPS["C01"]["rule"] += " A binding folded to a constant must have one defined specification value over all states of the batch (constant-but-state-dependent otherwise)."

# ---- C01: statements in the end-to-end induction
PROPS["C01"]["level_text"] += (" compile_correct_block_assign / compile_correct_block_if / compile_correct_block_early_return END-TO-END for blocks with "
    "assignment to declared let variables (x = e;), if (e) { A } else { A } / if (e) { A } as statements (branch bodies A ::= x = e; …) and if branches "
    "that return — early return if (e) { T }, and if/else with a returning consequence, alternative or both, T a statement list ending in return e. "
    "Steps: walk_block_assign (one store into the variable's local, converted like Spec.Sem converts; VarInj: different names, different locals), "
    "walk_block_if_else / walk_block_if (visit_if_statement wiring, variables related again at the join block), walk_block_if_return (invariant "
    "restated on the RESULT of the run: ROk / RetAt, rOk_of_sOk). Inductions: walk_statements, walk_statements_if, walk_statements_return. "
    "[updated] Not in the induction: typed/uninitialised declarations, declarations and nested ifs inside non-returning branch bodies, an if as the "
    "last statement of the block, switch/break, float/string/null literals, calls, casts, subscripts.")
