"""Per-property configuration of ./check."""

PROPS = {}

PROPS["C19"] = {
    "gen": ["gen_color_table.py"],
    "lean": ["QV.Props.C19"],
    "streams": ["c19"],
    "exhaustive": True,
    "exhaustive_note": "all 4096 three-digit and all 65536 four-digit lower-case hex colours; every SVG keyword in "
                       "lower/upper/capitalised case; 6/8-digit and malformed strings are sampled",
    "rule": "requests are distinct strings; non-trivial = every case runs Color::from_str or the full pipeline "
            "and is compared with the Lean spec (kind=spec) and the Lean model (kind=model)",
    "trusted_base": [
        "QV.Spec.SvgTable typed in from the npm color-name table (SVG 1.1 keywords)",
        "tools/gen_color_table.py regenerates QV.Gen.colorTable from lib/src/color.rs on every run",
    ],
    "assumptions": ["Qt reads #rgb/#argb/#rrggbb/#aarrggbb and SVG keywords as stated in the property text"],
}
