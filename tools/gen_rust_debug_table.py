#!/usr/bin/env python3
"""Regenerates lean/QV/Model/RustDebugTable.lean from the installed Rust toolchain (C16).

Compiles and runs a tiny Rust program that formats every Unicode scalar value with `{:?}` (as a one-character `str`,
at the start and after another character) and records which ones are printed as `\\u{…}`.  Exits 2 if the six
backslash escapes are not exactly `\\0 \\t \\n \\r \\" \\\\`."""
import os, re, subprocess, sys, tempfile

PROG = r'''
fn main() {
    let mut ranges: Vec<(u32,u32)> = vec![];
    let mut cur: Option<(u32,u32)> = None;
    let mut special = vec![];
    for cp in 0u32..0x110000 {
        let Some(c) = char::from_u32(cp) else { continue };
        let s = format!("{:?}", c.to_string());
        let inner = &s[1..s.len()-1];
        let s2 = format!("{:?}", format!("a{}", c));
        assert_eq!(inner, &s2[2..s2.len()-1]);
        if inner.starts_with("\\u{") {
            assert_eq!(inner, format!("\\u{{{:x}}}", cp));
            match cur { Some((a,b)) if b + 1 == cp => cur = Some((a,cp)), Some(r) => { ranges.push(r); cur = Some((cp,cp)); } None => cur = Some((cp,cp)) }
        } else if inner.chars().count() != 1 { special.push(format!("{:x}={}", cp, inner)); }
        else { assert_eq!(inner, c.to_string()); }
    }
    if let Some(r) = cur { ranges.push(r); }
    println!("special {}", special.join(" "));
    for (a,b) in &ranges { println!("{:x} {:x}", a, b); }
}
'''

def main():
    out = sys.argv[1] if len(sys.argv) > 1 else os.path.join(os.path.dirname(__file__), "..", "lean", "QV", "Model", "RustDebugTable.lean")
    with tempfile.TemporaryDirectory() as d:
        open(os.path.join(d, "t.rs"), "w").write(PROG)
        subprocess.check_call(["rustc", "-O", "-o", os.path.join(d, "t"), os.path.join(d, "t.rs")], stdout=subprocess.DEVNULL, stderr=subprocess.DEVNULL)
        text = subprocess.check_output([os.path.join(d, "t")], text=True)
        ver = subprocess.check_output(["rustc", "--version"], text=True).strip()
    lines = text.splitlines()
    if lines[0] != 'special 0=\\0 9=\\t a=\\n d=\\r 22=\\" 5c=\\\\':
        print("gen_rust_debug_table: unexpected backslash escapes:", lines[0], file=sys.stderr)
        return 2
    rows = [tuple(int(x, 16) for x in l.split()) for l in lines[1:]]
    old = open(out, encoding="utf-8").read()
    m = re.search(r"def escapedRanges : List \(Nat × Nat\) := \[(.*?)\n\]", old, re.S)
    have = [(int(a, 16), int(b, 16)) for a, b in re.findall(r"\(0x([0-9a-f]+), 0x([0-9a-f]+)\)", m.group(1))]
    if have == rows:
        print(f"gen_rust_debug_table: {len(rows)} ranges, unchanged ({ver})")
        return 0
    body = ",\n".join("  " + ", ".join("(0x%x, 0x%x)" % r for r in rows[i:i + 6]) for i in range(0, len(rows), 6))
    new = old[:m.start(1)] + "\n" + body + old[m.end(1):]
    open(out, "w", encoding="utf-8").write(new)
    print(f"gen_rust_debug_table: {len(rows)} ranges, table rewritten ({ver})")
    return 0

if __name__ == "__main__":
    sys.exit(main())
