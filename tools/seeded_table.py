#!/usr/bin/env python3
"""Writes seeded/RESULTS.md from seeded/<ID>/<k>/{meta.json,result.json,history.json}: which checks catch which seeded change."""
import json, os

ROOT = os.path.dirname(os.path.dirname(os.path.abspath(__file__)))
S = os.path.join(ROOT, "seeded")
rows = []
for pid in sorted(os.listdir(S)):
    d = os.path.join(S, pid)
    if not os.path.isdir(d) or pid.startswith("_"):
        continue
    for k in sorted(os.listdir(d)):
        dd = os.path.join(d, k)
        if not os.path.isfile(os.path.join(dd, "patch.diff")):
            continue
        meta = json.load(open(os.path.join(dd, "meta.json")))
        res = json.load(open(os.path.join(dd, "result.json"))) if os.path.isfile(os.path.join(dd, "result.json")) else {}
        hist = json.load(open(os.path.join(dd, "history.json"))) if os.path.isfile(os.path.join(dd, "history.json")) else {}
        own = res.get("checks", {}).get(pid, {})
        if own.get("rc") == 1 and any("no-failing-input-found" not in l for l in own.get("violations", [])):
            verdict = "caught, failing input"
        elif own.get("rc") == 1:
            verdict = "caught, source pin / correspondence only"
        elif own:
            verdict = "MISSED"
        else:
            verdict = "not run"
        if meta.get("superseded"):
            verdict = "superseded (no-op on HEAD): " + verdict
        others = [c for c in res.get("caught_with_failing_input", []) if c != pid]
        ex = own.get("first_failing_case", {})
        example = (ex.get("expected") or ex.get("impl") or "")
        example = example.replace("(ok ...) from the specification predicate; got ", "")[:150].replace("|", "\\|").replace("\n", " ")
        rows.append((f"{pid}/{k}", meta.get("title", "")[:110].replace("|", "\\|"), ", ".join(meta.get("files", [])[:2]),
                     hist.get("first_run", ""), verdict, ", ".join(others), example))
with open(os.path.join(S, "RESULTS.md"), "w") as f:
    f.write("# Seeded breaking changes and the checks that catch them\n\n"
            "Each change was written by an independent engineer who saw only the property text, compiles, passes the unedited\n"
            "suite and was confirmed by the coordinator (build, suite, demonstration).  `first run` = verdict of the property's own\n"
            "check before any strengthening; `now` = verdict of the current checks (tools/run_seeded_isolated.py, quick tier).\n\n"
            "| change | what it does | files | first run | now (own check) | other checks with a failing input | first failing case |\n"
            "|---|---|---|---|---|---|---|\n")
    for r in rows:
        f.write("| " + " | ".join(r) + " |\n")
    n = len(rows)
    caught = sum(1 for r in rows if r[4].startswith("caught, failing"))
    pin = sum(1 for r in rows if r[4].startswith("caught, source"))
    missed = sum(1 for r in rows if r[4] == "MISSED")
    sup = sum(1 for r in rows if r[4].startswith("superseded"))
    f.write(f"\n{n} changes: {caught} caught with a failing input, {pin} caught through a moved source pin / broken correspondence only "
            f"(`no-failing-input-found`), {missed} missed by the property's own check, {sup} superseded by a later repair in /repo "
            f"(the patch still applies but no longer changes behaviour).\n")
print(f"{len(rows)} rows")
