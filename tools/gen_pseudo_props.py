#!/usr/bin/env python3
"""Regenerate lean/QV/Gen/PseudoProps.lean from /repo/lib/src/uigen/{object,layout,gadget}.rs (C04, C14, C20).

Extracts the string lists that exclude bindings from the generic constant pass (`make_serializable_map` /
`make_value_map` excludes) and the names the special consumers look up.  Exits 2 (obligation broken) if an
anchor cannot be found."""
import re, sys, os

def strs(s):
    return re.findall(r'"((?:[^"\\]|\\.)*)"', s)

def need(m, what):
    if not m:
        print(f"gen_pseudo_props: anchor not found: {what}", file=sys.stderr)
        sys.exit(2)
    return m

def main():
    repo = os.environ.get("QV_REPO", "/repo")
    out = sys.argv[1] if len(sys.argv) > 1 else os.path.join(os.path.dirname(__file__), "..", "lean", "QV", "Gen", "PseudoProps.lean")
    rd = lambda p: open(os.path.join(repo, "lib/src/uigen", p), encoding="utf-8").read()
    obj, lay, gad = rd("object.rs"), rd("layout.rs"), rd("gadget.rs")
    t = {}
    # Widget::new
    wn = need(re.search(r"impl Widget \{.*?pub\(super\) fn new\(.*?\n    \}\n", obj, re.S), "Widget::new").group(0)
    t["widgetPseudo"] = strs(need(re.search(r"let mut pseudo_property_names = vec!\[(.*?)\];", wn, re.S), "pseudo_property_names").group(1))
    ext = re.findall(r"if class\.is_derived_from\(&ctx\.classes\.(\w+)\) \{\s*pseudo_property_names\.extend\(\[(.*?)\]\);", wn, re.S)
    extd = {k: strs(v) for k, v in ext}
    if set(extd) != {"table_view", "tree_view"} or len(re.findall(r"pseudo_property_names\.extend", wn)) != 2:
        need(None, "pseudo_property_names.extend for table_view and tree_view only")
    t["tableViewPseudo"] = extd["table_view"]
    t["treeViewPseudo"] = extd["tree_view"]
    # the lookups of the special consumers in Widget::build / Widget::new
    t["widgetLookups"] = sorted(set(re.findall(r'properties_code_map\.get\("(\w+)"\)', obj)))
    t["headerLookups"] = sorted(set(strs(" ".join(re.findall(r'flatten_object_properties_into_attributes\(\s*ctx,\s*&mut attributes,\s*properties_code_map,\s*("\w+")', obj)))))
    # Action::new
    an = need(re.search(r"impl Action \{.*?fn new\(.*?\n    \}\n", obj, re.S), "Action::new").group(0)
    t["actionPseudo"] = strs(need(re.search(r"make_serializable_map\(\s*ctx,\s*properties_code_map,\s*&\[(.*?)\]", an, re.S), "Action excludes").group(1))
    # Layout::new
    ln = need(re.search(r"let pseudo_property_names = if class\.is_derived_from\(&ctx\.classes\.grid_layout\) \{\s*\[(.*?)\]\.as_ref\(\).*?\} else \{\s*\[(.*?)\]\.as_ref\(\)", lay, re.S), "Layout::new pseudo names")
    t["gridLayoutPseudo"] = strs(ln.group(1))
    t["otherLayoutPseudo"] = strs(ln.group(2))
    t["layoutFlowLookups"] = sorted(set(strs(" ".join(re.findall(r'property::get_enum\(ctx, properties_code_map, ("\w+")', lay) + re.findall(r'pop_count_property\(("\w+")\)', lay)))))
    # SpacerItem::new
    sn = need(re.search(r"impl SpacerItem \{.*?fn new\(.*?\n    \}\n", lay, re.S), "SpacerItem::new").group(0)
    t["spacerPseudo"] = strs(need(re.search(r"make_value_map\(ctx, properties_code_map, &\[(.*?)\]", sn, re.S), "Spacer excludes").group(1))
    # attached layout properties: macro invocations
    t["layoutAttachedNames"] = sorted(strs(" ".join(re.findall(r'impl_attached_(?:enum|i32)_property!\(\w+, ("\w+")\);', lay))))
    # gadget.rs
    t["sizePolicyKnown"] = strs(need(re.search(r"let known_property_names = \[(.*?)\];", gad, re.S), "known_property_names").group(1))
    t["brushExcludes"] = strs(need(re.search(r"fn make_brush_properties.*?make_value_map\(ctx, map, &\[(.*?)\]", gad, re.S), "brush excludes").group(1))
    t["iconExcludes"] = strs(need(re.search(r"fn make_icon_properties.*?make_value_map\(ctx, map, &\[(.*?)\]", gad, re.S), "icon excludes").group(1))
    generic = need(re.search(r"_ => \(\s*HashMap::new\(\),\s*property::make_value_map\(ctx, map, &\[(.*?)\], diagnostics\)", gad, re.S), "generic gadget excludes")
    t["genericGadgetExcludes"] = strs(generic.group(1))
    lines = ["-- GENERATED on every run by tools/gen_pseudo_props.py from /repo/lib/src/uigen/{object,layout,gadget}.rs — do not edit.",
             "namespace QV.Gen.PseudoProps", ""]
    for k, v in t.items():
        lines.append("def %s : List String := [%s]" % (k, ", ".join('"%s"' % s for s in v)))
    lines += ["", "end QV.Gen.PseudoProps", ""]
    text = "\n".join(lines)
    old = open(out).read() if os.path.exists(out) else None
    if old != text:
        open(out, "w").write(text)
    print("gen_pseudo_props: %d lists, %d names" % (len(t), sum(len(v) for v in t.values())))
    return 0

if __name__ == "__main__":
    sys.exit(main())
