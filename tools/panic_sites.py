#!/usr/bin/env python3
"""C07: lists every place in qmluic's library (lib/src, test modules excluded) and in the CLI's generate-ui/report path
(src/main.rs, src/reporting.rs) where the code can panic by construction and compares the list with the pinned,
*reviewed* one (pins/C07_panic_sites.json).

EXPLICIT sites: `panic!/unreachable!/unimplemented!/todo!`, `assert*!`, `.expect(..)`, `.unwrap()`, `.unwrap_err()`,
`.expect_err(..)`, the project's own `unwrap_*()` helpers.
IMPLICIT sites (operations of std that panic, or abort, without saying so in the source):
  index / slice   `x[i]`, `map[&k]`, `x[a..b]`, `&s[a..]` (out of range, missing key, not a character boundary)
  call            `.insert(i, x)` / `.remove(i)` (every two-argument `insert` and every `remove` whose argument is not a
                  `&…`/string key is listed, the map/set ones get the verdict `total`), `.swap_remove`, `.split_at(_mut)`,
                  `.split_off`, `.drain(a..b)`, `.swap(i, j)`, `.insert_str`, `.replace_range`, `.copy_from_slice`,
                  `.clone_from_slice`, `.windows(0)`, `.chunks(0)`, `.chunks_exact`, `.rchunks`, `.step_by(0)`,
                  `.rotate_left/right`, `RefCell::borrow_mut` (and `.borrow()` in files that name `RefCell`),
                  `get_unchecked`, `unwrap_unchecked`, `from_utf8_unchecked`
  div             integer `/`, `%`, `/=`, `%=` whose divisor is not a non-zero literal (division by zero and MIN / -1
                  panic in release builds too; the scan cannot see types, float divisions get the verdict `total`)
  as-usize        every `as usize` (a negative or huge value turns into an out-of-range index or an allocation size)
  alloc           `with_capacity / resize / resize_with / reserve / repeat` with a non-literal size (capacity overflow
                  panics, allocation failure aborts)
  exit            `process::exit(code)` — the exit status clause of C07
  range-fn/range  the accessors `byte_range/start_byte/end_byte` and every hand-made `a..b` range expression: what the report
                  renderer slices the source text with (the range clause of C07)
Overflow of `+ - *` is not listed: it panics in debug builds only (the harness builds the library with overflow checks, so
the c07 stream exercises it; release semantics wrap).

A site = (file, enclosing fn, kind, normalised text) with a multiplicity.  Every pinned site carries a verdict
(`class`) and a one-line argument (`why`) written by a reviewer; `pins/C07_panic_sites.md` is rendered from the JSON.
GUARDS are pinned too: each site records `fn_sha`, a hash of the text of its enclosing function (comments and white space
removed), and — where the argument rests on code elsewhere ("the parser adapter produces consistent positions") —
`guards`: the functions that establish it (`file.rs::Impl::fn`; `file.rs` = the whole module; `Cargo.lock#pkg` = version and
checksum of a third-party package, used for the grammar), each with its hash.  When the enclosing function or a
guard function changes, the site is reported as GUARD-CHANGED and the comparison fails until the argument was re-read
and the pin renewed (`--update` keeps the verdict, prints the sites to re-read).

Usage: panic_sites.py [--update] [--list]
  exit 0 = the list is unchanged and every site is reviewed,
  exit 2 = the list changed (a new panic site is a broken obligation of C07) or a site is unreviewed.
`--update` re-pins: verdicts of sites that still exist are kept, new sites get class UNREVIEWED (which still fails
the comparison until somebody writes the argument), and the .md is re-rendered."""
import json, os, re, sys

REPO = os.environ.get("QV_REPO", "/repo")
ROOT = os.path.dirname(os.path.dirname(os.path.abspath(__file__)))
PIN = os.path.join(ROOT, "pins", "C07_panic_sites.json")
MD = os.path.join(ROOT, "pins", "C07_panic_sites.md")
EXTRA_FILES = ["src/main.rs", "src/reporting.rs"]

CLASSES = {
    "guarded": "cannot fire: the guard is established locally or by a documented invariant of the caller",
    "type-guarded": "cannot fire given the value-shape contract (QV.Props.C07.unwrap_never_fails): the type check that precedes it fixes the shape of the evaluated value",
    "grammar": "cannot fire as long as tree-sitter-qmljs produces the node shapes of its grammar (tested by the c07 stream, not proved)",
    "startup": "outside the quantifier of C07 (type-map construction / metatypes loading / CLI option handling / preview), or test-only helper",
    "io": "propagates an I/O failure of the output writer (not a property of the input text)",
    "total": "not a panic site after all: the operation is total on this receiver / operand type (HashMap/HashSet insert and remove, float division, a method that only shares its name with a panicking one); listed because the scan is syntactic",
    "exit-status": "process::exit with the literal status 1 on a reported error (the statement of C07 allows 0 and 1)",
    "REACHABLE": "fires on some input: finding",
    "UNREVIEWED": "new site, no argument yet",
}


def mask(src, comments=None):
    """Returns src with the *contents* of comments, string and char literals replaced by blanks (same length).
    `comments`, if given, receives the (start, end) ranges of the comments."""
    out = list(src)
    i, n = 0, len(src)

    def blank(a, b):
        for k in range(a, b):
            if out[k] != "\n":
                out[k] = " "
    while i < n:
        c = src[i]
        if src.startswith("//", i):
            j = src.find("\n", i)
            j = n if j < 0 else j
            blank(i, j)
            if comments is not None:
                comments.append((i, j))
            i = j
        elif src.startswith("/*", i):
            depth, j = 1, i + 2
            while j < n and depth:
                if src.startswith("/*", j):
                    depth += 1
                    j += 2
                elif src.startswith("*/", j):
                    depth -= 1
                    j += 2
                else:
                    j += 1
            blank(i, j)
            if comments is not None:
                comments.append((i, j))
            i = j
        elif c == "r" and re.match(r'r#*"', src[i:i + 12]) and (i == 0 or not (src[i - 1].isalnum() or src[i - 1] == "_")):
            m = re.match(r'r(#*)"', src[i:i + 12])
            close = '"' + m.group(1)
            j = src.find(close, i + len(m.group(0)))
            j = n if j < 0 else j + len(close)
            blank(i + len(m.group(0)), j - len(close))
            i = j
        elif c == '"':
            j = i + 1
            while j < n and src[j] != '"':
                j += 2 if src[j] == "\\" else 1
            blank(i + 1, j)
            i = j + 1
        elif c == "'":
            # char literal or lifetime
            m = re.match(r"'(?:\\(?:x[0-9a-fA-F]{2}|u\{[0-9a-fA-F_]+\}|.)|[^'\\])'", src[i:i + 14])
            if m:
                blank(i + 1, i + len(m.group(0)) - 1)
                i += len(m.group(0))
            else:
                i += 1
        else:
            i += 1
    return "".join(out)


def sha_of(text):
    import hashlib
    return hashlib.sha256(re.sub(r"\s+", "", text).encode()).hexdigest()[:16]


def fn_extents(m):
    """[(start, end, name)] of every `fn` with a body in the masked text"""
    out = []
    for x in re.finditer(r"\bfn\s+(\w+)", m):
        depth, k, n = 0, x.end(), len(m)
        body = -1
        while k < n:
            c = m[k]
            if c in "([":
                depth += 1
            elif c in ")]":
                depth -= 1
            elif c == ";" and depth == 0:
                break
            elif c == "{" and depth == 0:
                body = k
                break
            k += 1
        if body >= 0:
            out.append((x.start(), balanced_end_long(m, body), x.group(1)))
    return out


def balanced_end(masked, start, open_ch, close_ch):
    """index just after the bracket that closes the one at `start`"""
    depth = 0
    for k in range(start, min(len(masked), start + 4000)):
        if masked[k] == open_ch:
            depth += 1
        elif masked[k] == close_ch:
            depth -= 1
            if depth == 0:
                return k + 1
    return min(len(masked), start + 200)


def balanced_end_long(masked, start):
    depth = 0
    for k in range(start, len(masked)):
        if masked[k] == "{":
            depth += 1
        elif masked[k] == "}":
            depth -= 1
            if depth == 0:
                return k + 1
    return len(masked)


def norm(s):
    s = re.sub(r"\s+", " ", s).strip()
    s = re.sub(r"\s*([()\[\],.])\s*", r"\1", s)
    return s[:140]


def receiver_start(masked, pos):
    """Walks back from `pos` (start of `.method` / `[`) over a postfix expression: identifiers, paths, calls,
    indexes, `?`, field accesses."""
    k = pos
    while k > 0:
        c = masked[k - 1]
        if c.isalnum() or c in "_?.:":
            k -= 1
        elif c in ")]":
            open_ch = "(" if c == ")" else "["
            depth, j = 0, k - 1
            while j >= 0:
                if masked[j] == c:
                    depth += 1
                elif masked[j] == open_ch:
                    depth -= 1
                    if depth == 0:
                        break
                j -= 1
            if j < 0:
                break
            k = j
        elif c in " \n" and re.search(r"\n\s*$", masked[:k]) and masked[k:k + 1] == ".":
            # method chain continued on the next line
            k = len(masked[:k].rstrip())
        else:
            break
        if pos - k > 160:
            break
    return k


MACROS = r"\b(panic|unreachable|unimplemented|todo|assert|assert_eq|assert_ne|debug_assert|debug_assert_eq|debug_assert_ne)!\s*\("
OWN_UNWRAP = r"\.\s*(unwrap_(?!or\b|or_else\b|or_default\b|unchecked\b)\w+)\s*\("
CALLS = (r"\.\s*(swap_remove|split_at|split_at_mut|split_off|drain|swap|insert_str|replace_range|copy_from_slice|clone_from_slice|"
         r"windows|chunks|chunks_exact|rchunks|step_by|rotate_left|rotate_right|borrow_mut|get_unchecked|get_unchecked_mut|"
         r"unwrap_unchecked|from_utf8_unchecked)\s*\(")
# Vec::remove(i) / Vec::insert(i, x) / String::insert/remove: every two-argument `insert` and every one-argument `remove`
# whose argument is not written as a key (`&…` / string literal); the receiver's type is not visible to the scan, so
# HashMap::insert(k, v) / remove(k) are listed too and get the verdict `total`
INSERT_REMOVE = r"\.\s*(insert|remove)\s*\("
ALLOC = r"(?:\.\s*|::)(with_capacity|resize|resize_with|reserve|reserve_exact)\s*\(|\.\s*(repeat)\s*\("


def top_level_args(inner):
    """splits the text between the parentheses of a call at top-level commas"""
    args, depth, cur = [], 0, []
    for c in inner:
        if c in "([{":
            depth += 1
        elif c in ")]}":
            depth -= 1
        if c == "," and depth == 0:
            args.append("".join(cur).strip())
            cur = []
        else:
            cur.append(c)
    last = "".join(cur).strip()
    if last:
        args.append(last)
    return args


_FILES = {}


def analyse(rel):
    """(src, masked, fn extents, impl extents, comment flags) of a file of /repo, test module cut off"""
    if rel in _FILES:
        return _FILES[rel]
    src = open(os.path.join(REPO, rel), encoding="utf-8").read()
    cut = src.find("#[cfg(test)]")
    if cut >= 0:
        src = src[:cut]
    comments = []
    m = mask(src, comments)
    is_comment = bytearray(len(src))
    for a, b in comments:
        for k in range(a, b):
            is_comment[k] = 1
    impl_extents = []
    for x in re.finditer(r"^impl(?:<[^>{]*>)?\s+(?:[\w:<>' ,]+\s+for\s+)?&?(?:'\w+\s+)?(\w+)", m, flags=re.M):
        brace = m.find("{", x.end())
        if brace >= 0:
            impl_extents.append((x.start(), balanced_end_long(m, brace), x.group(1)))
    _FILES[rel] = (src, m, fn_extents(m), impl_extents, is_comment)
    return _FILES[rel]


def text_sha(rel, a, b):
    """hash of src[a:b] without comments and white space"""
    src, _, _, _, is_comment = analyse(rel)
    return sha_of("".join(src[k] for k in range(a, b) if not is_comment[k]))


def resolve_guard(g):
    """`lib/src/x.rs::Impl::fn` or `lib/src/x.rs::fn` → hash of that function (all of them, in order, if the name is
    defined more than once there); None if it does not exist"""
    if g.startswith("Cargo.lock#"):
        # a third-party package the argument rests on (the grammar): its version + checksum in /repo/Cargo.lock
        lock = open(os.path.join(REPO, "Cargo.lock"), encoding="utf-8").read()
        at = lock.find('name = "' + g.split("#", 1)[1] + '"\n')
        if at < 0:
            return None
        end = lock.find("\n\n", at)
        return sha_of(lock[at:end if end >= 0 else len(lock)])
    parts = g.split("::")
    rel, names = parts[0], parts[1:]
    if not os.path.exists(os.path.join(REPO, rel)):
        return None
    if not names:
        # the whole file (test module cut off): for invariants kept by a module as a whole
        return text_sha(rel, 0, len(analyse(rel)[0]))
    _, _, extents, impls, _ = analyse(rel)
    fn, imp = names[-1], (names[0] if len(names) == 2 else None)
    found = []
    for a, b, n in extents:
        if n != fn:
            continue
        if imp is not None and not any(ia <= a < ib and iname == imp for ia, ib, iname in impls):
            continue
        found.append(text_sha(rel, a, b))
    if not found:
        return None
    return found[0] if len(found) == 1 else sha_of("".join(found))


def sites_of(path, rel):
    src, m, extents, impl_extents, _ = analyse(rel)
    fn_positions = [(x.start(), x.group(1)) for x in re.finditer(r"\bfn\s+(\w+)", m)]

    def enclosing(pos):
        name = "?"
        for p, n in fn_positions:
            if p <= pos:
                name = n
            else:
                break
        imp = ""
        for a, b, n in impl_extents:
            if a <= pos < b:
                imp = n
        return name, imp
    found = []

    def add(pos, kind, text):
        fn, imp = enclosing(pos)
        line = src.count("\n", 0, pos) + 1
        inner = [(a, b) for a, b, _ in extents if a <= pos < b]
        if inner:
            a, b = max(inner)  # innermost = latest start
        else:
            a, b = src.rfind("\n", 0, pos) + 1, (src.find("\n", pos) if src.find("\n", pos) >= 0 else len(src))
        found.append({"file": rel, "fn": fn, "impl": imp, "kind": kind, "text": norm(text), "line": line, "fn_sha": text_sha(rel, a, b)})
    for x in re.finditer(MACROS, m):
        end = balanced_end(m, x.end() - 1, "(", ")")
        add(x.start(), x.group(1) + "!", src[x.start():end])
    for x in re.finditer(r"\.\s*expect\s*\(", m):
        end = balanced_end(m, x.end() - 1, "(", ")")
        st = receiver_start(m, x.start())
        add(x.start(), "expect", src[st:end])
    for x in re.finditer(r"\.\s*unwrap\s*\(\s*\)", m):
        st = receiver_start(m, x.start())
        add(x.start(), "unwrap", src[st:x.end()])
    for x in re.finditer(OWN_UNWRAP, m):
        if re.search(r"\bfn\s+$", m[:x.start() + 1]):
            continue
        st = receiver_start(m, x.start())
        add(x.start(), "own-unwrap", src[st:x.end()] + ")")
    for x in re.finditer(CALLS, m):
        end = balanced_end(m, x.end() - 1, "(", ")")
        st = receiver_start(m, x.start())
        add(x.start(), "call", src[st:end])
    for x in re.finditer(INSERT_REMOVE, m):
        end = balanced_end(m, x.end() - 1, "(", ")")
        args = top_level_args(src[x.end():end - 1])
        margs = top_level_args(m[x.end():end - 1])
        if x.group(1) == "insert" and len(args) != 2:
            continue  # HashSet::insert(x)
        if x.group(1) == "remove" and (len(args) != 1 or args[0].startswith("&") or margs[0].startswith('"')):
            continue  # map.remove(&key) / map.remove("key")
        st = receiver_start(m, x.start())
        add(x.start(), "call", src[st:end])
    for x in re.finditer(r"\.\s*(unwrap_err\s*\(\s*\)|expect_err\s*\()", m):
        end = balanced_end(m, m.find("(", x.start()), "(", ")")
        st = receiver_start(m, x.start())
        add(x.start(), "unwrap", src[st:end])
    if "RefCell" in m:
        for x in re.finditer(r"\.\s*borrow\s*\(\s*\)", m):
            st = receiver_start(m, x.start())
            add(x.start(), "call", src[st:x.end()])
    # integer division / remainder by something that is not a non-zero literal
    for x in re.finditer(r"(?<![/*])(/|%)(=?)(?![/*])", m):
        rest = m[x.end():x.end() + 40].lstrip()
        lit = re.match(r"(\d[\d_]*)(\.\d+)?(?:_?[iuf]\d+|usize|isize)?\b", rest)
        if lit and float(lit.group(1).replace("_", "") + (lit.group(2) or "")) != 0:
            continue
        ls = m.rfind("\n", 0, x.start()) + 1
        le = m.find("\n", x.start())
        le = len(m) if le < 0 else le
        add(x.start(), "div", src[ls:le])
    for x in re.finditer(r"\bas\s+usize\b", m):
        ls = m.rfind("\n", 0, x.start()) + 1
        le = m.find("\n", x.start())
        le = len(m) if le < 0 else le
        add(x.start(), "as-usize", src[ls:le])
    for x in re.finditer(ALLOC, m):
        end = balanced_end(m, x.end() - 1, "(", ")")
        args = top_level_args(m[x.end():end - 1])
        if not args or re.fullmatch(r"\d[\d_]*", args[0]):
            continue
        st = receiver_start(m, x.start())
        st = min(st, x.start())
        # `Vec::with_capacity(..)`: take the path in front of it
        k = x.start()
        while k > 0 and (m[k - 1].isalnum() or m[k - 1] in "_:<>."):
            k -= 1
        add(x.start(), "alloc", src[min(st, k):end])
    # producers of diagnostic byte ranges: the accessor functions and every hand-made `a..b` (outside index brackets,
    # `for … in`, patterns and numeric loops): a range that leaves the text or a character boundary makes the report
    # renderer slice out of bounds
    for x in re.finditer(r"\bfn\s+(byte_range|start_byte|end_byte)\b", m):
        ext = [(a, b) for a, b, _ in extents if a == x.start()]
        if ext:
            add(x.start() + 3, "range-fn", src[x.start():ext[0][1]])
    for x in re.finditer(r"([\w.)\]]+)\s*\.\.=?\s*([\w.(]+)", m):
        lhs, rhs = x.group(1), x.group(2)
        if re.fullmatch(r"[\d_]+", lhs) and re.fullmatch(r"[\d_]+", rhs):
            continue
        ls = m.rfind("\n", 0, x.start()) + 1
        le = m.find("\n", x.start())
        le = len(m) if le < 0 else le
        line = m[ls:le]
        # inside index brackets (kind slice), a `for` header, or a match pattern
        if m[ls:x.start()].count("[") > m[ls:x.start()].count("]") or re.search(r"\bfor\b.*\bin\b", m[ls:x.start()]) or "=>" in m[x.end():le]:
            continue
        if lhs.endswith(".") or rhs.startswith("."):
            continue  # `...`, `..=` leftovers, struct update `..Default::default()`
        add(x.start(), "range", src[ls:le])
    for x in re.finditer(r"\bprocess::exit\s*\(", m):
        end = balanced_end(m, x.end() - 1, "(", ")")
        add(x.start(), "exit", src[x.start():end])
    # index / slice expressions: `[` directly after an identifier, `)`, `]` or `?`
    for x in re.finditer(r"(?<=[\w)\]?])\[", m):
        before = m[max(0, x.start() - 40):x.start()]
        if re.search(r"(?:#!?|\bvec!|\bmatches!|\w!)\s*$", before):
            continue
        # `&'a [T]`, `-> [T; N]` etc. are preceded by a blank and never reach this point
        # array/slice *patterns* after `Some(`/`(`: preceded by `(`, not matched either
        if re.search(r"\b(?:let|in|match|return|if|else|mut|ref|as|=>)\s*$", before):
            continue
        end = balanced_end(m, x.start(), "[", "]")
        inner = m[x.start() + 1:end - 1]
        if not inner.strip():
            continue
        st = receiver_start(m, x.start())
        kind = "slice" if ".." in inner else "index"
        add(x.start(), kind, src[st:end])
    return found


def collect():
    files = []
    for dp, dn, fns in os.walk(os.path.join(REPO, "lib", "src")):
        dn.sort()
        for fn in sorted(fns):
            if fn.endswith(".rs"):
                files.append(os.path.relpath(os.path.join(dp, fn), REPO))
    files += EXTRA_FILES
    raw = []
    for rel in files:
        p = os.path.join(REPO, rel)
        if not os.path.exists(p):
            print(f"panic_sites: {rel} missing", file=sys.stderr)
            return None
        raw += sites_of(p, rel)
    # aggregate identical (file, fn, kind, text) into one site with a multiplicity
    agg = {}
    for s in raw:
        k = (s["file"], s["impl"], s["fn"], s["kind"], s["text"])
        if k in agg:
            agg[k]["n"] += 1
            agg[k]["lines"].append(s["line"])
            if s["fn_sha"] not in agg[k]["fn_sha"].split("+"):
                agg[k]["fn_sha"] += "+" + s["fn_sha"]
        else:
            agg[k] = {"file": s["file"], "impl": s["impl"], "fn": s["fn"], "kind": s["kind"], "text": s["text"], "n": 1,
                      "lines": [s["line"]], "fn_sha": s["fn_sha"]}
    return sorted(agg.values(), key=lambda s: (s["file"], s["lines"][0], s["kind"], s["text"]))


def key(s):
    return json.dumps([s["file"], s["impl"], s["fn"], s["kind"], s["text"], s["n"]])


def render_md(sites):
    out = ["# C07 — every place where qmluic can panic by construction, with the argument why it does or does not fire", "",
           "Rendered by `tools/panic_sites.py --update` from `pins/C07_panic_sites.json` (the verdicts and arguments are written by",
           "hand in the JSON; the site list itself is regenerated from `/repo` on every run of `./check C07` and compared).",
           "Scope: `lib/src/**` without `#[cfg(test)]` modules, `src/main.rs`, `src/reporting.rs`.  Line numbers are informative only",
           "(the comparison ignores them).", "", "Verdict classes:", ""]
    for c, d in CLASSES.items():
        n = sum(s["n"] for s in sites if s.get("class") == c)
        out.append(f"* **{c}** ({n}) — {d}")
    kinds = {}
    for s in sites:
        kinds[s["kind"]] = kinds.get(s["kind"], 0) + s["n"]
    out += ["", "Occurrences by kind: " + ", ".join(f"{k} {v}" for k, v in sorted(kinds.items())) + ".",
            "Implicit kinds (std operations that panic or abort without saying so): index, slice, call (`insert(i,…)`, `remove(i)`,",
            "`swap_remove`, `split_at`, `drain`, `borrow_mut`, …), div (`/`, `%` by a non-literal), as-usize, alloc (`with_capacity`,",
            "`resize_with`, … with a computed size), exit (`process::exit`).  Every site also pins a hash of its enclosing function;",
            "sites whose argument rests on code elsewhere name that code (⟨guard pinned: …⟩) and pin its hash too: when a guard",
            "changes, the comparison fails until the argument was re-read.", ""]
    out += ["", "Panics that no syntactic scan can list (named in the evidence as outside the model):", "",
            "* **stack exhaustion** — `typedexpr::walk_expr`/`walk_stmt`, `ObjectTree::populate_node_rec`, the uigen object walk and",
            "  tree-sitter's own recursive routines recurse on the nesting depth of the input: finding **F11** (abort with SIGABRT,",
            "  not an unwinding panic); the c07 stream bounds the depth in-process and tests deep inputs through the CLI binary only.",
            "* **arithmetic overflow of `+ - *`** — `overflow-checks` is off in the release profile (release semantics wrap); the harness",
            "  enables it for the library, so `i + 1`, `*i - 1`, `start + count` style arithmetic is exercised with checks on.",
            "  Constant folding itself uses `checked_*` operations (tir/ceval.rs).  Division, `as usize` and allocation sizes ARE",
            "  listed below (kinds div, as-usize, alloc).",
            "* **third-party code** — tree-sitter, quick-xml, codespan-reporting, serde: exercised, not reviewed.", ""]
    cur = None
    for s in sites:
        if s["file"] != cur:
            cur = s["file"]
            out += ["", f"## {cur}", "", "| line | fn | kind | site | verdict | argument |", "|---|---|---|---|---|---|"]
        fn = (s["impl"] + "::" if s["impl"] else "") + s["fn"]
        text = s["text"].replace("|", "\\|")
        why = s.get("why", "").replace("|", "\\|")
        if s.get("guards"):
            why += " ⟨guard pinned: " + ", ".join("`" + g.replace("lib/src/", "") + "`" for g in s["guards"]) + "⟩"
        mult = f" ×{s['n']}" if s["n"] > 1 else ""
        out.append(f"| {','.join(map(str, s['lines']))} | `{fn}` | {s['kind']}{mult} | `{text}` | **{s.get('class', 'UNREVIEWED')}** | {why} |")
    out.append("")
    return "\n".join(out)


def guard_state(site):
    """{guard: sha or None} of the guards a pinned site names"""
    return {g: resolve_guard(g) for g in site.get("guards", [])}


def main():
    sites = collect()
    if sites is None:
        return 2
    if "--list" in sys.argv:
        for s in sites:
            print(f"{s['file']}:{s['lines'][0]}\t{s['impl']}::{s['fn']}\t{s['kind']}\t{s['text']}\t×{s['n']}")
        return 0
    pinned = json.load(open(PIN)) if os.path.exists(PIN) else []
    old = {key(s): s for s in pinned}
    # a verdict survives a change of multiplicity only through a fresh review
    if "--update" in sys.argv:
        notes = {}
        npath = os.environ.get("QV_PANIC_NOTES")
        if npath:
            for e in json.load(open(npath)):
                notes[(e["file"], e["fn"], e["kind"], e["text"])] = e
        reread = []
        for s in sites:
            o = old.get(key(s))
            nn = notes.get((s["file"], s["fn"], s["kind"], s["text"]))
            if nn:
                s["class"], s["why"] = nn["class"], nn["why"]
                if nn.get("guards"):
                    s["guards"] = nn["guards"]
            elif o and o.get("class", "UNREVIEWED") != "UNREVIEWED":
                s["class"], s["why"] = o["class"], o.get("why", "")
            else:
                s["class"], s["why"] = "UNREVIEWED", ""
            if o and o.get("guards") and "guards" not in s:
                s["guards"] = o["guards"]
            if "guards" in s:
                s["guard_shas"] = guard_state(s)
                missing = [g for g, h in s["guard_shas"].items() if h is None]
                if missing:
                    print(f"panic_sites: guard function(s) not found: {missing} (site {s['file']}::{s['fn']} {s['text']})")
                    return 2
            if o and (o.get("fn_sha") not in (None, s["fn_sha"]) or (o.get("guard_shas") or {}) != (s.get("guard_shas") or {}) and o.get("guard_shas")):
                reread.append(s)
        os.makedirs(os.path.dirname(PIN), exist_ok=True)
        json.dump(sites, open(PIN, "w"), indent=1, ensure_ascii=False)
        open(MD, "w", encoding="utf-8").write(render_md(sites))
        unrev = sum(1 for s in sites if s["class"] == "UNREVIEWED")
        print(f"panic_sites: pinned {len(sites)} sites ({sum(s['n'] for s in sites)} occurrences), {unrev} unreviewed, "
              f"{sum(1 for s in sites if s.get('guards'))} with guards elsewhere")
        for s in reread:
            print(f"panic_sites: RE-READ the argument of {s['file']}:{s['lines'][0]} {s['impl']}::{s['fn']} `{s['text']}` — its function or a guard changed")
        return 0
    a = {key(s) for s in sites}
    b = set(old)
    rc = 0
    if a != b:
        for k in sorted(a - b):
            print("panic_sites: NEW site      ", k, file=sys.stderr)
        for k in sorted(b - a):
            print("panic_sites: MISSING site  ", k, file=sys.stderr)
        print(f"panic_sites: the list of panic sites changed ({len(a - b)} new, {len(b - a)} gone); review the new sites and "
              f"re-pin with tools/panic_sites.py --update")
        rc = 2
    # guards: the enclosing function of every site and the guard functions named by the argument
    moved = 0
    for s in sites:
        o = old.get(key(s))
        if not o:
            continue
        if o.get("fn_sha") != s["fn_sha"]:
            moved += 1
            print(f"panic_sites: GUARD-CHANGED {s['file']}:{s['lines'][0]} {s['impl']}::{s['fn']} `{s['text']}`: the enclosing function "
                  f"changed since the argument was reviewed ({o.get('class')}: {o.get('why', '')[:120]})", file=sys.stderr)
        for g, h in guard_state(o).items():
            if h != (o.get("guard_shas") or {}).get(g):
                moved += 1
                print(f"panic_sites: GUARD-CHANGED {s['file']}:{s['lines'][0]} {s['impl']}::{s['fn']} `{s['text']}`: guard {g} "
                      f"{'no longer exists' if h is None else 'changed'} ({o.get('class')}: {o.get('why', '')[:120]})", file=sys.stderr)
    if moved:
        print(f"panic_sites: {moved} guard(s) of pinned panic sites changed: the arguments must be re-read (then re-pin with --update)")
        rc = 2
    unrev = [s for s in pinned if s.get("class", "UNREVIEWED") == "UNREVIEWED"]
    if unrev:
        print(f"panic_sites: {len(unrev)} pinned site(s) carry no argument (class UNREVIEWED)")
        rc = 2
    if rc == 0:
        hist = {}
        for s in pinned:
            hist[s["class"]] = hist.get(s["class"], 0) + s["n"]
        implicit = sum(s["n"] for s in pinned if s["kind"] in IMPLICIT_KINDS)
        print(f"panic_sites: {len(sites)} sites ({sum(s['n'] for s in sites)} occurrences; {implicit} implicit: index/slice/call/div/as-usize/"
              f"alloc/exit/range), as pinned: " + ", ".join(f"{k}={v}" for k, v in sorted(hist.items()))
              + f"; enclosing functions and {sum(len(s.get('guards', [])) for s in pinned)} guard references unchanged")
    return rc


IMPLICIT_KINDS = {"index", "slice", "call", "div", "as-usize", "alloc", "exit", "range", "range-fn"}


if __name__ == "__main__":
    sys.exit(main())
