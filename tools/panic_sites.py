#!/usr/bin/env python3
"""C07: lists every place in qmluic's library (lib/src, test modules excluded) and in the CLI's generate-ui/report path
(src/main.rs, src/reporting.rs) where the code can panic by construction — `panic!/unreachable!/unimplemented!/todo!`,
`assert*!`, `.expect(..)`, `.unwrap()`, the project's own `unwrap_*()` helpers, index `x[i]` and slice `x[a..b]`
expressions, and the panicking container calls `swap_remove/remove/split_at/insert(i, ..)` on vectors/strings — and
compares the list with the pinned, *reviewed* one (pins/C07_panic_sites.json).

A site = (file, enclosing fn, kind, normalised text) with a multiplicity.  Every pinned site carries a verdict
(`class`) and a one-line argument (`why`) written by a reviewer; `pins/C07_panic_sites.md` is rendered from the JSON.

Usage: panic_sites.py [--update] [--list]
  exit 0 = the list is unchanged and every site is reviewed,
  exit 2 = the list changed (a new panic site is a broken obligation of C07) or a site is unreviewed.
`--update` re-pins: verdicts of sites that still exist are kept, new sites get class UNREVIEWED (which still fails
the comparison until somebody writes the argument), and the .md is re-rendered."""
import json, os, re, sys

REPO = os.environ.get("QV_REPO", "/repo")
ROOT = os.path.dirname(os.path.dirname(os.path.abspath(__file__)))
PIN = os.path.join(ROOT, "pins", "C07_panic_sites.json")
MD = os.path.join(ROOT, "pins", "C07_panic_sites.md")
EXTRA_FILES = ["src/main.rs", "src/reporting.rs"]

CLASSES = {
    "guarded": "cannot fire: the guard is established locally or by a documented invariant of the caller",
    "type-guarded": "cannot fire given the value-shape contract (QV.Props.C07.unwrap_never_fails): the type check that precedes it fixes the shape of the evaluated value",
    "grammar": "cannot fire as long as tree-sitter-qmljs produces the node shapes of its grammar (tested by the c07 stream, not proved)",
    "startup": "outside the quantifier of C07 (type-map construction / metatypes loading / CLI option handling / preview), or test-only helper",
    "io": "propagates an I/O failure of the output writer (not a property of the input text)",
    "REACHABLE": "fires on some input: finding",
    "UNREVIEWED": "new site, no argument yet",
}


def mask(src):
    """Returns src with the *contents* of comments, string and char literals replaced by blanks (same length)."""
    out = list(src)
    i, n = 0, len(src)

    def blank(a, b):
        for k in range(a, b):
            if out[k] != "\n":
                out[k] = " "
    while i < n:
        c = src[i]
        if src.startswith("//", i):
            j = src.find("\n", i)
            j = n if j < 0 else j
            blank(i, j)
            i = j
        elif src.startswith("/*", i):
            depth, j = 1, i + 2
            while j < n and depth:
                if src.startswith("/*", j):
                    depth += 1
                    j += 2
                elif src.startswith("*/", j):
                    depth -= 1
                    j += 2
                else:
                    j += 1
            blank(i, j)
            i = j
        elif c == "r" and re.match(r'r#*"', src[i:i + 12]) and (i == 0 or not (src[i - 1].isalnum() or src[i - 1] == "_")):
            m = re.match(r'r(#*)"', src[i:i + 12])
            close = '"' + m.group(1)
            j = src.find(close, i + len(m.group(0)))
            j = n if j < 0 else j + len(close)
            blank(i + len(m.group(0)), j - len(close))
            i = j
        elif c == '"':
            j = i + 1
            while j < n and src[j] != '"':
                j += 2 if src[j] == "\\" else 1
            blank(i + 1, j)
            i = j + 1
        elif c == "'":
            # char literal or lifetime
            m = re.match(r"'(?:\\(?:x[0-9a-fA-F]{2}|u\{[0-9a-fA-F_]+\}|.)|[^'\\])'", src[i:i + 14])
            if m:
                blank(i + 1, i + len(m.group(0)) - 1)
                i += len(m.group(0))
            else:
                i += 1
        else:
            i += 1
    return "".join(out)


def balanced_end(masked, start, open_ch, close_ch):
    """index just after the bracket that closes the one at `start`"""
    depth = 0
    for k in range(start, min(len(masked), start + 4000)):
        if masked[k] == open_ch:
            depth += 1
        elif masked[k] == close_ch:
            depth -= 1
            if depth == 0:
                return k + 1
    return min(len(masked), start + 200)


def balanced_end_long(masked, start):
    depth = 0
    for k in range(start, len(masked)):
        if masked[k] == "{":
            depth += 1
        elif masked[k] == "}":
            depth -= 1
            if depth == 0:
                return k + 1
    return len(masked)


def norm(s):
    s = re.sub(r"\s+", " ", s).strip()
    s = re.sub(r"\s*([()\[\],.])\s*", r"\1", s)
    return s[:140]


def receiver_start(masked, pos):
    """Walks back from `pos` (start of `.method` / `[`) over a postfix expression: identifiers, paths, calls,
    indexes, `?`, field accesses."""
    k = pos
    while k > 0:
        c = masked[k - 1]
        if c.isalnum() or c in "_?.:":
            k -= 1
        elif c in ")]":
            open_ch = "(" if c == ")" else "["
            depth, j = 0, k - 1
            while j >= 0:
                if masked[j] == c:
                    depth += 1
                elif masked[j] == open_ch:
                    depth -= 1
                    if depth == 0:
                        break
                j -= 1
            if j < 0:
                break
            k = j
        elif c in " \n" and re.search(r"\n\s*$", masked[:k]) and masked[k:k + 1] == ".":
            # method chain continued on the next line
            k = len(masked[:k].rstrip())
        else:
            break
        if pos - k > 160:
            break
    return k


MACROS = r"\b(panic|unreachable|unimplemented|todo|assert|assert_eq|assert_ne|debug_assert|debug_assert_eq|debug_assert_ne)!\s*\("
OWN_UNWRAP = r"\.\s*(unwrap_(?!or\b|or_else\b|or_default\b|unchecked\b)\w+)\s*\("
CALLS = r"\.\s*(swap_remove|split_at|split_at_mut|split_off|drain)\s*\("
# Vec::remove(i) / Vec::insert(i, x): recognised by an index-like first argument (HashMap::insert/remove never panic)
VEC_REMOVE = r"\.\s*(?:remove\s*\(\s*(?:\d+|i|j|n|p|pos|index|idx|line)\s*\)|insert\s*\(\s*(?:\d+|(?:\w+\.)*(?:i|j|n|p|pos|position|index|idx|line))\s*,)"


def sites_of(path, rel):
    src = open(path, encoding="utf-8").read()
    cut = src.find("#[cfg(test)]")
    if cut >= 0:
        src = src[:cut]
    m = mask(src)
    fn_positions = [(x.start(), x.group(1)) for x in re.finditer(r"\bfn\s+(\w+)", m)]
    impl_extents = []
    for x in re.finditer(r"^impl(?:<[^>{]*>)?\s+(?:[\w:<>' ,]+\s+for\s+)?&?(?:'\w+\s+)?(\w+)", m, flags=re.M):
        brace = m.find("{", x.end())
        if brace >= 0:
            impl_extents.append((x.start(), balanced_end_long(m, brace), x.group(1)))

    def enclosing(pos):
        name = "?"
        for p, n in fn_positions:
            if p <= pos:
                name = n
            else:
                break
        imp = ""
        for a, b, n in impl_extents:
            if a <= pos < b:
                imp = n
        return name, imp
    found = []

    def add(pos, kind, text):
        fn, imp = enclosing(pos)
        line = src.count("\n", 0, pos) + 1
        found.append({"file": rel, "fn": fn, "impl": imp, "kind": kind, "text": norm(text), "line": line})
    for x in re.finditer(MACROS, m):
        end = balanced_end(m, x.end() - 1, "(", ")")
        add(x.start(), x.group(1) + "!", src[x.start():end])
    for x in re.finditer(r"\.\s*expect\s*\(", m):
        end = balanced_end(m, x.end() - 1, "(", ")")
        st = receiver_start(m, x.start())
        add(x.start(), "expect", src[st:end])
    for x in re.finditer(r"\.\s*unwrap\s*\(\s*\)", m):
        st = receiver_start(m, x.start())
        add(x.start(), "unwrap", src[st:x.end()])
    for x in re.finditer(OWN_UNWRAP, m):
        if re.search(r"\bfn\s+$", m[:x.start() + 1]):
            continue
        st = receiver_start(m, x.start())
        add(x.start(), "own-unwrap", src[st:x.end()] + ")")
    for x in re.finditer(CALLS, m):
        end = balanced_end(m, x.end() - 1, "(", ")")
        st = receiver_start(m, x.start())
        add(x.start(), "call", src[st:end])
    for x in re.finditer(VEC_REMOVE, m):
        end = balanced_end(m, m.find("(", x.start()), "(", ")")
        st = receiver_start(m, x.start())
        add(x.start(), "call", src[st:end])
    # index / slice expressions: `[` directly after an identifier, `)`, `]` or `?`
    for x in re.finditer(r"(?<=[\w)\]?])\[", m):
        before = m[max(0, x.start() - 40):x.start()]
        if re.search(r"(?:#!?|\bvec!|\bmatches!|\w!)\s*$", before):
            continue
        # `&'a [T]`, `-> [T; N]` etc. are preceded by a blank and never reach this point
        # array/slice *patterns* after `Some(`/`(`: preceded by `(`, not matched either
        if re.search(r"\b(?:let|in|match|return|if|else|mut|ref|as|=>)\s*$", before):
            continue
        end = balanced_end(m, x.start(), "[", "]")
        inner = m[x.start() + 1:end - 1]
        if not inner.strip():
            continue
        st = receiver_start(m, x.start())
        kind = "slice" if ".." in inner else "index"
        add(x.start(), kind, src[st:end])
    return found


def collect():
    files = []
    for dp, dn, fns in os.walk(os.path.join(REPO, "lib", "src")):
        dn.sort()
        for fn in sorted(fns):
            if fn.endswith(".rs"):
                files.append(os.path.relpath(os.path.join(dp, fn), REPO))
    files += EXTRA_FILES
    raw = []
    for rel in files:
        p = os.path.join(REPO, rel)
        if not os.path.exists(p):
            print(f"panic_sites: {rel} missing", file=sys.stderr)
            return None
        raw += sites_of(p, rel)
    # aggregate identical (file, fn, kind, text) into one site with a multiplicity
    agg = {}
    for s in raw:
        k = (s["file"], s["impl"], s["fn"], s["kind"], s["text"])
        if k in agg:
            agg[k]["n"] += 1
            agg[k]["lines"].append(s["line"])
        else:
            agg[k] = {"file": s["file"], "impl": s["impl"], "fn": s["fn"], "kind": s["kind"], "text": s["text"], "n": 1,
                      "lines": [s["line"]]}
    return sorted(agg.values(), key=lambda s: (s["file"], s["lines"][0], s["kind"], s["text"]))


def key(s):
    return json.dumps([s["file"], s["impl"], s["fn"], s["kind"], s["text"], s["n"]])


def render_md(sites):
    out = ["# C07 — every place where qmluic can panic by construction, with the argument why it does or does not fire", "",
           "Rendered by `tools/panic_sites.py --update` from `pins/C07_panic_sites.json` (the verdicts and arguments are written by",
           "hand in the JSON; the site list itself is regenerated from `/repo` on every run of `./check C07` and compared).",
           "Scope: `lib/src/**` without `#[cfg(test)]` modules, `src/main.rs`, `src/reporting.rs`.  Line numbers are informative only",
           "(the comparison ignores them).", "", "Verdict classes:", ""]
    for c, d in CLASSES.items():
        n = sum(s["n"] for s in sites if s.get("class") == c)
        out.append(f"* **{c}** ({n}) — {d}")
    out += ["", "Panics that no syntactic scan can list (named in the evidence as outside the model):", "",
            "* **stack exhaustion** — `typedexpr::walk_expr`/`walk_stmt`, `ObjectTree::populate_node_rec`, the uigen object walk and",
            "  tree-sitter's own recursive routines recurse on the nesting depth of the input: finding **F11** (abort with SIGABRT,",
            "  not an unwinding panic); the c07 stream bounds the depth in-process and tests deep inputs through the CLI binary only.",
            "* **arithmetic overflow** — `overflow-checks` is off in the release profile; the harness enables it for the library, so",
            "  `i + 1`, `*i - 1`, `start + count`, `column as usize` style arithmetic is exercised with checks on.  Constant folding",
            "  itself uses `checked_*` operations (tir/ceval.rs).",
            "* **allocation failure / capacity overflow** — `Vec::with_capacity(depth + 1)`, `String::with_capacity(node.byte_range().len())`,",
            "  `array.resize_with(index + 1, ..)` (index ≤ 65535 after the layout range check) are bounded by the input size.",
            "* **third-party code** — tree-sitter, quick-xml, codespan-reporting, serde: exercised, not reviewed.", ""]
    cur = None
    for s in sites:
        if s["file"] != cur:
            cur = s["file"]
            out += ["", f"## {cur}", "", "| line | fn | kind | site | verdict | argument |", "|---|---|---|---|---|---|"]
        fn = (s["impl"] + "::" if s["impl"] else "") + s["fn"]
        text = s["text"].replace("|", "\\|")
        why = s.get("why", "").replace("|", "\\|")
        mult = f" ×{s['n']}" if s["n"] > 1 else ""
        out.append(f"| {','.join(map(str, s['lines']))} | `{fn}` | {s['kind']}{mult} | `{text}` | **{s.get('class', 'UNREVIEWED')}** | {why} |")
    out.append("")
    return "\n".join(out)


def main():
    sites = collect()
    if sites is None:
        return 2
    if "--list" in sys.argv:
        for s in sites:
            print(f"{s['file']}:{s['lines'][0]}\t{s['impl']}::{s['fn']}\t{s['kind']}\t{s['text']}\t×{s['n']}")
        return 0
    pinned = json.load(open(PIN)) if os.path.exists(PIN) else []
    old = {key(s): s for s in pinned}
    # a verdict survives a change of multiplicity only through a fresh review
    if "--update" in sys.argv:
        notes = {}
        npath = os.environ.get("QV_PANIC_NOTES")
        if npath:
            for e in json.load(open(npath)):
                notes[(e["file"], e["fn"], e["kind"], e["text"])] = e
        for s in sites:
            o = old.get(key(s))
            nn = notes.get((s["file"], s["fn"], s["kind"], s["text"]))
            if nn:
                s["class"], s["why"] = nn["class"], nn["why"]
            elif o and o.get("class", "UNREVIEWED") != "UNREVIEWED":
                s["class"], s["why"] = o["class"], o.get("why", "")
            else:
                s["class"], s["why"] = "UNREVIEWED", ""
        os.makedirs(os.path.dirname(PIN), exist_ok=True)
        json.dump(sites, open(PIN, "w"), indent=1, ensure_ascii=False)
        open(MD, "w", encoding="utf-8").write(render_md(sites))
        unrev = sum(1 for s in sites if s["class"] == "UNREVIEWED")
        print(f"panic_sites: pinned {len(sites)} sites ({sum(s['n'] for s in sites)} occurrences), {unrev} unreviewed")
        return 0
    a = {key(s) for s in sites}
    b = set(old)
    rc = 0
    if a != b:
        for k in sorted(a - b):
            print("panic_sites: NEW site      ", k, file=sys.stderr)
        for k in sorted(b - a):
            print("panic_sites: MISSING site  ", k, file=sys.stderr)
        print(f"panic_sites: the list of panic sites changed ({len(a - b)} new, {len(b - a)} gone); review the new sites and "
              f"re-pin with tools/panic_sites.py --update")
        rc = 2
    unrev = [s for s in pinned if s.get("class", "UNREVIEWED") == "UNREVIEWED"]
    if unrev:
        print(f"panic_sites: {len(unrev)} pinned site(s) carry no argument (class UNREVIEWED)")
        rc = 2
    if rc == 0:
        hist = {}
        for s in pinned:
            hist[s["class"]] = hist.get(s["class"], 0) + s["n"]
        print(f"panic_sites: {len(sites)} sites ({sum(s['n'] for s in sites)} occurrences), as pinned: " +
              ", ".join(f"{k}={v}" for k, v in sorted(hist.items())))
    return rc


if __name__ == "__main__":
    sys.exit(main())
