#!/usr/bin/env python3
"""Records the verdict of the FIRST run of a seeded change (seeded/<ID>/<k>/history.json), if none is recorded yet."""
import json, os, sys
ROOT = os.path.dirname(os.path.dirname(os.path.abspath(__file__)))
S = os.path.join(ROOT, "seeded")
n = 0
for pid in sorted(os.listdir(S)):
    d = os.path.join(S, pid)
    if not os.path.isdir(d) or pid.startswith("_"):
        continue
    for k in sorted(os.listdir(d)):
        dd = os.path.join(d, k)
        r, h = os.path.join(dd, "result.json"), os.path.join(dd, "history.json")
        if not os.path.isfile(r) or os.path.isfile(h):
            continue
        res = json.load(open(r))
        own = res.get("checks", {}).get(pid, {})
        if own.get("rc") == 1 and any("no-failing-input-found" not in l for l in own.get("violations", [])):
            v = "caught, failing input"
        elif own.get("rc") == 1:
            v = "caught, source pin only"
        elif own:
            v = "MISSED"
        else:
            continue
        json.dump({"first_run": v}, open(h, "w"))
        n += 1
print(n, "recorded")
