#!/usr/bin/env python3
"""Freshness pins of the Rust functions the hand-written Lean models mirror.

The Lean model files name the Rust functions they mirror in back-ticks (`eval_shift_expression`, `parse_number_str`,
`LayoutIndexCounter::next`, …) and the source files in their headers (`lib/src/tir/ceval.rs`).  For a property this
tool harvests those names from the Model files its theorems import (transitively), finds the functions in /repo and
pins a hash of their text with comments and white space removed.  When a pinned function changes, the model may no
longer mirror the code: ./check reports the changed functions, widens the search for a failing input to the thorough
tier, and — if no failing input is found — reports the property as no longer shown (no-failing-input-found).  Comment
and formatting changes do not move a pin.

usage: source_pins.py ID            check (exit 1 and a JSON list of changes when a pin moved)
       source_pins.py --update [ID…]  recompute pins/source/<ID>.json (done by hand after the model was re-validated)
       source_pins.py --list ID       show what is pinned
"""
import hashlib, json, os, re, sys

ROOT = os.path.dirname(os.path.dirname(os.path.abspath(__file__)))
REPO = "/repo"
LEAN = os.path.join(ROOT, "lean")
PINS = os.path.join(ROOT, "pins", "source")

RS_FILES = None


def rs_files():
    global RS_FILES
    if RS_FILES is None:
        RS_FILES = []
        for base in ("lib/src", "src"):
            for d, _, fs in os.walk(os.path.join(REPO, base)):
                for f in fs:
                    if f.endswith(".rs"):
                        RS_FILES.append(os.path.relpath(os.path.join(d, f), REPO))
        RS_FILES.sort()
    return RS_FILES


def lean_path(mod):
    return os.path.join(LEAN, *mod.split(".")) + ".lean"


def model_files(pid):
    """Model files (QV.Model.*, QV.Gen excluded) in the import closure of QV.Props.<pid>."""
    seen, todo, models = set(), [f"QV.Props.{pid}"], []
    while todo:
        m = todo.pop()
        if m in seen:
            continue
        seen.add(m)
        p = lean_path(m)
        if not os.path.isfile(p):
            continue
        if m.startswith("QV.Model."):
            models.append(p)
        for line in open(p, encoding="utf-8"):
            mm = re.match(r"\s*import\s+(QV\.[\w.]+)", line)
            if mm:
                todo.append(mm.group(1))
            elif line.strip() and not line.startswith(("import", "/-", " ", "-", "*")) and "import" not in line:
                pass
    return sorted(models)


def strip_noise(text):
    """remove // comments (outside strings), block comments and all white space"""
    out, i, n = [], 0, len(text)
    while i < n:
        c = text[i]
        if c == '"':
            j = i + 1
            while j < n and text[j] != '"':
                j += 2 if text[j] == "\\" else 1
            out.append(text[i:j + 1])
            i = j + 1
        elif text.startswith("//", i):
            j = text.find("\n", i)
            i = n if j < 0 else j
        elif text.startswith("/*", i):
            j = text.find("*/", i)
            i = n if j < 0 else j + 2
        elif c.isspace():
            i += 1
        else:
            out.append(c)
            i += 1
    return "".join(out)


def functions_in(path):
    """[(name, text)] for every `fn name` in the file: from `fn` to the end of its body (or `;`)."""
    src = open(os.path.join(REPO, path), encoding="utf-8").read()
    res = []
    for m in re.finditer(r"\bfn\s+([A-Za-z_][A-Za-z0-9_]*)", src):
        i, depth, n = m.end(), 0, len(src)
        started = False
        while i < n:
            c = src[i]
            if c == '"':
                j = i + 1
                while j < n and src[j] != '"':
                    j += 2 if src[j] == "\\" else 1
                i = j + 1
                continue
            if src.startswith("//", i):
                j = src.find("\n", i)
                i = n if j < 0 else j
                continue
            if c == "'" and i + 2 < n and (src[i + 2] == "'" or (src[i + 1] == "\\" and "'" in src[i + 2:i + 6])):
                j = src.find("'", i + 2 if src[i + 1] != "\\" else i + 3)
                i = j + 1
                continue
            if c == "{":
                depth += 1
                started = True
            elif c == "}":
                depth -= 1
                if started and depth == 0:
                    i += 1
                    break
            elif c == ";" and not started:
                i += 1
                break
            i += 1
        res.append((m.group(1), src[m.start():i]))
    return res


def norm_impl(h):
    """`impl<'a, T> From<Color> for Gadget<'a> where …` -> `impl From<Color> for Gadget`"""
    h = re.sub(r"\bwhere\b.*", "", h, flags=re.S)
    h = re.sub(r"^impl\s*<[^>]*>", "impl", h.strip())
    h = re.sub(r"'\w+\s*,?\s*", "", h)
    h = re.sub(r"<\s*>", "", h)
    return " ".join(h.split())


def impls_in(path):
    """[(normalised header, text)] for every impl block of the file"""
    src = open(os.path.join(REPO, path), encoding="utf-8").read()
    res = []
    for m in re.finditer(r"^impl\b[^{;]*\{", src, flags=re.M):
        i, depth, n = m.end() - 1, 0, len(src)
        while i < n:
            c = src[i]
            if c == '"':
                j = i + 1
                while j < n and src[j] != '"':
                    j += 2 if src[j] == "\\" else 1
                i = j + 1
                continue
            if src.startswith("//", i):
                j = src.find("\n", i)
                i = n if j < 0 else j
                continue
            if c == "{":
                depth += 1
            elif c == "}":
                depth -= 1
                if depth == 0:
                    i += 1
                    break
            i += 1
        res.append((norm_impl(src[m.start():m.end() - 1]), src[m.start():i]))
    return res


def harvest_impls(pid):
    """{(file, header)}: `impl X for Y` blocks cited in back-ticks by the property's model files"""
    wanted = set()
    all_rs = rs_files()
    cache = {}
    for mf in model_files(pid):
        text = open(mf, encoding="utf-8").read()
        cited = {norm_impl(mm.group(1)) for mm in re.finditer(r"`(impl\b[^`]*)`", text)}
        if not cited:
            continue
        for f in all_rs:
            cache.setdefault(f, impls_in(f))
            for (h, _) in cache[f]:
                if h in cited:
                    wanted.add((f, h))
    return wanted


def harvest(pid):
    """{(file, fn)} the property's model files cite."""
    wanted = set()
    all_rs = rs_files()
    for mf in model_files(pid):
        text = open(mf, encoding="utf-8").read()
        hinted = set()
        for mm in re.finditer(r"([\w/]+\.rs)\b", text):
            h = mm.group(1)
            for f in all_rs:
                if f.endswith(h) or os.path.basename(f) == os.path.basename(h):
                    hinted.add(f)
        # `{a,b,c}.rs` groups in headers: uigen/{mod,objcode}.rs
        for mm in re.finditer(r"([\w/]*)\{([\w,\s]+)\}\.rs", text):
            for b in mm.group(2).split(","):
                h = mm.group(1) + b.strip() + ".rs"
                for f in all_rs:
                    if f.endswith(h):
                        hinted.add(f)
        names = set()
        for mm in re.finditer(r"`([A-Za-z_][\w:<>]*)(?:\([^`]*\))?`", text):
            n = mm.group(1).split("::")[-1]
            if re.fullmatch(r"[a-z_][a-z0-9_]*", n) and len(n) > 2:
                names.add(n)
        if not names:
            continue
        index = {}
        for f in all_rs:
            for (n, _) in functions_in(f):
                index.setdefault(n, set()).add(f)
        for n in names:
            files = index.get(n, set())
            if not files:
                continue
            inh = files & hinted
            if inh:
                for f in inh:
                    wanted.add((f, n))
            elif len(files) == 1 and not hinted:
                wanted.add((next(iter(files)), n))
    return wanted


def compute(pid):
    pins = []
    by_file = {}
    for (f, n) in sorted(harvest(pid)):
        by_file.setdefault(f, functions_in(f))
        k = 0
        for (name, text) in by_file[f]:
            if name == n:
                pins.append({"file": f, "fn": n, "index": k,
                             "sha": hashlib.sha256(strip_noise(text).encode()).hexdigest()[:16]})
                k += 1
    for (f, h) in sorted(harvest_impls(pid)):
        k = 0
        for (hh, text) in impls_in(f):
            if hh == h:
                pins.append({"file": f, "fn": h, "index": k,
                             "sha": hashlib.sha256(strip_noise(text).encode()).hexdigest()[:16]})
                k += 1
    return pins


def main():
    args = sys.argv[1:]
    if not args:
        print(__doc__)
        return 2
    if args[0] == "--update":
        sys.path.insert(0, os.path.join(ROOT, "tools"))
        import qvconfig
        ids = args[1:] or sorted(qvconfig.PROPS)
        os.makedirs(PINS, exist_ok=True)
        for pid in ids:
            pins = compute(pid)
            json.dump({"property": pid, "functions": pins}, open(os.path.join(PINS, f"{pid}.json"), "w"), indent=1)
            print(f"{pid}: {len(pins)} functions pinned in {len({p['file'] for p in pins})} files")
        return 0
    if args[0] == "--list":
        for p in compute(args[1]):
            print(p["file"], p["fn"], p["index"], p["sha"])
        return 0
    pid = args[0]
    path = os.path.join(PINS, f"{pid}.json")
    if not os.path.isfile(path):
        print(json.dumps({"pinned": 0, "changed": []}))
        return 0
    old = {(p["file"], p["fn"], p["index"]): p["sha"] for p in json.load(open(path))["functions"]}
    new = {(p["file"], p["fn"], p["index"]): p["sha"] for p in compute(pid)}
    changed = []
    for k, sha in old.items():
        if k not in new:
            changed.append({"file": k[0], "fn": k[1], "what": "removed or renamed"})
        elif new[k] != sha:
            changed.append({"file": k[0], "fn": k[1], "what": "body changed"})
    for k in new:
        if k not in old:
            changed.append({"file": k[0], "fn": k[1], "what": "new definition of a modelled name"})
    print(json.dumps({"pinned": len(old), "changed": changed}))
    return 1 if changed else 0


if __name__ == "__main__":
    sys.exit(main())
