#!/usr/bin/env python3
"""Regenerate lean/QV/Gen/ColorTable.lean from /repo/lib/src/color.rs (C19).

Extracts every `("name", ColorRgb8::new(r, g, b))` row inside the `SVG_NAMED_COLORS` initialiser,
in source order.  Exits 2 (obligation broken) if the anchor cannot be found."""
import re, sys, os

def main():
    repo = os.environ.get("QV_REPO", "/repo")
    out = sys.argv[1] if len(sys.argv) > 1 else os.path.join(os.path.dirname(__file__), "..", "lean", "QV", "Gen", "ColorTable.lean")
    src = open(os.path.join(repo, "lib/src/color.rs"), encoding="utf-8").read()
    m = re.search(r"static\s+SVG_NAMED_COLORS\b.*?HashMap::from\(\[(.*?)\]\)\s*\}\);", src, re.S)
    if not m:
        print("gen_color_table: anchor SVG_NAMED_COLORS / HashMap::from([...]) not found", file=sys.stderr)
        return 2
    body = m.group(1)
    rows = re.findall(r'\(\s*"((?:[^"\\]|\\.)*)"\s*,\s*ColorRgb8::new\(\s*(0x[0-9a-fA-F]+|\d+)\s*,\s*(0x[0-9a-fA-F]+|\d+)\s*,\s*(0x[0-9a-fA-F]+|\d+)\s*\)\s*\)', body)
    # every top-level tuple must have been understood
    n_tuples = len(re.findall(r'\(\s*"', body))
    if not rows or n_tuples != len(rows):
        print(f"gen_color_table: {n_tuples} tuples but {len(rows)} parsed rows", file=sys.stderr)
        return 2
    def chars(s):
        if "\\" in s:
            raise SystemExit("gen_color_table: escape in keyword not supported")
        return "[" + ",".join("'%s'" % c for c in s) + "]"
    lines = ["-- GENERATED on every run by tools/gen_color_table.py from /repo/lib/src/color.rs — do not edit.",
             "namespace QV.Gen", "",
             "def colorTable : List (List Char × Nat × Nat × Nat) := ["]
    body_lines = ["  (%s, %d, %d, %d)" % (chars(n), int(r, 0), int(g, 0), int(b, 0)) for n, r, g, b in rows]
    lines.append(",\n".join(body_lines))
    lines += ["]", "", "end QV.Gen", ""]
    text = "\n".join(lines)
    old = open(out).read() if os.path.exists(out) else None
    if old != text:
        open(out, "w").write(text)
    print(f"gen_color_table: {len(rows)} rows")
    return 0

if __name__ == "__main__":
    sys.exit(main())
