#!/usr/bin/env python3
"""gen_mock_decls.py — C++ class declarations from Qt metatypes JSON (C16).

    gen_mock_decls.py [-o OUT.h] METATYPES.json...

Input: the files qmluic itself reads (`/repo/contrib/metatypes/qt5*_metatypes.json`: a list of compilation units
`{"classes": [...]}`), or the dump the harness writes *after* `metatype_tweak::apply_all` (same shape) — so the
declarations come from the same type information the translator used.  Output: one header on top of `qtmock.h`:

  * `Qt` (and every class flagged `namespace`) becomes a namespace with its enums;
  * every other class becomes `class X : public Super...` with its enums (`enum`/`enum class`), `QFlags` typedefs
    for flag aliases (+ `Q_DECLARE_OPERATORS_FOR_FLAGS` after the class), and for each property the READ member
    `T read();` and the WRITE member `void write(T)`, each signal / slot / invokable method with its argument types
    and access (public/protected/private);
  * signals whose metatypes entries are the prefixes generated for default arguments (`clicked()`, `clicked(bool)`)
    are merged into ONE member with default arguments, as in the Qt headers: only the full parameter list can be
    selected with `QOverload<...>::of`;
  * argument passing convention (not recorded in metatypes, moc normalises it away): class types, QString, QVariant and
    containers are taken by `const T &`, everything else by value — the convention of the Qt headers;
  * types that the metatypes mention but do not describe (QModelIndex, QPoint, QUrl, ...) become empty stub classes;
    `A::B` with unknown `A` becomes `class A { public: enum B {}; }`;
  * value classes (no `object` flag) are defined before QObject classes, classes after their super classes and after
    classes whose nested types they mention.

Nothing here is specific to what qmluic generates: the header declares what the type information says.
"""
import json
import re
import sys
from collections import OrderedDict

BUILTIN = {
    "void", "bool", "int", "uint", "double", "float", "qreal", "char", "uchar", "short", "ushort", "long", "ulong",
    "qint8", "quint8", "qint16", "quint16", "qint32", "quint32", "qint64", "quint64", "qlonglong", "qulonglong",
    "qsizetype", "QRgb", "WId", "unsigned", "signed",
    "QString", "QStringList", "QVariant", "QByteArray", "QChar", "QLatin1String",
}
BY_VALUE_BUILTIN = {
    "void", "bool", "int", "uint", "double", "float", "qreal", "char", "uchar", "short", "ushort", "long", "ulong",
    "qint8", "quint8", "qint16", "quint16", "qint32", "quint32", "qint64", "quint64", "qlonglong", "qulonglong",
    "qsizetype", "QRgb", "WId", "unsigned", "signed", "QChar",
}
TEMPLATES = {"QList", "QVector", "QPair", "QMap", "QHash", "QSet", "QDeclarativeListProperty", "QQmlListProperty", "QFlags"}
CXX_KEYWORDS = {"default", "class", "enum", "new", "delete", "this", "operator", "union", "register", "signed", "unsigned",
                "template", "typename", "namespace", "export", "explicit", "friend", "inline", "static", "virtual", "void",
                "int", "bool", "char", "short", "long", "double", "float", "const", "volatile", "auto", "break", "case",
                "catch", "continue", "do", "else", "for", "goto", "if", "return", "sizeof", "struct", "switch", "throw",
                "try", "typedef", "using", "while", "true", "false", "nullptr", "and", "or", "not", "xor"}

IDENT = re.compile(r"[A-Za-z_][A-Za-z_0-9]*(?:::[A-Za-z_][A-Za-z_0-9]*)*")


def load(paths):
    classes = []
    for p in paths:
        data = json.load(open(p, encoding="utf-8"))
        units = [data] if isinstance(data, dict) else data
        for u in units:
            if "classes" in u:
                classes.extend(u["classes"])
            elif "qualifiedClassName" in u:
                classes.append(u)
    # later definitions replace earlier ones (ModuleData::extend semantics: last wins by name)
    by_name = OrderedDict()
    for c in classes:
        by_name[c["qualifiedClassName"]] = c
    return by_name


def type_idents(t):
    """qualified identifiers mentioned by a type string (without cv, *, &, template brackets)"""
    return [m.group(0) for m in IDENT.finditer(t) if m.group(0) not in ("const", "volatile", "unsigned", "signed")]


class Gen:
    def __init__(self, classes):
        self.classes = classes
        self.is_ns = {n: bool(c.get("namespace")) or n == "Qt" for n, c in classes.items()}
        self.enums = {n: {e["name"] for e in c.get("enums", [])} | {e["alias"] for e in c.get("enums", []) if e.get("alias")}
                      for n, c in classes.items()}
        self.stubs = OrderedDict()   # name -> set of nested enum names
        self.extra_nested = {}       # known class -> nested enum names used by signatures but not Q_ENUM-declared
        self.skipped = []

    # ---- name resolution as a C++ compiler would do it inside class `scope`
    def ancestors(self, name, seen=None):
        seen = seen if seen is not None else []
        for s in self.classes.get(name, {}).get("superClasses", []):
            n = s["name"]
            if n not in seen:
                seen.append(n)
                self.ancestors(n, seen)
        return seen

    def enum_in_scope(self, scope, ident):
        """is `ident` (possibly qualified) an enumeration/flag type when seen from class `scope`?"""
        if "::" in ident:
            owner, _, leaf = ident.rpartition("::")
            if owner in self.classes:
                return any(leaf in self.enums.get(k, ()) or leaf in self.extra_nested.get(k, ())
                           for k in [owner] + self.ancestors(owner))
            return owner in self.stubs and leaf in self.stubs[owner]
        scopes = [scope] + self.ancestors(scope) if scope else []
        # nested class name `A::B`: also look into the enclosing scopes
        if scope and "::" in scope:
            scopes.append(scope.rpartition("::")[0])
        return any(ident in self.enums.get(k, ()) or ident in self.extra_nested.get(k, ()) for k in scopes)

    def note_idents(self, scope, t):
        for ident in type_idents(t):
            if ident in BUILTIN or ident in TEMPLATES or ident in self.classes:
                continue
            if self.enum_in_scope(scope, ident):
                continue
            if "::" in ident:
                owner, _, leaf = ident.rpartition("::")
                if owner in self.classes:
                    # nested type of a known class that is used in signatures but is not a Q_ENUM: declared as an
                    # (empty) enumeration inside that class
                    self.extra_nested.setdefault(owner, set()).add(leaf)
                    continue
                self.stubs.setdefault(owner, set()).add(leaf)
            else:
                self.stubs.setdefault(ident, set())

    def resolvable(self, scope, t):
        for ident in type_idents(t):
            if ident in BUILTIN or ident in TEMPLATES or ident in self.classes or ident in self.stubs:
                continue
            if self.enum_in_scope(scope, ident):
                continue
            return False
        return True

    def param(self, scope, t):
        t = t.strip()
        if t.endswith("*") or t.endswith("&"):
            return t
        core = t[6:].strip() if t.startswith("const ") else t
        if core in BY_VALUE_BUILTIN or self.enum_in_scope(scope, core):
            return core
        return f"const {core} &"

    # ---- ordering
    def order(self):
        names = [n for n in self.classes if not self.is_ns[n]]
        deps = {}
        for n in names:
            c = self.classes[n]
            d = [s["name"] for s in c.get("superClasses", []) if s["name"] in self.classes]
            soft = []
            for t in self.member_types(c):
                for ident in type_idents(t):
                    if "::" in ident:
                        owner = ident.rpartition("::")[0]
                        if owner in self.classes and owner != n and not self.is_ns[owner] and owner not in self.ancestors(n):
                            soft.append(owner)
            if "::" in n and n.rpartition("::")[0] in self.classes:
                pass
            deps[n] = (d, soft)
        # value classes first, then objects; inside each group depth-first by dependencies
        done, out, active = set(), [], set()

        def visit(n, hard_only=False):
            if n in done:
                return
            if n in active:
                return  # cycle through soft dependencies: broken here, offending members get skipped
            active.add(n)
            d, soft = deps[n]
            for k in d:
                if k in deps:
                    visit(k)
            for k in soft:
                if k in deps:
                    visit(k)
            active.discard(n)
            done.add(n)
            out.append(n)

        for n in names:
            if not self.classes[n].get("object"):
                visit(n)
        for n in names:
            visit(n)
        return out

    @staticmethod
    def member_types(c):
        for p in c.get("properties", []):
            yield p["type"]
        for k in ("signals", "slots", "methods"):
            for m in c.get(k, []):
                yield m["returnType"]
                for a in m.get("arguments", []):
                    yield a["type"]

    # ---- emission
    def emit_enums(self, c, out, ind):
        declared = set()
        enums = c.get("enums", [])
        plain = [e for e in enums if not e.get("isFlag") or not e.get("alias")]
        for e in plain:
            if e["name"] in declared:
                continue
            declared.add(e["name"])
            kw = "enum class" if e.get("isClass") else "enum"
            vals = ", ".join(v + "_" if v in CXX_KEYWORDS else v for v in e.get("values", []))
            out.append(f"{ind}{kw} {e['name']} {{ {vals} }};")
        for e in enums:
            if e.get("isFlag") and e.get("alias"):
                if e["alias"] not in declared:
                    # the flag's enum itself is not Q_ENUM: declare it with the values recorded for the flag
                    declared.add(e["alias"])
                    vals = ", ".join(e.get("values", []))
                    out.append(f"{ind}enum {e['alias']} {{ {vals} }};")
                if e["name"] not in declared:
                    declared.add(e["name"])
                    out.append(f"{ind}typedef QFlags<{e['alias']}> {e['name']};")
        return declared

    def after_enums(self, qual, c, out):
        seen = set()
        for e in c.get("enums", []):
            if e.get("isFlag") and e.get("alias"):
                if e["name"] not in seen:
                    seen.add(e["name"])
                    out.append(f"Q_DECLARE_OPERATORS_FOR_FLAGS({qual}::{e['name']})")
                if e["alias"] not in seen:
                    seen.add(e["alias"])
                    out.append(f"template <> struct QvIsQEnum<{qual}::{e['alias']}> : std::true_type {{}};")
            elif e["name"] not in seen:
                seen.add(e["name"])
                out.append(f"template <> struct QvIsQEnum<{qual}::{e['name']}> : std::true_type {{}};")

    def merged_signals(self, sigs):
        """merge default-argument families; returns list of (method, number of leading mandatory arguments)"""
        groups = OrderedDict()
        for m in sigs:
            groups.setdefault(m["name"], []).append(m)
        res = []
        for name, ms in groups.items():
            ms = sorted(ms, key=lambda m: len(m.get("arguments", [])))
            chain = [ms[0]]
            rest = []
            for m in ms[1:]:
                a = [x["type"] for x in chain[-1].get("arguments", [])]
                b = [x["type"] for x in m.get("arguments", [])]
                if b[:len(a)] == a and m["returnType"] == chain[-1]["returnType"] and m.get("access") == chain[-1].get("access") and len(b) > len(a):
                    chain.append(m)
                else:
                    rest.append(m)
            res.append((chain[-1], len(chain[0].get("arguments", []))))
            for m in rest:  # true overloads stay overloads
                res.append((m, len(m.get("arguments", []))))
        return res

    def emit_class(self, n, out):
        c = self.classes[n]
        supers = []
        for s in c.get("superClasses", []):
            if "<" in s["name"]:
                continue  # template helper bases are not described by the type information
            supers.append(f"{s.get('access', 'public')} {s['name']}")
        head = f"class {n}" if "::" not in n else None
        if head is None:
            # nested / namespaced class: emitted as a flattened name is not valid C++; declare inside a namespace
            ns, _, leaf = n.rpartition("::")
            out.append(f"namespace {ns} {{")
            head = f"class {leaf}"
        out.append(head + (" : " + ", ".join(supers) if supers else ""))
        out.append("{")
        out.append("public:")
        declared = self.emit_enums(c, out, "    ")
        for e in sorted(self.extra_nested.get(n, ())):
            if e not in declared:
                out.append(f"    enum {e} {{}}; // used by a signature, not a Q_ENUM")
        if n == "QObject":
            out.append("    QV_QOBJECT_STATIC_API")
        if n == "QCoreApplication":
            out.append("    QV_QCOREAPPLICATION_STATIC_API")
        emitted = set()
        cur_access = "public"

        def member(access, ret, name, params, defaults_from=None, comment=""):
            nonlocal cur_access
            if name in CXX_KEYWORDS:
                self.skipped.append((n, name, "keyword"))
                return
            for t in [ret] + params:
                if not self.resolvable(n, t):
                    self.skipped.append((n, name, f"unresolvable type {t}"))
                    out.append(f"    // skipped {name}: type {t} is not declared by the type information")
                    return
            ptypes = [self.param(n, t) for t in params]
            key = (name, tuple(t.replace(n + "::", "") for t in ptypes))
            if key in emitted:
                return
            emitted.add(key)
            if access != cur_access:
                out.append(f"{access}:")
                cur_access = access
            ps = []
            for i, t in enumerate(ptypes):
                d = " = {}" if defaults_from is not None and i >= defaults_from else ""
                ps.append(f"{t} a{i}{d}")
            out.append(f"    {ret} {name}({', '.join(ps)});{comment}")

        for m, mandatory in self.merged_signals(c.get("signals", [])):
            args = [a["type"] for a in m.get("arguments", [])]
            member(m.get("access", "public"), m["returnType"], m["name"], args,
                   defaults_from=mandatory if mandatory < len(args) else None, comment=" // signal")
        for kind in ("slots", "methods"):
            for m in c.get(kind, []):
                member(m.get("access", "public"), m["returnType"], m["name"], [a["type"] for a in m.get("arguments", [])],
                       comment=" // " + kind[:-1])
        for p in c.get("properties", []):
            if p.get("read"):
                member("public", p["type"], p["read"], [], comment=f" // READ {p['name']}")
            if p.get("write"):
                member("public", "void", p["write"], [p["type"]], comment=f" // WRITE {p['name']}")
        out.append("};")
        if "::" in n:
            out.append(f"}} // namespace {n.rpartition('::')[0]}")
        self.after_enums(n, c, out)
        out.append("")

    def run(self):
        # 1. collect stubs
        for n, c in self.classes.items():
            for s in c.get("superClasses", []):
                if s["name"] not in self.classes and "<" not in s["name"]:
                    self.stubs.setdefault(s["name"], set())
        for _ in range(2):  # second pass: enum_in_scope may depend on stubs found in the first
            for n, c in self.classes.items():
                for t in self.member_types(c):
                    self.note_idents(n, t)
        out = ["// GENERATED by tools/gen_mock_decls.py from Qt metatypes — do not edit.", "#pragma once", '#include "qtmock.h"', ""]
        # 2. namespaces
        for n, c in self.classes.items():
            if self.is_ns[n]:
                out.append(f"namespace {n} {{")
                self.emit_enums(c, out, "    ")
                out.append(f"}} // namespace {n}")
                self.after_enums(n, c, out)
                out.append("")
        # 3. forward declarations + stubs
        for n in self.classes:
            if not self.is_ns[n] and "::" not in n:
                out.append(f"class {n};")
        out.append("")
        for n, enums in self.stubs.items():
            if "::" in n:
                continue
            body = " ".join(f"enum {e} {{}};" for e in sorted(enums))
            out.append(f"class {n} {{ public: {body} }}; // not described by the type information")
        out.append("")
        # 4. classes
        for n in self.order():
            self.emit_class(n, out)
        return "\n".join(out) + "\n"


def main(argv):
    outp = None
    paths = []
    i = 1
    while i < len(argv):
        if argv[i] == "-o":
            outp = argv[i + 1]
            i += 2
        else:
            paths.append(argv[i])
            i += 1
    if not paths:
        print(__doc__, file=sys.stderr)
        return 2
    g = Gen(load(paths))
    text = g.run()
    if outp:
        open(outp, "w", encoding="utf-8").write(text)
    else:
        sys.stdout.write(text)
    print(f"gen_mock_decls: {len(g.classes)} classes, {len(g.stubs)} stub types, {len(g.skipped)} members skipped", file=sys.stderr)
    for s in g.skipped[:40]:
        print("  skipped:", *s, file=sys.stderr)
    return 0


if __name__ == "__main__":
    sys.exit(main(sys.argv))
