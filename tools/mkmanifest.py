#!/usr/bin/env python3
"""Regenerates MANIFEST.json from tools/qvconfig.py (claimed properties) and properties.jsonl."""
import json, os, sys
ROOT = os.path.dirname(os.path.dirname(os.path.abspath(__file__)))
sys.path.insert(0, os.path.join(ROOT, "tools"))
from qvconfig import PROPS, HOOK_COMMITS, NOT_APPLICABLE  # noqa
import qvconfig
PENDING = getattr(qvconfig, 'PENDING', {})
PROPS = {k: v for k, v in PROPS.items() if k not in PENDING}

props = [json.loads(l) for l in open(os.path.join(ROOT, "properties.jsonl"))]
m = {
    "version": 1,
    "setup_cmd": "./setup.sh",
    "hooks": {
        "guard": "yuja_qmluic_verif",
        "enable": "cargo feature yuja_qmluic_verif of crate qmluic; harness/Cargo.toml enables it on the path dependency /repo/lib",
        "baseline_off_cmd": "cd /repo && cargo test --workspace --no-fail-fast --offline",
        "source_commits": HOOK_COMMITS,
        "add_only": True,
    },
    "engines": [{
        "name": "lean-proof+correspondence", "path": "check",
        "serves_properties": sorted(PROPS.keys()),
        "kind_free_text": "Lean 4 theorems about a hand-written executable model (lean/QV) + tables regenerated from /repo + "
                          "differential correspondence harness (harness/) comparing the real code with the Lean model and the Lean specification",
    }],
    "checks": [],
    "notes": "see DESIGN.md; known findings in KNOWN_FINDINGS.json",
    "not_applicable": [],
}
for p in props:
    pid = p["id"]
    if pid in PROPS:
        c = PROPS[pid]
        m["checks"].append({
            "property_id": pid,
            "quick_cmd": f"./check {pid} --tier quick",
            "thorough_cmd": f"./check {pid} --tier thorough",
            "evidence_file": f"evidence/{pid}.json",
            "replay_cmd_template": f"./check {pid} --replay {{path}}",
            "engine": "lean-proof+correspondence",
            "level_claimed": {"category": c.get("level", "proof"), "text": c["level_text"], "design_ref": f"DESIGN.md §3 {pid}"},
            "level_note": c["level_note"],
            "technique": c.get("technique", "Lean 4 proof about an executable model + differential correspondence with /repo"),
        })
    else:
        m["not_applicable"].append({"property_id": pid, "reason": PENDING.get(pid) or NOT_APPLICABLE.get(pid, "not yet claimed: check under construction (DESIGN.md §7 order of work)")})
json.dump(m, open(os.path.join(ROOT, "MANIFEST.json"), "w"), indent=1)
print("claimed:", sorted(PROPS.keys()))
