#!/usr/bin/env python3
"""C08: lists every place where qmluic's translation code iterates an unordered map/set, and compares the list with
the pinned one (pins/C08_sites.json).  A site = (file, enclosing fn, iterated expression, sorted-before-use?).
Usage: hash_iter_sites.py [--update]   exit 0 = list unchanged, 2 = changed (obligation broken)."""
import json, os, re, sys

REPO = os.environ.get("QV_REPO", "/repo")
ROOT = os.path.dirname(os.path.dirname(os.path.abspath(__file__)))
FILES = ["lib/src/uigen/binding.rs", "lib/src/uigen/context.rs", "lib/src/uigen/expr.rs", "lib/src/uigen/form.rs",
         "lib/src/uigen/gadget.rs", "lib/src/uigen/layout.rs", "lib/src/uigen/mod.rs", "lib/src/uigen/objcode.rs",
         "lib/src/uigen/object.rs", "lib/src/uigen/property.rs", "lib/src/qmlast/object.rs", "lib/src/objtree.rs",
         "lib/src/tir/propdep.rs", "lib/src/tir/builder.rs", "src/main.rs"]
ITER = r"(?:iter|iter_mut|values|values_mut|keys|into_iter|into_values|into_keys|drain)"


def strip_comments(src):
    src = re.sub(r"//[^\n]*", "", src)
    src = re.sub(r"/\*.*?\*/", "", src, flags=re.S)
    return src


ALIASES = set()


def find_aliases(src):
    for m in re.finditer(r"\btype\s+(\w+)(?:<[^>]*>)?\s*=\s*(?:std::collections::)?Hash(?:Map|Set)\s*<", src):
        ALIASES.add(m.group(1))


def map_names(src):
    """identifiers (fields, locals, params, accessor methods) whose type is a HashMap/HashSet in this file"""
    names = set()
    for al in ALIASES:
        for m in re.finditer(r"\b(\w+)\s*:\s*(?:&\s*(?:'\w+\s+)?(?:mut\s+)?)?" + al + r"\b", src):
            names.add(m.group(1))
        for m in re.finditer(r"\blet\s+(?:mut\s+)?(\w+)\s*=[^;]*?\bbuild_(?:binding|attached_type)_map\(", src):
            names.add(m.group(1))
    for m in re.finditer(r"\b(\w+)\s*:\s*(?:&\s*(?:'\w+\s+)?(?:mut\s+)?)?(?:Option<\s*&?\s*(?:'\w+\s+)?)?(?:std::collections::)?Hash(?:Map|Set)\s*<", src):
        names.add(m.group(1))
    for m in re.finditer(r"\blet\s+(?:mut\s+)?(\w+)(?:\s*:[^=;]+)?\s*=\s*(?:std::collections::)?Hash(?:Map|Set)::", src):
        names.add(m.group(1))
    for m in re.finditer(r"\bfn\s+(\w+)\s*\([^)]*\)\s*->\s*(?:Option<\s*)?&?\s*(?:'\w+\s+)?(?:\(\s*[^,]+,\s*)?(?:&\s*)?(?:std::collections::)?Hash(?:Map|Set)\s*<", src):
        names.add(m.group(1) + "()")
    return names


def sites_of(path, rel, global_accessors):
    src = strip_comments(open(path, encoding="utf-8").read())
    # test modules are out of scope
    cut = src.find("#[cfg(test)]")
    if cut >= 0:
        src = src[:cut]
    names = map_names(src) | global_accessors
    flat = re.sub(r"\n\s*\.", ".", src)  # join method chains
    out = []
    fn_positions = [(m.start(), m.group(1)) for m in re.finditer(r"\bfn\s+(\w+)", flat)]

    def enclosing(pos):
        name = "?"
        for p, n in fn_positions:
            if p <= pos:
                name = n
            else:
                break
        return name
    for n in sorted(names):
        base = re.escape(n[:-2]) + r"\(\s*[^()]*\)" if n.endswith("()") else r"\b" + re.escape(n) + r"\b"
        pats = [rf"(?:\w+(?:\(\))?\.)*{base}(?:\.as_ref\(\))?\s*\.\s*{ITER}\(\)",
                rf"\bfor\s+[^;{{]*?\bin\s+&?(?:mut\s+)?(?:\w+(?:\(\))?\.)*{base}\s*\{{"]
        for pat in pats:
            for m in re.finditer(pat, flat):
                stmt_end = min([x for x in (flat.find(";", m.end()), flat.find("{", m.end())) if x >= 0] or [m.end() + 200])
                tail = flat[m.end():stmt_end]
                expr = re.sub(r"\s+", " ", m.group(0)).strip()
                is_sorted = bool(re.search(r"\.sorted(?:_by_key|_by|_unstable)?\(", tail))
                consumer = ""
                mm = re.search(r"\.(all|any|count|collect|extend|filter_map|filter|flat_map|map|for_each|find|next)\b", tail)
                if mm:
                    consumer = mm.group(1)
                out.append({"file": rel, "fn": enclosing(m.start()), "expr": expr[:120], "sorted": is_sorted, "then": consumer})
    # de-duplicate
    seen, res = set(), []
    for s in out:
        k = json.dumps(s, sort_keys=True)
        if k not in seen:
            seen.add(k)
            res.append(s)
    return res


def main():
    # accessor methods that hand out maps, visible across files
    accessors = set()
    for rel in FILES:
        p = os.path.join(REPO, rel)
        if os.path.exists(p):
            find_aliases(strip_comments(open(p, encoding="utf-8").read()))
    for rel in FILES:
        p = os.path.join(REPO, rel)
        if os.path.exists(p):
            for n in map_names(strip_comments(open(p, encoding="utf-8").read())):
                if n.endswith("()"):
                    accessors.add(n)
    sites = []
    for rel in FILES:
        p = os.path.join(REPO, rel)
        if not os.path.exists(p):
            print(f"hash_iter_sites: {rel} missing", file=sys.stderr)
            return 2
        sites += sites_of(p, rel, accessors)
    sites.sort(key=lambda s: (s["file"], s["fn"], s["expr"]))
    pin = os.path.join(ROOT, "pins", "C08_sites.json")
    if "--update" in sys.argv:
        os.makedirs(os.path.dirname(pin), exist_ok=True)
        json.dump(sites, open(pin, "w"), indent=1)
        print(f"hash_iter_sites: pinned {len(sites)} sites ({sum(1 for s in sites if s['sorted'])} sorted)")
        return 0
    pinned = json.load(open(pin))
    a = {json.dumps(s, sort_keys=True) for s in sites}
    b = {json.dumps(s, sort_keys=True) for s in pinned}
    if a != b:
        for s in sorted(a - b):
            print("hash_iter_sites: NEW site      ", s, file=sys.stderr)
        for s in sorted(b - a):
            print("hash_iter_sites: MISSING site  ", s, file=sys.stderr)
        print(f"hash_iter_sites: the list of map-iteration sites changed ({len(a - b)} new, {len(b - a)} gone)")
        return 2
    print(f"hash_iter_sites: {len(sites)} sites, as pinned ({sum(1 for s in sites if s['sorted'])} sorted before use)")
    return 0


if __name__ == "__main__":
    sys.exit(main())
