#!/usr/bin/env python3
"""Runs the checks against the seeded breaking changes WITHOUT touching /repo itself, several at a time.

usage: tools/run_seeded_isolated.py [--jobs N] [--tier quick|thorough] [--all-checks] [ID | ID/k ...]

Each job owns a scratch directory <SCRATCH>/<j>/ holding a copy of /repo's working tree and a copy of /verif (with its
build directories).  For a seeded change the job resets its copy of /repo from /repo, applies seeded/<ID>/<k>/patch.diff
to it and runs `./check <ID>` (plus meta.json "also_check", or every claimed check with --all-checks) inside a private
mount namespace in which the copy is bind-mounted over /repo (`unshare -m`, `mount --bind`): the check sees the changed
tree at /repo, every other process keeps seeing the real one.  Results go to seeded/<ID>/<k>/result.json.
(tools/run_seeded.py does the same by applying the patch to /repo itself and undoing it; use that one when nothing else
is reading /repo.)  The scratch directories are removed at the end unless --keep is given.
"""
import json, os, shutil, subprocess, sys, threading, time

ROOT = os.path.dirname(os.path.dirname(os.path.abspath(__file__)))
SCRATCH = os.environ.get("QV_SEED_SCRATCH", "/root/qv-scratch/seedrun")


def sh(cmd, **kw):
    return subprocess.run(cmd, shell=True, capture_output=True, text=True, **kw)


def prepare(j):
    d = os.path.join(SCRATCH, str(j))
    os.makedirs(d, exist_ok=True)
    sh(f"rsync -a --delete --exclude target --exclude .git /repo/ {d}/repo/")
    sh(f"rsync -a --delete --exclude replays --exclude .work/cli-target --exclude seeded {ROOT}/ {d}/verif/")
    os.makedirs(f"{d}/verif/.work", exist_ok=True)
    os.makedirs(f"{d}/verif/replays", exist_ok=True)
    return d


def run_one(d, pid, k, tier, all_checks):
    src = os.path.join(ROOT, "seeded", pid, k)
    meta = json.load(open(os.path.join(src, "meta.json"))) if os.path.isfile(os.path.join(src, "meta.json")) else {}
    sh(f"rsync -a --delete --exclude target --exclude .git /repo/ {d}/repo/")
    r = sh(f"git apply {src}/patch.diff", cwd=f"{d}/repo")
    if r.returncode != 0:
        return {"property": pid, "change": k, "error": "patch does not apply: " + r.stderr.strip()[:300], "caught_by": []}
    checks = [pid] + [c for c in meta.get("also_check", []) if c != pid]
    if all_checks:
        m = json.load(open(os.path.join(ROOT, "MANIFEST.json")))
        checks = [pid] + [c["property_id"] for c in m["checks"] if c["property_id"] != pid]
    result = {"property": pid, "change": k, "title": meta.get("title", ""), "tier": tier, "checks": {}}
    for c in checks:
        t0 = time.time()
        cmd = (f"unshare -m sh -c 'mount --bind {d}/repo /repo && cd {d}/verif && "
               f"QV_CLI_TARGET_DIR={d}/verif/.work/cli-target ./check {c} --tier {tier}'")
        cr = sh(cmd)
        out = cr.stdout.splitlines() + cr.stderr.splitlines()
        lines = [l for l in out if l.startswith("VIOLATION")]
        summary = [l for l in out if l.startswith(f"[check] {c} ")]
        pins = [l for l in out if "source pins:" in l]
        entry = {"rc": cr.returncode, "violations": lines, "summary": summary[-1:], "source_pins": pins[-1:],
                 "wall_s": round(time.time() - t0, 1)}
        # keep the replay of a concrete failing input next to the result
        for l in lines:
            if "no-failing-input-found" not in l and "replay=" in l:
                rp = l.split("replay=")[1].split()[0]
                rp = rp if rp.startswith(d) else rp.replace("/verif/", f"{d}/verif/", 1)
                if os.path.isfile(rp):
                    try:
                        rj = json.load(open(rp))
                        entry["first_failing_case"] = {kk: str(vv)[:600] for kk, vv in (rj.get("cases") or [{}])[0].items()}
                    except Exception:  # noqa
                        pass
        result["checks"][c] = entry
    result["caught_by"] = [c for c, v in result["checks"].items() if v["rc"] == 1 and v["violations"]]
    result["caught_with_failing_input"] = [c for c, v in result["checks"].items()
                                           if v["rc"] == 1 and any("no-failing-input-found" not in l for l in v["violations"])]
    return result


def main():
    args = sys.argv[1:]
    jobs, tier, keep, all_checks, sel = 3, "quick", False, False, []
    while args:
        a = args.pop(0)
        if a == "--jobs":
            jobs = int(args.pop(0))
        elif a == "--tier":
            tier = args.pop(0)
        elif a == "--keep":
            keep = True
        elif a == "--all-checks":
            all_checks = True
        else:
            sel.append(a)
    seeded = os.path.join(ROOT, "seeded")
    work = []
    for pid in sorted(os.listdir(seeded)):
        if not os.path.isdir(os.path.join(seeded, pid)):
            continue
        for k in sorted(os.listdir(os.path.join(seeded, pid))):
            if os.path.isfile(os.path.join(seeded, pid, k, "patch.diff")):
                if not sel or pid in sel or f"{pid}/{k}" in sel:
                    work.append((pid, k))
    lock = threading.Lock()
    rows = []

    def worker(j):
        d = prepare(j)
        while True:
            with lock:
                if not work:
                    return
                pid, k = work.pop(0)
            res = run_one(d, pid, k, tier, all_checks)
            json.dump(res, open(os.path.join(seeded, pid, k, "result.json"), "w"), indent=1)
            verdict = ("CAUGHT(input) " if res.get("caught_with_failing_input") else "CAUGHT(no-input) " if res.get("caught_by") else "MISSED ")
            with lock:
                rows.append((pid, k, verdict + ",".join(res.get("caught_by", [])), res.get("title", "")[:80]))
                print(rows[-1], flush=True)

    ts = [threading.Thread(target=worker, args=(j,)) for j in range(min(jobs, max(1, len(work))))]
    for t in ts:
        t.start()
    for t in ts:
        t.join()
    print()
    for r in sorted(rows):
        print("%-4s %-2s %-28s %s" % r)
    if not keep:
        shutil.rmtree(SCRATCH, ignore_errors=True)


if __name__ == "__main__":
    main()
