#!/bin/sh
# Runs every claimed check (quick tier by default) on /repo as it is; prints a one-line summary per check.
cd "$(dirname "$0")"
TIER="${1:-quick}"
for id in $(python3 -c "import json;print(' '.join(c['property_id'] for c in json.load(open('MANIFEST.json'))['checks']))"); do
  out=$(./check "$id" --tier "$TIER" 2>&1); rc=$?
  echo "$id rc=$rc $(echo "$out" | grep -E 'VIOLATION|KNOWN-FINDING' | cut -c1-160 | tr '\n' ' ')"
done
