/-
  qvdriver — runs the executable model on one request per line (stdin) and prints one canonical answer
  per line (stdout).  Imports only import-free model files, so it links as a `lean_exe`.
-/
import QV.Sexp
import QV.Driver.Color
import QV.Driver.Layout
import QV.Driver.Names
import QV.Driver.FormTree
import QV.Driver.Xml
import QV.Driver.ClassGraph
import QV.Driver.QmlDir
import QV.Driver.Cli
import QV.Driver.Ir
import QV.Driver.Passes
import QV.Driver.C03
import QV.Driver.Sem
import QV.Driver.Typing
import QV.Driver.Observe
import QV.Driver.CxxEmit

open QV

def dispatch (req : Sexp) : Sexp :=
  match req with
  | .list (.atom "color" :: args) => Driver.handleColor "color" args
  | .list (.atom "colorui" :: args) => Driver.handleColor "colorui" args
  | .list (.atom "brushui" :: args) => Driver.handleColor "brushui" args
  | .list (.atom "spec-color" :: args) => Driver.handleSpecColor "spec-color" args
  | .list (.atom "spec-colorui" :: args) => Driver.handleSpecColor "spec-colorui" args
  | .list (.atom "spec-brushui" :: args) => Driver.handleSpecColor "spec-brushui" args
  | .list (.atom "grid" :: args) => Driver.Layout.handleModel "grid" args
  | .list (.atom "form" :: args) => Driver.Layout.handleModel "form" args
  | .list (.atom "vbox" :: args) => Driver.Layout.handleModel "vbox" args
  | .list (.atom "hbox" :: args) => Driver.Layout.handleModel "hbox" args
  | .list (.atom "spec-grid" :: args) => Driver.Layout.handleSpec "spec-grid" args
  | .list (.atom "f9-grid" :: args) => Driver.Layout.handleSpec "f9-grid" args
  | .list (.atom "spec-form" :: args) => Driver.Layout.handleSpec "spec-form" args
  | .list (.atom "spec-vbox" :: args) => Driver.Layout.handleSpec "spec-vbox" args
  | .list (.atom "spec-hbox" :: args) => Driver.Layout.handleSpec "spec-hbox" args
  | .list (.atom "names" :: args) => Driver.Names.handleModel args
  | .list (.atom "spec-names" :: args) => Driver.Names.handleSpec args
  | .list (.atom "formtree" :: args) => Driver.FormTree.handleModel args
  | .list (.atom "spec-formtree" :: args) => Driver.FormTree.handleSpec args
  | .list (.atom "xmltext" :: args) => Driver.Xml.handleModel false args
  | .list (.atom "xmlattr" :: args) => Driver.Xml.handleModel true args
  | .list (.atom "spec-xmlread" :: args) => Driver.Xml.handleSpec args
  | .list (.atom "cg" :: args) => Driver.ClassGraph.handleModel "cg" args
  | .list (.atom "cg-prefix" :: args) => Driver.ClassGraph.handleModel "cg-prefix" args
  | .list (.atom "f10-cg" :: args) => Driver.ClassGraph.handleModel "f10-cg" args
  | .list (.atom "cg-repaired" :: args) => Driver.ClassGraph.handleModel "cg-repaired" args
  | .list (.atom "spec-cg" :: args) => Driver.ClassGraph.handleSpec "spec-cg" args
  | .list (.atom "c18" :: args) => Driver.QmlDir.handleModel args
  | .list (.atom "spec-c18-dirs" :: args) => Driver.QmlDir.handleSpec args
  | .list (.atom "c18-cliout" :: args) => Driver.QmlDir.handleCli args
  | .list (.atom "cli-paths" :: args) => Driver.Cli.handlePaths args
  | .list (.atom "spec-cli-paths" :: args) => Driver.Cli.handleSpecPaths args
  | .list (.atom "cli-hist" :: args) => Driver.Cli.handleHist args
  | .list (.atom "cli-kill" :: args) => Driver.Cli.handleKill args
  | .list (.atom "build" :: args) => Driver.Ir.handleBuild args
  | .list (.atom "cfgcheck" :: args) => Driver.Ir.handleCfgCheck args
  | .list (.atom "cfgcheck-cxx" :: args) => Driver.Ir.handleCfgCheckCxx args
  | .list (.atom "passes" :: args) => Driver.Passes.handle args
  | .list (.atom "c16-inv" :: args) => Driver.CxxEmit.handleInventory args
  | .list (.atom "c16-lit" :: args) => Driver.CxxEmit.handleLit args
  | .list (.atom "spec-cxxlit" :: args) => Driver.CxxEmit.handleSpecCxxLit args
  | .list (.atom "coveredcheck" :: args) => Driver.Observe.handleCoveredCheck args
  | .list (.atom "c02-history" :: args) => Driver.Observe.handleHistory args
  | .list (.atom "spec-c01" :: args) => Driver.Sem.handleSpecC01 args
  | .list (.atom "c01-ir" :: args) => Driver.Sem.handleIr args
  | .list (.atom "c01-body" :: args) => Driver.Sem.handleBody args
  | .list (.atom "spec-c13" :: args) => Driver.Sem.handleSpecC13 args
  | .list (.atom "c13-body" :: args) => Driver.Sem.handleBody13 args
  | .list (.atom "f42-spec-c13" :: args) => Driver.Sem.handleSpecC13 args { argsFirst := true }
  | .list (.atom "f41-spec-c13" :: args) => Driver.Sem.handleSpecC13 args { longConst := true }
  | .list (.atom "f41-f42-spec-c13" :: args) => Driver.Sem.handleSpecC13 args { argsFirst := true, longConst := true }
  | .list (.atom "f41-spec-c01" :: args) => Driver.Sem.handleSpecC01 args { longConst := true }
  | .list (.atom "c05-accept" :: args) => Driver.Typing.handleAccept args
  | .list (.atom "c05-reject" :: args) => Driver.Typing.handleReject args
  | .list (.atom "c05-ir" :: args) => Driver.Typing.handleIr args
  | .list (.atom "c05-verdict" :: args) => Driver.Typing.handleVerdict args
  | .list (.atom "literal" :: args) => Driver.C03.handleLiteral args
  | .list (.atom "spec-mv" :: args) => Driver.C03.handleSpecMv args
  | .list (.atom "c03-judge" :: args) => Driver.C03.handleJudge args
  | .list (.atom "c03-strlit" :: args) => Driver.C03.handleStrLit args
  | _ => .list [.atom "bad-request"]

partial def loop (h : IO.FS.Stream) (out : IO.FS.Stream) : IO Unit := do
  let line ← h.getLine
  if line.isEmpty then return ()
  let ans := match Sexp.parse line with
    | some req => dispatch req
    | none => .list [.atom "bad-sexp"]
  out.putStrLn (toString ans)
  loop h out

def main : IO Unit := do
  let stdin ← IO.getStdin
  let stdout ← IO.getStdout
  loop stdin stdout
