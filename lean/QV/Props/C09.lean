/-
  C09 — The .ui is well-formed, grammar-conformant XML that preserves strings.

  Model : QV.Model.Xml (quick-xml's `escape` + xmlutil::escaped_text / escaped_attribute, after the repair of F4)
  Spec  : QV.Spec.Xml (what an XML 1.0 processor reads: references, end-of-line and attribute normalisation)
  Tie   : stream `c09`: generated strings through the real pipeline into every string-carrying position
          (string / stringlist / item text / tab title / icon theme attribute / class name); the raw escaped text of the
          real .ui is compared with the model (kind=model), decoded by the Lean spec reader and compared with the
          source string (kind=spec), and the whole document is parsed by the harness's strict XML reader and checked
          against the Designer grammar (kind=oracle).  `conforms_designer` has no theorem (oracle only).
-/
import QV.Model.Xml
import QV.Spec.Xml

namespace QV.Props.C09
open QV.Model.Xml QV.Spec.Xml

theorem text_step (c : Char) (hc : isXmlChar c = true) (rest : List Char) (f : Nat) :
    readTextFuel (f + 1) (escapeTextChar c ++ rest) = (readTextFuel f rest).map (c :: ·) := by
  unfold escapeTextChar escapeMarkup
  by_cases h1 : c = '\r'
  · subst h1; simp [readTextFuel, readRef, readNum, decVal, isXmlChar]
  · by_cases h2 : c = '<'
    · subst h2; simp [readTextFuel, readRef]
    · by_cases h3 : c = '>'
      · subst h3; simp [readTextFuel, readRef]
      · by_cases h4 : c = '&'
        · subst h4; simp [readTextFuel, readRef]
        · by_cases h5 : c = '\''
          · subst h5; simp [readTextFuel, readRef]
          · by_cases h6 : c = '"'
            · subst h6; simp [readTextFuel, readRef]
            · simp [h1, h2, h3, h4, h5, h6, readTextFuel, hc]

theorem text_roundtrip_fuel (s : List Char) (hs : ∀ c ∈ s, isXmlChar c = true) :
    ∀ f, s.length + 1 ≤ f → readTextFuel f (escapeText s) = some s := by
  induction s with
  | nil => intro f hf; obtain ⟨f', rfl⟩ : ∃ g, f = g + 1 := ⟨f - 1, by omega⟩; simp [escapeText, readTextFuel]
  | cons c rest ih =>
    intro f hf
    obtain ⟨f', rfl⟩ : ∃ g, f = g + 1 := ⟨f - 1, by omega⟩
    simp only [escapeText]
    rw [text_step c (hs c (by simp)) _ f', ih (fun d hd => hs d (by simp [hd])) f' (by simp at hf; omega)]
    rfl

theorem escapeTextChar_length (c : Char) : 1 ≤ (escapeTextChar c).length := by
  unfold escapeTextChar escapeMarkup
  repeat' split
  all_goals simp

theorem escapeText_length (s : List Char) : s.length ≤ (escapeText s).length := by
  induction s with
  | nil => simp [escapeText]
  | cons c rest ih =>
    simp only [escapeText, List.length_append, List.length_cons]
    have := escapeTextChar_length c
    omega

/-- **Text round trip**: for every string of XML 1.0 characters, an XML processor reading the character data
    the writer produced reports exactly that string (markup characters, quotes, CR, LF, TAB, blanks,
    non-ASCII included). -/
theorem text_roundtrip (s : List Char) (hs : ∀ c ∈ s, isXmlChar c = true) : readText (escapeText s) = some s :=
  text_roundtrip_fuel s hs _ (by have := escapeText_length s; omega)

theorem attr_step (c : Char) (hc : isXmlChar c = true) (rest : List Char) (f : Nat) :
    readAttrFuel (f + 1) (escapeAttrChar c ++ rest) = (readAttrFuel f rest).map (c :: ·) := by
  unfold escapeAttrChar escapeMarkup
  by_cases h0 : c = '\t'
  · subst h0; simp [readAttrFuel, readRef, readNum, decVal, isXmlChar]
  · by_cases h00 : c = '\n'
    · subst h00; simp [readAttrFuel, readRef, readNum, decVal, isXmlChar]
    · by_cases h1 : c = '\r'
      · subst h1; simp [readAttrFuel, readRef, readNum, decVal, isXmlChar]
      · by_cases h2 : c = '<'
        · subst h2; simp [readAttrFuel, readRef]
        · by_cases h3 : c = '>'
          · subst h3; simp [readAttrFuel, readRef]
          · by_cases h4 : c = '&'
            · subst h4; simp [readAttrFuel, readRef]
            · by_cases h5 : c = '\''
              · subst h5; simp [readAttrFuel, readRef]
              · by_cases h6 : c = '"'
                · subst h6; simp [readAttrFuel, readRef]
                · simp [h0, h00, h1, h2, h3, h4, h5, h6, readAttrFuel, hc]

theorem attr_roundtrip_fuel (s : List Char) (hs : ∀ c ∈ s, isXmlChar c = true) :
    ∀ f, s.length + 1 ≤ f → readAttrFuel f (escapeAttr s) = some s := by
  induction s with
  | nil => intro f hf; obtain ⟨f', rfl⟩ : ∃ g, f = g + 1 := ⟨f - 1, by omega⟩; simp [escapeAttr, readAttrFuel]
  | cons c rest ih =>
    intro f hf
    obtain ⟨f', rfl⟩ : ∃ g, f = g + 1 := ⟨f - 1, by omega⟩
    simp only [escapeAttr]
    rw [attr_step c (hs c (by simp)) _ f', ih (fun d hd => hs d (by simp [hd])) f' (by simp at hf; omega)]
    rfl

theorem escapeAttrChar_length (c : Char) : 1 ≤ (escapeAttrChar c).length := by
  unfold escapeAttrChar escapeMarkup
  repeat' split
  all_goals simp

theorem escapeAttr_length (s : List Char) : s.length ≤ (escapeAttr s).length := by
  induction s with
  | nil => simp [escapeAttr]
  | cons c rest ih =>
    simp only [escapeAttr, List.length_append, List.length_cons]
    have := escapeAttrChar_length c
    omega

/-- **Attribute round trip**: the same for attribute values (where a processor turns literal TAB/LF/CR into
    spaces, so they must be — and are — written as character references). -/
theorem attr_roundtrip (s : List Char) (hs : ∀ c ∈ s, isXmlChar c = true) : readAttr (escapeAttr s) = some s :=
  attr_roundtrip_fuel s hs _ (by have := escapeAttr_length s; omega)

theorem markup_no_lt_quote (c : Char) : '<' ∉ escapeMarkup c ∧ '"' ∉ escapeMarkup c := by
  unfold escapeMarkup
  by_cases h2 : c = '<'
  · subst h2; decide
  · by_cases h3 : c = '>'
    · subst h3; decide
    · by_cases h4 : c = '&'
      · subst h4; decide
      · by_cases h5 : c = '\''
        · subst h5; decide
        · by_cases h6 : c = '"'
          · subst h6; decide
          · simp only [h2, h3, h4, h5, h6, if_false, List.mem_singleton]
            exact ⟨fun h => h2 h.symm, fun h => h6 h.symm⟩

/-- The escaped text never contains `<` (so a string cannot open or close an element) … -/
theorem escaped_text_no_lt (s : List Char) : '<' ∉ escapeText s := by
  induction s with
  | nil => simp [escapeText]
  | cons c rest ih =>
    simp only [escapeText, List.mem_append, not_or]
    refine ⟨?_, ih⟩
    unfold escapeTextChar
    split
    · decide
    · exact (markup_no_lt_quote c).1

/-- … and an escaped attribute value contains neither `<` nor `"` (so it cannot end the attribute). -/
theorem escaped_attr_no_quote (s : List Char) : '"' ∉ escapeAttr s ∧ '<' ∉ escapeAttr s := by
  induction s with
  | nil => simp [escapeAttr]
  | cons c rest ih =>
    simp only [escapeAttr, List.mem_append, not_or]
    have hc : '"' ∉ escapeAttrChar c ∧ '<' ∉ escapeAttrChar c := by
      unfold escapeAttrChar
      split
      · decide
      · split
        · decide
        · split
          · decide
          · exact ⟨(markup_no_lt_quote c).2, (markup_no_lt_quote c).1⟩
    exact ⟨⟨hc.1, ih.1⟩, ⟨hc.2, ih.2⟩⟩

/-- The pre-repair behaviour (quick-xml's `escape` alone) does NOT round-trip: the F4 witnesses. -/
def escapeOld : List Char → List Char
  | [] => []
  | c :: rest => escapeMarkup c ++ escapeOld rest

theorem f4_text_witness : readText (escapeOld "a\rb".toList) = some "a\nb".toList := by decide
theorem f4_attr_witness : readAttr (escapeOld "x\ny\tz".toList) = some "x y z".toList := by decide

/-! non-vacuity -/
example : readText (escapeText "<a href=\"x\">&amp; 'q'\r\n\té😀</a>".toList)
    = some "<a href=\"x\">&amp; 'q'\r\n\té😀</a>".toList := by decide
example : readAttr (escapeAttr " lead\ttab\nnl\rcr \"q\" ".toList) = some " lead\ttab\nnl\rcr \"q\" ".toList := by decide

end QV.Props.C09
