/-
  C16 — The support header is self-consistent, valid C++ over the documented Qt API.

  Model : QV.Model.CxxEmit (uigen/binding.rs: name prefixes and the shared `UniqueNameGenerator`, function inventory,
          `BindingIndex`, `bindingGuard_` size and word/bit arithmetic, observer arrays, include rule, Rust `{:?}`
          spelling of string constants; tir/propdep.rs observer allocation), QV.Model.RustDebugTable (toolchain table).
  Spec  : QV.Spec.CxxLit (how a C++17 compiler reads the characters of a `u"…"` / ordinary string literal), validated
          against g++ by the stream (`spec-cxxlit`).
  Tie   : stream `c16` — header inventory and literal spellings of REAL headers vs the model (kind=model); token scan
          of real headers (kind=oracle); every accepted header compiled with g++ -std=c++17 against declarations
          generated from the same metatypes (kind=oracle); every literal compiled and RUN (kind=oracle).

  "A C++ compiler accepts the header" is not a theorem (no compiler is modelled): correspondence only.

  The model follows the code AFTER the repairs of F3b (5f82544), F3a (0f767b2), F13 (bd13865), F22 (61d18c3), F24 (5a4a210),
  F23 (17832f1), F70 (4e55b2c): literal_roundtrip, ops_subset_cxx and builtin_calls_welltyped are proved in full; the former behaviour is
  kept as `…Old` definitions with kernel-checked witnesses (`…_old_refuted`, `literal_*_witness`).
-/
import QV.Proofs.CxxEmit
import QV.Spec.CxxLit

namespace QV.Props.C16
open QV.Model.Names QV.Model.CxxEmit QV.Proofs.CxxEmit

/-! ### function names -/

/-- **Every name issued while building the support code is issued once** — over the whole sequence of `generate`
    calls (bindings, gadget sub-bindings with prefixes built from generated names, callbacks; all objects), whatever
    the object and property names are (colliding concatenations, names ending in digits). -/
theorem issued_names_distinct (objs : List Obj) (b : Built) (h : build objs = some b) : b.issued.Nodup := by
  unfold build at h
  split at h
  · exact absurd h (by simp)
  · rename_i bs cs g hg
    simp only [Option.some.injEq] at h
    subst h
    exact (genObjects_issued objs {} g bs cs hg).1

/-- **Member functions are pairwise distinct**: the `setup…/update…/eval…/on…` functions defined in the header, in
    the order they are written, contain no name twice (so each call `this->f()` has exactly one definition). -/
theorem fn_names_distinct (objs : List Obj) (b : Built) (h : build objs = some b) : b.defs.Nodup := by
  have hn := issued_names_distinct objs b h
  have key := units_nodup (b.bindings.map bindingUnit ++ b.callbacks.map callbackUnit)
    (by
      intro u hu
      rcases List.mem_append.1 hu with hu | hu
      · obtain ⟨g, _, rfl⟩ := List.mem_map.1 hu; exact bindingUnit_good g
      · obtain ⟨c, _, rfl⟩ := List.mem_map.1 hu; exact callbackUnit_good c)
    (by
      have e : ∀ (cs : List (Str × Callback)), cs.flatMap (fun a => [a.1]) = cs.map (·.1) := by
        intro cs; induction cs with
        | nil => rfl
        | cons c r ih => simp [List.flatMap_cons, ih]
      simp only [Built.issued] at hn
      simp only [List.flatMap_append, List.flatMap_map, bindingUnit, callbackUnit, e]
      exact hn)
  simpa [Built.defs, List.flatMap_append, List.flatMap_map, bindingUnit, callbackUnit] using key

/-- none of them is the public `setup()` itself when object or property name is non-empty: a generated function
    name is a tag followed by a generated name -/
theorem defs_are_tagged (b : Built) : ∀ x ∈ b.defs, ∃ t ∈ tags, ∃ n ∈ b.issued, x = t ++ n := by
  intro x hx
  simp only [Built.defs, List.mem_append, List.mem_flatMap] at hx
  rcases hx with ⟨g, hg, hx⟩ | ⟨c, hc, hx⟩
  · obtain ⟨t, ht, n, hn, rfl⟩ := (bindingUnit_good g).2 x hx
    refine ⟨t, ht, n, ?_, rfl⟩
    simp only [Built.issued, List.mem_append, List.mem_flatMap]
    exact Or.inl ⟨g, hg, hn⟩
  · obtain ⟨t, ht, n, hn, rfl⟩ := (callbackUnit_good c).2 x hx
    refine ⟨t, ht, n, ?_, rfl⟩
    simp only [callbackUnit, List.mem_cons, List.not_mem_nil, or_false] at hn
    subst hn
    simp only [Built.issued, List.mem_append, List.mem_map]
    exact Or.inr ⟨c, hc, rfl⟩

/-- the `generate` search never panics during the build (C10's totality lemma) -/
theorem build_total_group (objCap : Str) : ∀ (nodes : List PNode) (stack : List Str) (g : Gen),
    genGroup objCap nodes stack g ≠ none := by
  intro nodes
  induction nodes with
  | nil => intro _ _; simp [genGroup]
  | cons nd rest ih =>
    intro stack g
    simp only [genGroup]
    split
    · rename_i hg; exact absurd hg (QV.Proofs.Names.generate_total _ _ _)
    · rename_i name g1 _
      split
      · rename_i hr; exact absurd hr (ih _ _)
      · simp

/-! ### binding index -/

/-- **Each binding has its own index**: the k-th binding's enumerator has value k; indexes are pairwise distinct and
    smaller than the number of bindings; the enumerator names are pairwise distinct. -/
theorem index_per_binding (objs : List Obj) (b : Built) (h : build objs = some b) :
    b.indexEnum.length = b.bindingCount ∧
    (∀ j k, j < b.bindingCount → k < b.bindingCount → b.indexOf j = b.indexOf k → j = k) ∧
    (∀ k, k < b.bindingCount → b.indexOf k < b.bindingCount) ∧
    ((b.bindings.filter (· ≠ [])).map bindingName).Nodup := by
  refine ⟨by simp [Built.indexEnum, Built.bindingCount], fun j k _ _ e => e, fun k hk => hk, ?_⟩
  have hn := issued_names_distinct objs b h
  simp only [Built.issued] at hn
  have h1 : (b.bindings.flatMap groupNames).Nodup := (List.nodup_append.1 hn).1
  clear hn h
  generalize b.bindings = bs at h1
  induction bs with
  | nil => simp
  | cons g rest ih =>
    simp only [List.flatMap_cons, List.nodup_append] at h1
    obtain ⟨hg, hr, hd⟩ := h1
    cases g with
    | nil => simpa using ih hr
    | cons it tl =>
      have hne : decide (it :: tl ≠ []) = true := by simp
      rw [List.filter_cons, if_pos hne]
      simp only [List.map_cons, List.nodup_cons, bindingName]
      refine ⟨?_, ih hr⟩
      intro hmem
      obtain ⟨g', hg', hname⟩ := List.mem_map.1 hmem
      have hg'' := (List.mem_filter.1 hg').1
      cases g' with
      | nil => simp at hg'
      | cons it' tl' =>
        simp only [bindingName] at hname
        exact hd it.name (by simp [groupNames]) it'.name
          (List.mem_flatMap.2 ⟨it' :: tl', hg'', by simp [groupNames]⟩) hname.symm

/-! ### re-entrancy guard -/

/-- **The guard array is large enough**: for `n` bindings every index `i < n` addresses a word inside
    `bindingGuard_[(n+31)/32]`, a bit below 32, and (word, bit) determines `i`. -/
theorem guard_large_enough (n i : Nat) (h : i < n) :
    guardWord i < guardLen n ∧ guardBit i < 32 ∧ i = 32 * guardWord i + guardBit i := by
  rw [guardWord_eq, guardBit_eq]
  unfold guardLen
  omega

/-- distinct bindings never share a guard bit -/
theorem guard_slots_distinct (i j : Nat) (hw : guardWord i = guardWord j) (hb : guardBit i = guardBit j) : i = j := by
  rw [guardWord_eq, guardWord_eq] at hw
  rw [guardBit_eq, guardBit_eq] at hb
  omega

/-- no zero-length array: the array is declared iff there is a binding, and then has at least one element -/
theorem guard_decl (n : Nat) :
    (guardDecl n = none ↔ n = 0) ∧ ∀ k, guardDecl n = some k → 1 ≤ k ∧ n ≤ 32 * k := by
  unfold guardDecl guardLen
  constructor
  · by_cases h : n = 0 <;> simp [h]
  · intro k hk
    by_cases h : n = 0
    · simp [h] at hk
    · simp only [h, if_false, Option.some.injEq] at hk
      omega

/-! ### observers -/

/-- **Observer arrays are large enough**: the observer indexes `observed[k]` allocated for the blocks of one binding
    are all below the declared size `property_observer_count`; the array is declared whenever an index is used and
    never with length 0. -/
theorem observer_arrays_large_enough (name : Str) (blocks : List Nat) :
    let r := allocObservers 0 blocks
    (∀ ids ∈ r.1, ∀ k ∈ ids, k < r.2) ∧
    (observerDecl name r.2 = none ↔ r.2 = 0) ∧
    (∀ d, observerDecl name r.2 = some d → d.2 = r.2 ∧ 0 < d.2) := by
  obtain ⟨h1, h2⟩ := allocObservers_spec blocks 0
  refine ⟨?_, ?_, ?_⟩
  · intro ids hids k hk
    have := h2 ids hids k hk
    omega
  · unfold observerDecl
    by_cases h : (allocObservers 0 blocks).2 = 0 <;> simp [h]
  · intro d hd
    unfold observerDecl at hd
    by_cases h : (allocObservers 0 blocks).2 = 0
    · simp [h] at hd
    · simp only [h, if_false, Option.some.injEq] at hd
      subst hd
      exact ⟨rfl, Nat.pos_of_ne_zero h⟩

/-- the arrays declared in the header belong to distinct names (they are `observed` + issued name + `_`) -/
theorem observer_decl_name (name : Str) (n : Nat) (d : Str × Nat) (h : observerDecl name n = some d) :
    d.1 = "observed".toList ++ name ++ "_".toList := by
  unfold observerDecl at h
  by_cases hn : n = 0
  · simp [hn] at h
  · simp only [hn, if_false, Option.some.injEq] at h
    subst h; rfl

/-! ### includes -/

/-- **Facilities used are included** (on the model's summary of the code): if any code body calls `Math.max/min`
    the header includes `<algorithm>`, if any calls `console.*` it includes `<QtDebug>`, if any takes the remainder of
    doubles (`std::fmod`) it includes `<cmath>`. -/
theorem includes_cover (objs : List Obj) :
    ((allUses objs).contains .max = true ∨ (allUses objs).contains .min = true → incAlgorithm ∈ systemIncludes objs) ∧
    ((allUses objs).contains .log = true → incQtDebug ∈ systemIncludes objs) ∧
    ((allUses objs).contains .fmod = true → incCmath ∈ systemIncludes objs) := by
  unfold systemIncludes
  refine ⟨?_, ?_, ?_⟩
  · intro h
    have hc : ((allUses objs).contains .max || (allUses objs).contains .min) = true := by
      rcases h with h | h
      · rw [h]; rfl
      · rw [h]; exact Bool.or_true _
    rw [if_pos hc]
    exact List.mem_append.2 (Or.inl (List.mem_append.2 (Or.inr (List.mem_singleton.2 rfl))))
  · intro h
    rw [if_pos h]
    exact List.mem_append.2 (Or.inl (List.mem_append.2 (Or.inl (List.mem_singleton.2 rfl))))
  · intro h
    rw [if_pos h]
    exact List.mem_append.2 (Or.inr (List.mem_singleton.2 rfl))

/-! ### operators as spelled in C++ (F3a, F24, F23 — repaired) -/

/-- **Every operator the type checker admits is spelled as something a C++17 compiler accepts on those operands**:
    arithmetic (`%` on doubles is `std::fmod`, recorded as a use of `<cmath>`), comparison (no ordering of pointers),
    bitwise operators with enumeration operands — unscoped, QFlags or scoped (`enum class`: printed as
    `static_cast<int>(operand)`), result cast back through `int` — for enumerations with and without
    `Q_DECLARE_OPERATORS_FOR_FLAGS`. -/
theorem ops_subset_cxx :
    (∀ (op : ArithOp) (t : PTy), implAcceptsArith op t = true →
        cxxAcceptsArith (spellArith op t) op t = true ∧
        (spellArith op t = .fmod → Builtin.fmod ∈ arithUses (spellArith op t))) ∧
    (∀ (op : CmpOp) (o : CmpOperands), implAcceptsCmp op o = true → cxxAcceptsCmp op o = true) ∧
    (∀ (flagOps : Bool) (op : BitOp) (l r : ETy), isEnumOperand l = true → isEnumOperand r = true →
        cxxAcceptsBit flagOps op l r = true) ∧
    (∀ (a : ETy), isEnumOperand a = true → cxxAcceptsNot a = true) := by
  refine ⟨?_, ?_, ?_, ?_⟩
  · intro op t h
    cases op <;> cases t <;> simp_all [implAcceptsArith, cxxAcceptsArith, cxxAcceptsInfix, spellArith, arithUses]
  · intro op o h
    cases o <;> simp_all [implAcceptsCmp, cxxAcceptsCmp]
  · intro f op l r _ _
    cases l <;> cases r <;> simp [cxxAcceptsBit, castScopedOperand, bitOperandOk, castable]
  · intro a _
    cases a <;> simp [cxxAcceptsNot, castScopedOperand, bitOperandOk, castable]

/-- the code before 4e55b2c: `v.scoped & v2.scoped2` and `~v.scoped` were printed with the operands as they are, but
    `enum class` values have no bitwise operators (finding F70, fixed) -/
theorem bit_scoped_old_refuted :
    (¬ ∀ (flagOps : Bool) (op : BitOp) (l r : ETy), isEnumOperand l = true → isEnumOperand r = true →
        cxxAcceptsBitPre70 flagOps op l r = true) ∧
    cxxAcceptsNotPre70 .scopedEnum = false := by
  refine ⟨?_, by decide⟩
  intro h
  exact absurd (h false .and .scopedEnum .scopedEnum (by decide) (by decide)) (by decide)

/-- the spelling of a scoped operand inside a bitwise expression, and how many `static_cast<int>(` an operation prints -/
example : formatBitwiseOperand true "a0".toList = "static_cast<int>(a0)".toList ∧ formatBitwiseOperand false "a0".toList = "a0".toList ∧
    bitwiseIntCasts ⟨false, true, true⟩ = 3 ∧ bitwiseIntCasts ⟨true, true, false⟩ = 2 ∧ bitwiseIntCasts ⟨false, false, false⟩ = 1 := by
  decide +kernel

/-- the code before 0f767b2: `double % double` was admitted and printed as `%` (finding F3a, fixed) -/
theorem ops_subset_cxx_old_refuted :
    ¬ ∀ (op : ArithOp) (t : PTy), implAcceptsArith op t = true → cxxAcceptsArith (spellArithOld op t) op t = true := by
  intro h
  exact absurd (h .rem .double (by decide)) (by decide)

/-- the code before 5a4a210: `pointer < null` was admitted, `a0 < nullptr` is ill-formed (finding F24, fixed) -/
theorem cmp_subset_cxx_old_refuted :
    ¬ ∀ (op : CmpOp) (o : CmpOperands), implAcceptsCmpOld op o = true → cxxAcceptsCmp op o = true := by
  intro h
  exact absurd (h .lt .pointerNull (by decide)) (by decide)

/-- the code before 17832f1: `enum & enum` is `int`, which does not convert to the enumeration-typed local; neither
    does `FlagA & flags` to `QFlags`, nor `~enum` (finding F23, fixed) -/
theorem bit_subset_cxx_old_refuted :
    (¬ ∀ (flagOps : Bool) (op : BitOp) (l r : ETy), isEnumOperand l = true → isEnumOperand r = true →
        cxxAcceptsBitOld flagOps op l r = true) ∧
    cxxAcceptsBitOld true .and .enum .qflags = false ∧ cxxAcceptsNotOld .enum = false := by
  refine ⟨?_, by decide, by decide⟩
  intro h
  exact absurd (h false .and .enum .enum (by decide) (by decide)) (by decide)

/-! ### enumerator operands -/

/-- C++ [dcl.enum]: the enumerators of an unscoped enumeration are declared in the scope that contains the
    enum-specifier (and may also be named through the enumeration); those of a scoped enumeration (`enum class`) can
    ONLY be named through the enumeration.  `parent` = the qualified name of that containing class/namespace. -/
def cxxNamesEnumerator (u : EnumUse) (spelling : Str) : Bool :=
  spelling == u.parent ++ scopeSep ++ u.enumName ++ scopeSep ++ u.variant ||
  (!u.isScoped && spelling == u.parent ++ scopeSep ++ u.variant)

/-- **Every enumerator operand is spelled by a qualified name that denotes it**, scoped or not. -/
theorem enumerator_spelling_resolves (u : EnumUse) : cxxNamesEnumerator u (qualifyCxxVariantName u) = true := by
  unfold cxxNamesEnumerator qualifyCxxVariantName
  cases h : u.isScoped <;> simp

/-- dropping the parent scope of a scoped enumerator (`ExclusionPolicy::Exclusive` for
    `QActionGroup::ExclusionPolicy::Exclusive`) does not name it -/
example : cxxNamesEnumerator ⟨"QActionGroup".toList, "ExclusionPolicy".toList, true, "Exclusive".toList⟩
    "ExclusionPolicy::Exclusive".toList = false ∧
    qualifyCxxVariantName ⟨"QActionGroup".toList, "ExclusionPolicy".toList, true, "Exclusive".toList⟩
      = "QActionGroup::ExclusionPolicy::Exclusive".toList ∧
    qualifyCxxVariantName ⟨"Qt".toList, "Alignment".toList, false, "AlignLeft".toList⟩ = "Qt::AlignLeft".toList := by
  decide +kernel

/-! ### signal pointers -/

/-- the convention of the Qt headers (and of tools/gen_mock_decls.py) for a signal parameter whose normalised type is
    recorded in the metatypes: values of class type — QString, QVariant, containers, gadgets — are taken by reference to
    const, everything else (arithmetic types, enumerations, QFlags, pointers) by value -/
def declaredParam (a : Str × ArgKind) : Str :=
  match a.2 with
  | .prim | .enum | .pointer => a.1
  | .qstring | .qvariant | .cls | .list => "const ".toList ++ a.1 ++ " &".toList

/-- **`QOverload<Args…>::of` names the declared signal**: it selects a member only by its EXACT parameter list, and the
    list printed by `format_signal_pointer` is the declared one, argument by argument — lists and gadgets included. -/
theorem signal_pointer_matches_declaration (u : SignalUse) :
    u.args.map overloadArg = u.args.map declaredParam := by
  apply List.map_congr_left
  intro a _
  rcases a with ⟨t, k⟩
  cases k <;> simp [overloadArg, declaredParam, isConstRefPreferred]

example : formatSignalPointer ⟨"QFileDialog".toList, "filesSelected".toList, [("QStringList".toList, .list)]⟩
      = "QOverload<const QStringList &>::of(&QFileDialog::filesSelected)".toList ∧
    formatSignalPointer ⟨"WBase".toList, "sigMix2".toList,
        [("QStringList".toList, .list), ("int".toList, .prim), ("WBase*".toList, .pointer)]⟩
      = "QOverload<const QStringList &, int, WBase*>::of(&WBase::sigMix2)".toList ∧
    formatSignalPointer ⟨"QAbstractButton".toList, "clicked".toList, []⟩ = "QOverload<>::of(&QAbstractButton::clicked)".toList ∧
    formatNonFinite .negInf = "-qInf()".toList := by
  decide +kernel

/-! ### `std::max/std::min` (F13 — repaired) -/

/-- **Both arguments of every admitted `Math.max/min` call are accepted by `std::max/min` as spelled**: same type for
    deduction, or the explicit `<uint>` when a `uint` value meets an integer literal. -/
theorem builtin_calls_welltyped (a b : MaxArg) (h : implAcceptsMax a b = true) : cxxAcceptsMax a b = true := by
  cases a with
  | typed s => cases b with
    | typed t =>
      cases s <;> cases t <;>
        simp_all [implAcceptsMax, cxxAcceptsMax, uintTemplateArgument, MaxArg.cxxType, convertsToUint]
    | intLiteral =>
      cases s <;> simp_all [implAcceptsMax, cxxAcceptsMax, uintTemplateArgument, MaxArg.cxxType, convertsToUint]
  | intLiteral => cases b with
    | typed t =>
      cases t <;> simp_all [implAcceptsMax, cxxAcceptsMax, uintTemplateArgument, MaxArg.cxxType, convertsToUint]
    | intLiteral => simp [cxxAcceptsMax, uintTemplateArgument, MaxArg.cxxType]

/-- the code before bd13865: `std::max(a1, 1)` with `a1 : uint` deduces `uint` and `int` (finding F13, fixed) -/
theorem builtin_calls_welltyped_old_refuted :
    ¬ ∀ (a b : MaxArg), implAcceptsMax a b = true → cxxAcceptsMaxOld a b = true := by
  intro h
  exact absurd (h (.typed .uint) .intLiteral (by decide)) (by decide)

/-! ### string literals (F3b — repaired) -/

open QV.Spec.CxxLit

/-- the element a character becomes: escaped characters are numeric/simple escapes (one element with the character's
    value), everything else is the character itself -/
def elemOf (c : Char) : Elem :=
  if c = '"' ∨ c = '\\' ∨ c = '\n' ∨ c = '\r' ∨ c = '\t' ∨ isCxxControl c = true then .unit c.toNat else .cp c.toNat

theorem octVal_digit : ∀ (k : Nat), k < 8 → octVal (octDigit k) = some k
  | 0, _ => by decide
  | 1, _ => by decide
  | 2, _ => by decide
  | 3, _ => by decide
  | 4, _ => by decide
  | 5, _ => by decide
  | 6, _ => by decide
  | 7, _ => by decide
  | k + 8, h => absurd h (by omega)

/-- **a three-digit octal escape is read as ONE element and cannot absorb what follows** (whatever `R` starts with) -/
theorem octal3_read (n : Nat) (hn : n < 512) (R : Str) :
    elements .normal ('\\' :: (octal3 n ++ R)) = (elements .normal R).map (Elem.unit n :: ·) := by
  have h1 := octVal_digit (n / 64 % 8) (Nat.mod_lt _ (by decide))
  have h2 := octVal_digit (n / 8 % 8) (Nat.mod_lt _ (by decide))
  have h3 := octVal_digit (n % 8) (Nat.mod_lt _ (by decide))
  have hv : (n / 64 % 8 * 8 + n / 8 % 8) * 8 + n % 8 = n := by omega
  simp only [octal3, List.cons_append, List.nil_append, elements, h1, h2, h3]
  simp [hv]

/-- reading the spelling of one character -/
theorem step (c : Char) (R : Str) :
    elements .normal (escapeCxxChar c ++ R) = (elements .normal R).map (elemOf c :: ·) := by
  unfold escapeCxxChar
  by_cases h1 : c = '"'
  · subst h1; simp [elements, octVal, simpleEscape, elemOf]
  · by_cases h2 : c = '\\'
    · subst h2; simp [elements, octVal, simpleEscape, elemOf]
    · by_cases h3 : c = '\n'
      · subst h3; simp [elements, octVal, simpleEscape, elemOf]
      · by_cases h4 : c = '\r'
        · subst h4; simp [elements, octVal, simpleEscape, elemOf]
        · by_cases h5 : c = '\t'
          · subst h5; simp [elements, octVal, simpleEscape, elemOf]
          · by_cases h6 : isCxxControl c = true
            · have hn : c.toNat < 512 := by
                simp only [isCxxControl, Bool.or_eq_true, decide_eq_true_eq, beq_iff_eq] at h6
                omega
              simp only [h1, h2, h3, h4, h5, h6, if_false, if_true]
              rw [List.cons_append, octal3_read _ hn]
              simp [elemOf, h6]
            · simp [h1, h2, h3, h4, h5, h6, elements, plain, elemOf]

theorem elements_fmt : ∀ (s : Str), elements .normal (formatStringLiteral s) = some (s.map elemOf) := by
  intro s
  induction s with
  | nil => simp [formatStringLiteral, elements]
  | cons c rest ih =>
    have hfmt : formatStringLiteral (c :: rest) = escapeCxxChar c ++ formatStringLiteral rest := by
      simp [formatStringLiteral, List.flatMap_cons]
    rw [hfmt, step, ih]
    simp

/-- every escaped character is ASCII -/
theorem escaped_lt_128 (c : Char)
    (h : c = '"' ∨ c = '\\' ∨ c = '\n' ∨ c = '\r' ∨ c = '\t' ∨ isCxxControl c = true) : c.toNat < 128 := by
  rcases h with h | h | h | h | h | h
  · subst h; decide
  · subst h; decide
  · subst h; decide
  · subst h; decide
  · subst h; decide
  · simp only [isCxxControl, Bool.or_eq_true, decide_eq_true_eq, beq_iff_eq] at h
    omega

theorem encode_elems16 : ∀ (s : Str), encodeWith utf16 0xFFFF (s.map elemOf) = some (units16 s) := by
  intro s
  induction s with
  | nil => simp [encodeWith, units16]
  | cons c rest ih =>
    have hcons : units16 (c :: rest) = utf16 c.toNat ++ units16 rest := by simp [units16, List.flatMap_cons]
    simp only [List.map_cons, hcons]
    by_cases h : (c = '"' ∨ c = '\\' ∨ c = '\n' ∨ c = '\r' ∨ c = '\t' ∨ isCxxControl c = true)
    · have he : elemOf c = Elem.unit c.toNat := by simp [elemOf, h]
      have hlt := escaped_lt_128 c h
      have hv : c.toNat ≤ 0xFFFF := by omega
      have hu : utf16 c.toNat = [c.toNat] := by
        unfold utf16
        have : c.toNat < 0x10000 := by omega
        simp [this]
      rw [he]
      simp [encodeWith, hv, ih, hu]
    · have he : elemOf c = Elem.cp c.toNat := by simp [elemOf, h]
      rw [he]
      simp [encodeWith, ih]

theorem encode_elems8 : ∀ (s : Str), encodeWith utf8 0xFF (s.map elemOf) = some (bytes8 s) := by
  intro s
  induction s with
  | nil => simp [encodeWith, bytes8]
  | cons c rest ih =>
    have hcons : bytes8 (c :: rest) = utf8 c.toNat ++ bytes8 rest := by simp [bytes8, List.flatMap_cons]
    simp only [List.map_cons, hcons]
    by_cases h : (c = '"' ∨ c = '\\' ∨ c = '\n' ∨ c = '\r' ∨ c = '\t' ∨ isCxxControl c = true)
    · have he : elemOf c = Elem.unit c.toNat := by simp [elemOf, h]
      have hlt := escaped_lt_128 c h
      have hv : c.toNat ≤ 0xFF := by omega
      have hu : utf8 c.toNat = [c.toNat] := by
        unfold utf8
        have : c.toNat < 0x80 := by omega
        simp [this]
      rw [he]
      simp [encodeWith, hv, ih, hu]
    · have he : elemOf c = Elem.cp c.toNat := by simp [elemOf, h]
      rw [he]
      simp [encodeWith, ih]

/-- **String literals denote the source strings** — for EVERY string of Unicode scalar values: the spelling written
    into `QStringLiteral("…")` (a `u"…"` literal) is read by a C++17 compiler as exactly the UTF-16 code units of the
    string (NUL, control characters followed by digits, quotes, backslashes, non-ASCII and astral characters included). -/
theorem literal_roundtrip (s : Str) : decode16 (formatStringLiteral s) = some (units16 s) := by
  unfold decode16
  rw [elements_fmt s]
  exact encode_elems16 s

/-- … and the ordinary literals (`QCoreApplication::translate("…", "…")`, `qDebug() << "…"`) are the UTF-8 bytes -/
theorem literal_roundtrip_narrow (s : Str) : decode8 (formatStringLiteral s) = some (bytes8 s) := by
  unfold decode8
  rw [elements_fmt s]
  exact encode_elems8 s

/-! #### the former printer (Rust `{:?}`, before 5f82544): witnesses of finding F3b (fixed) -/

/-- witness 1: U+0001 was spelled `\u{1}`, which is not a C++17 escape sequence -/
theorem literal_control_char_witness :
    formatStringLiteralOld ['\x01'] = ['\\', 'u', '{', '1', '}'] ∧ decode16 (formatStringLiteralOld ['\x01']) = none := by
  decide +kernel

/-- witness 2: NUL followed by "12" was spelled `\012`, which a C++ compiler reads as ONE character, LF -/
theorem literal_nul_digit_witness :
    formatStringLiteralOld ['\x00', '1', '2'] = ['\\', '0', '1', '2'] ∧
    decode16 (formatStringLiteralOld ['\x00', '1', '2']) = some [10] ∧ units16 ['\x00', '1', '2'] = [0, 49, 50] := by
  decide +kernel

theorem literal_roundtrip_old_refuted : ¬ ∀ s : Str, decode16 (formatStringLiteralOld s) = some (units16 s) := by
  intro h
  have h1 := h ['\x01']
  rw [literal_control_char_witness.2] at h1
  exact absurd h1 (by simp)

/-- the repaired printer on the two witnesses -/
example : formatStringLiteral ['\x01'] = ['\\', '0', '0', '1'] ∧
    formatStringLiteral ['\x00', '1', '2'] = ['\\', '0', '0', '0', '1', '2'] := by decide +kernel

/-- the element a character should become -/
def elemOfOld (c : Char) : Elem :=
  if c = '\x00' ∨ c = '\t' ∨ c = '\r' ∨ c = '\n' ∨ c = '\\' ∨ c = '"' then .unit c.toNat else .cp c.toNat

def headNotOctal : Str → Bool
  | [] => true
  | d :: _ => (octVal d).isNone

/-- the strings on which the round trip holds: no character that `{:?}` prints as `\u{…}`, and no NUL directly
    followed by an octal digit -/
def goodStr (uni : Char → Bool) : Str → Bool
  | [] => true
  | c :: rest => !uni c && (c != '\x00' || headNotOctal rest) && goodStr uni rest

theorem octal_flush (v n : Nat) : ∀ (R : Str), headNotOctal R = true →
    elements (.octal v n) R = (elements .normal R).map (Elem.unit v :: ·) := by
  intro R h
  cases R with
  | nil => simp [elements]
  | cons c rest =>
    simp only [headNotOctal, Option.isNone_iff_eq_none] at h
    simp only [elements, h]
    by_cases hb : c = '\\'
    · simp [hb]
    · simp [hb]

theorem fmt_head (uni : Char → Bool) (d : Char) (rest : Str) (hd : (octVal d).isNone = true) :
    headNotOctal (escapeDebugChar uni d ++ rest) = true := by
  unfold escapeDebugChar
  split
  · simp [headNotOctal, octVal]
  · split
    · simp [headNotOctal, octVal]
    · split
      · simp [headNotOctal, octVal]
      · split
        · simp [headNotOctal, octVal]
        · split
          · simp [headNotOctal, octVal]
          · split
            · simp [headNotOctal, octVal]
            · split
              · simp [headNotOctal, octVal]
              · simpa [headNotOctal] using hd

/-- reading the spelling of one character that is not `\u{…}`-escaped -/
theorem stepOld (uni : Char → Bool) (c : Char) (R : Str) (hu : uni c = false) :
    elements .normal (escapeDebugChar uni c ++ R) =
      if c = '\x00' then elements (.octal 0 1) R else (elements .normal R).map (elemOfOld c :: ·) := by
  unfold escapeDebugChar
  by_cases h0 : c = '\x00'
  · subst h0; simp [elements, octVal]
  · by_cases h1 : c = '\t'
    · subst h1; simp [elements, octVal, simpleEscape, elemOfOld]
    · by_cases h2 : c = '\r'
      · subst h2; simp [elements, octVal, simpleEscape, elemOfOld]
      · by_cases h3 : c = '\n'
        · subst h3; simp [elements, octVal, simpleEscape, elemOfOld]
        · by_cases h4 : c = '\\'
          · subst h4; simp [elements, octVal, simpleEscape, elemOfOld]
          · by_cases h5 : c = '"'
            · subst h5; simp [elements, octVal, simpleEscape, elemOfOld]
            · simp [h0, h1, h2, h3, h4, h5, hu, elements, plain, elemOfOld]

theorem elements_fmtOld (uni : Char → Bool) : ∀ (s : Str), goodStr uni s = true →
    elements .normal (formatStringLiteralWith uni s) = some (s.map elemOfOld) := by
  intro s
  induction s with
  | nil => intro _; simp [formatStringLiteralWith, elements]
  | cons c rest ih =>
    intro hg
    simp only [goodStr, Bool.and_eq_true, Bool.not_eq_true', Bool.or_eq_true, bne_iff_ne, ne_eq] at hg
    obtain ⟨⟨hu, hn⟩, hr⟩ := hg
    have ihr := ih hr
    have hfmt : formatStringLiteralWith uni (c :: rest) = escapeDebugChar uni c ++ formatStringLiteralWith uni rest := by
      simp [formatStringLiteralWith, List.flatMap_cons]
    rw [hfmt, stepOld uni c _ hu]
    by_cases h0 : c = '\x00'
    · simp only [h0, if_true]
      have hno : headNotOctal (formatStringLiteralWith uni rest) = true := by
        cases rest with
        | nil => simp [formatStringLiteralWith, headNotOctal]
        | cons d tl =>
          have hd : (octVal d).isNone = true := by
            rcases hn with hn | hn
            · exact absurd h0 hn
            · simpa [headNotOctal] using hn
          have : formatStringLiteralWith uni (d :: tl) = escapeDebugChar uni d ++ formatStringLiteralWith uni tl := by
            simp [formatStringLiteralWith, List.flatMap_cons]
          rw [this]
          exact fmt_head uni d _ hd
      rw [octal_flush 0 1 _ hno, ihr]
      simp [elemOfOld]
    · simp only [h0, if_false]
      rw [ihr]
      simp

theorem encode_elemsOld : ∀ (s : Str), encodeWith utf16 0xFFFF (s.map elemOfOld) = some (units16 s) := by
  intro s
  induction s with
  | nil => simp [encodeWith, units16]
  | cons c rest ih =>
    have hcons : units16 (c :: rest) = utf16 c.toNat ++ units16 rest := by simp [units16, List.flatMap_cons]
    simp only [List.map_cons, hcons]
    by_cases h : (c = '\x00' ∨ c = '\t' ∨ c = '\r' ∨ c = '\n' ∨ c = '\\' ∨ c = '"')
    · have he : elemOfOld c = Elem.unit c.toNat := by simp [elemOfOld, h]
      have hv : c.toNat ≤ 0xFFFF := by
        rcases h with h | h | h | h | h | h <;> subst h <;> decide
      have hu : utf16 c.toNat = [c.toNat] := by
        unfold utf16
        have : c.toNat < 0x10000 := by omega
        simp [this]
      rw [he]
      simp [encodeWith, hv, ih, hu]
    · have he : elemOfOld c = Elem.cp c.toNat := by simp [elemOfOld, h]
      rw [he]
      simp [encodeWith, ih]

/-- the characterisation of the former printer: it was right exactly on strings without `\u{…}`-escaped characters and
    without NUL-before-octal-digit (for ANY Unicode table) -/
theorem literal_roundtrip_old_partial (uni : Char → Bool) (s : Str) (h : goodStr uni s = true) :
    decode16 (formatStringLiteralWith uni s) = some (units16 s) := by
  unfold decode16
  rw [elements_fmtOld uni s h]
  exact encode_elemsOld s

/-! ### non-vacuity -/

example : decode16 (formatStringLiteral "a\"b\\\n".toList) = some [97, 34, 98, 92, 10] := by decide +kernel
example : decode16 (formatStringLiteral ['q', '\x01', '7', '́', '😀']) = some [113, 1, 55, 769, 55357, 56832] := by
  decide +kernel
example : goodStr QV.Model.RustDebugTable.needsUnicodeEscape ['\x00', '7'] = false := by decide +kernel
example : spellArith .rem .double = .fmod ∧ spellArith .rem .int = .infix ∧ uintTemplateArgument (.typed .uint) .intLiteral = true ∧
    uintTemplateArgument (.typed .int) .intLiteral = false := by decide

/-- colliding prefixes: `foo`+`windowTitle` and `fooWindow`+`title` (and `title1`) get distinct names -/
example :
    (build [
      { name := "foo".toList, props := [[{ depth := 0, name := "windowTitle".toList, kind := .expr { dynamic := true, observers := 0, uses := [], lits := [] } }]],
        callbacks := [] },
      { name := "fooWindow".toList,
        props := [[{ depth := 0, name := "title".toList, kind := .expr { dynamic := true, observers := 0, uses := [], lits := [] } }],
                  [{ depth := 0, name := "title1".toList, kind := .expr { dynamic := true, observers := 0, uses := [], lits := [] } }]],
        callbacks := [] }]).map (·.indexEnum.map String.ofList)
      = some ["FooWindowTitle", "FooWindowTitle1", "FooWindowTitle11"] := by
  decide +kernel

example : guardDecl 0 = none ∧ guardDecl 32 = some 1 ∧ guardDecl 33 = some 2 ∧ guardWord 40 = 1 ∧ guardBit 40 = 8 := by
  decide

example : allocObservers 0 [1, 0, 2] = ([[0], [], [1, 2]], 3) := by decide

end QV.Props.C16
