/-
  C12 — Layout items land in the documented cells; per-row/column settings follow.

  Model : QV.Model.Layout (mirrors lib/src/uigen/layout.rs: LayoutIndexCounter, maybe_parse_layout_index,
          maybe_insert_into_opt_i32_array, process_{grid,form,vbox,hbox}_layout_children)
  Spec  : QV.Spec.Layout  (place / advance / cells on ℕ; "first value given for an index is recorded")
  Tie   : harness stream `c12` — generated grids/forms/boxes through the real pipeline; the `<item>`
          attributes and the layout's array attributes of the real .ui are compared with the model
          (kind=model) and with the specification (kind=spec).

  One clause of the property is FALSE of the code (finding F9): the row minimum height is recorded at the
  child's *column*.  It is refuted below by a concrete witness; what does hold is stated as `…_partial`.
-/
import QV.Proofs.Layout

namespace QV.Props.C12
open QV.Model.Layout QV.Spec.Layout QV.Proofs.Layout

/-- **Cells and arrays of a grid layout, for every flow, wrap count and child sequence.**
    With `cs` the cells the *specification* assigns (explicit indexes honoured iff in range):
    * child `k` is emitted at `cs[k]`, its spans copied;
    * `columnstretch`, `columnminimumwidth` record, per column index, the first value given by a child in
      that column; `rowstretch` per row index likewise;
    * `rowminimumheight` is recorded per **column** index (F9) — see `row_min_height_at_row_refuted`. -/
theorem grid_cells_and_arrays_partial (ltr : Bool) (n : Nat) (hn : 0 < n) (children : List Attached) :
    let res := processGrid (flowOf ltr n) children
    let cs := specCells ltr n (0, 0) (children.map fun a => (a.row, a.column))
    res.2.1 = List.zipWith (fun (p : Nat × Nat) a => Item.ofAttached (some (p.1 : Int)) (some (p.2 : Int)) a) cs children
    ∧ Repr res.1.columnMinimumWidth (absorb [] (entriesOf (cs.map (·.2)) (children.map (·.columnMinimumWidth))))
    ∧ Repr res.1.columnStretch (absorb [] (entriesOf (cs.map (·.2)) (children.map (·.columnStretch))))
    ∧ Repr res.1.rowMinimumHeight (absorb [] (entriesOf (cs.map (·.2)) (children.map (·.rowMinimumHeight))))
    ∧ Repr res.1.rowStretch (absorb [] (entriesOf (cs.map (·.1)) (children.map (·.rowStretch))))
    ∧ res.1.stretch = [] := by
  have h0 : (if ltr then (0 : Nat) < n else (0 : Nat) < n) := by cases ltr <;> simpa using hn
  exact gridGo_spec ltr n hn children 0 0 h0 {} [] [] [] [] repr_nil repr_nil repr_nil repr_nil

/-- The full statement the property makes about the row minimum height (recorded at the child's *row*). -/
def row_min_height_at_row_full_statement : Prop :=
  ∀ (ltr : Bool) (n : Nat), 0 < n → ∀ children : List Attached,
    let res := processGrid (flowOf ltr n) children
    let cs := specCells ltr n (0, 0) (children.map fun a => (a.row, a.column))
    Repr res.1.rowMinimumHeight (absorb [] (entriesOf (cs.map (·.1)) (children.map (·.rowMinimumHeight))))

/-- F9: refuted by one child at row 1, column 0 with `rowMinimumHeight: 20` in a 2-column grid: the code
    records `[20]` (index 0 = its column) where the property demands `[_, 20]` (index 1 = its row). -/
theorem row_min_height_at_row_refuted : ¬ row_min_height_at_row_full_statement := by
  intro h
  have := (h true 2 (by decide) [{ row := some 1, column := some 0, rowMinimumHeight := some 20 }]).1
  revert this
  decide

/-- What `Repr` means for the text written into the `.ui`: the formatted array has one slot per index up
    to the largest one set, each holding the recorded value or the default. -/
theorem format_of_repr {arr : List (Option Int)} {seen : List (Nat × Int)} (h : Repr arr seen) (d : Int) :
    formatArray arr d = array seen d := by
  obtain ⟨hlen, hget⟩ := h
  apply List.ext_getElem
  · simp [formatArray, array, hlen]
  · intro i h1 h2
    simp only [formatArray, array, List.getElem_map, List.getElem_range]
    have hi : i < arr.length := by simpa [formatArray] using h1
    have := hget i
    rw [List.getD_eq_getElem?_getD, List.getElem?_eq_getElem hi] at this
    simp at this
    rw [this]

/-- What is recorded for index `i` is the first value given for `i` (so later different values can only be
    conflicts), for any order of children. -/
theorem recorded_first (entries : List (Nat × Int)) (i : Nat) :
    recorded (absorb [] entries) i = recorded entries i := by
  simpa using recorded_absorb [] entries i

/-- A conflicting value is diagnosed (quoting the recorded one) and does not overwrite it; an equal or
    first value is stored silently. -/
theorem conflict_diagnosed {arr : List (Option Int)} {seen : List (Nat × Int)} (h : Repr arr seen)
    (j : Nat) (v v0 : Int) (hr : recorded seen j = some v0) (hne : v0 ≠ v) :
    (maybeInsert arr j (some v)).2 = [.mismatch v0] ∧ Repr (maybeInsert arr j (some v)).1 seen := by
  have := maybeInsert_repr h j v
  rw [hr] at this
  simp only at this
  rw [if_pos hne] at this
  exact ⟨this.2, this.1⟩

theorem no_spurious_conflict {arr : List (Option Int)} {seen : List (Nat × Int)} (h : Repr arr seen)
    (j : Nat) (v : Int) (hr : recorded seen j = none ∨ recorded seen j = some v) :
    (maybeInsert arr j (some v)).2 = [] := by
  have := maybeInsert_repr h j v
  rcases hr with hr | hr
  · rw [hr] at this; exact this.2
  · rw [hr] at this
    simp only at this
    rw [if_neg (by simp)] at this
    exact this.2

/-- Out-of-range explicit indexes are diagnosed and ignored; in-range ones are honoured silently. -/
theorem index_checks (field : String) (v max : Int) :
    (v < 0 → parseIndex field (some v) max = (none, [.negativeIndex field])) ∧
    (0 ≤ v → v > max → parseIndex field (some v) max = (none, [.indexTooLarge field])) ∧
    (0 ≤ v → v ≤ max → parseIndex field (some v) max = (some v, [])) := by
  refine ⟨fun h => by simp [parseIndex, h], fun h1 h2 => ?_, fun h1 h2 => ?_⟩
  · have : ¬ v < 0 := by omega
    simp [parseIndex, this, h2]
  · have a : ¬ v < 0 := by omega
    have b : ¬ v > max := by omega
    simp [parseIndex, a, b]

/-! ### auto-flow closed form -/

theorem advance_div_mod (ltr : Bool) (n k : Nat) (hn : 0 < n) :
    advance ltr n (if ltr then (k / n, k % n) else (k % n, k / n))
      = (if ltr then ((k + 1) / n, (k + 1) % n) else ((k + 1) % n, (k + 1) / n)) := by
  have hmod : k % n < n := Nat.mod_lt _ hn
  have hk : k = n * (k / n) + k % n := (Nat.div_add_mod k n).symm
  have key : (k % n + 1 = n → (k + 1) / n = k / n + 1 ∧ (k + 1) % n = 0) ∧
             (k % n + 1 ≠ n → (k + 1) / n = k / n ∧ (k + 1) % n = k % n + 1) := by
    constructor
    · intro h
      have : k + 1 = n * (k / n + 1) := by rw [Nat.mul_add, Nat.mul_one]; omega
      rw [this, Nat.mul_div_cancel_left _ hn, Nat.mul_mod_right]; exact ⟨rfl, rfl⟩
    · intro h
      have hlt : k % n + 1 < n := by omega
      have : k + 1 = n * (k / n) + (k % n + 1) := by omega
      constructor
      · rw [this, Nat.mul_add_div hn, Nat.div_eq_of_lt hlt]; rfl
      · rw [this, Nat.mul_add_mod, Nat.mod_eq_of_lt hlt]
  cases ltr with
  | true =>
    simp only [advance, if_true]
    by_cases h : k % n + 1 = n
    · simp [h, key.1 h]
    · simp [h, key.2 h]
  | false =>
    simp only [advance, Bool.false_eq_true, if_false]
    by_cases h : k % n + 1 = n
    · simp [h, key.1 h]
    · simp [h, key.2 h]

/-- **Auto-flow**: with no explicit positions, the children after cell number `k` occupy the cells numbered
    `k, k+1, …` — `(i / n, i % n)` left-to-right, `(i % n, i / n)` top-to-bottom. -/
theorem autoflow_closed_form (ltr : Bool) (n : Nat) (hn : 0 < n) (m k : Nat) :
    specCells ltr n (if ltr then (k / n, k % n) else (k % n, k / n)) (List.replicate m (none, none))
      = (List.range' k m).map fun i => if ltr then (i / n, i % n) else (i % n, i / n) := by
  induction m generalizing k with
  | zero => rfl
  | succ m ih =>
    simp only [List.replicate_succ, specCells, List.range'_succ, List.map_cons]
    have hp : specPlace ltr n (if ltr then (k / n, k % n) else (k % n, k / n)) none none
        = (if ltr then (k / n, k % n) else (k % n, k / n)) := by
      simp [specPlace, validIndex, place]
    rw [hp, advance_div_mod ltr n k hn, ih (k + 1)]

/-- … and therefore child `k` of a grid without explicit positions is emitted at `(k / n, k % n)`
    (resp. `(k % n, k / n)`). -/
theorem autoflow_grid (ltr : Bool) (n : Nat) (hn : 0 < n) (children : List Attached)
    (hauto : ∀ a ∈ children, a.row = none ∧ a.column = none) :
    (processGrid (flowOf ltr n) children).2.1 =
      List.zipWith (fun (i : Nat) a =>
          let p := if ltr then (i / n, i % n) else (i % n, i / n)
          Item.ofAttached (some (p.1 : Int)) (some (p.2 : Int)) a)
        (List.range children.length) children := by
  have h := (grid_cells_and_arrays_partial ltr n hn children).1
  have hmap : (children.map fun a => (a.row, a.column)) = List.replicate children.length (none, none) := by
    apply List.eq_replicate_iff.mpr
    refine ⟨by simp, ?_⟩
    intro b hb
    obtain ⟨a, ha, rfl⟩ := List.mem_map.mp hb
    obtain ⟨h1, h2⟩ := hauto a ha
    simp [h1, h2]
  have h00 : ((0 : Nat), (0 : Nat)) = (if ltr then (0 / n, 0 % n) else (0 % n, 0 / n)) := by
    cases ltr <;> simp
  rw [h, hmap, h00, autoflow_closed_form ltr n hn, List.range_eq_range']
  simp [List.zipWith_map_left]

/-! ### form layout and box layouts -/

theorem formGo_spec (children : List Attached) :
    ∀ (r0 c0 : Nat) (_hc : c0 < 2),
    (formGo ⟨flowOf true 2, r0, c0⟩ children).1 =
      List.zipWith (fun (p : Nat × Nat) a => Item.ofAttached (some (p.1 : Int)) (some (p.2 : Int)) a)
        (specCells true 2 (r0, c0) (children.map fun a => (a.row, a.column))) children := by
  induction children with
  | nil => intro _ _ _; rfl
  | cons a rest ih =>
    intro r0 c0 hc
    obtain ⟨hstep, hinv⟩ := parseNext_spec true 2 (by decide) r0 c0 (by simpa using hc) a.row a.column
    generalize hp : specPlace true 2 (r0, c0) a.row a.column = p at hstep hinv
    obtain ⟨pr, pc⟩ := p
    simp only [formGo, List.map_cons, specCells, hp]
    have hpn : Counter.parseNext ⟨flowOf true 2, r0, c0⟩ a.row a.column =
        ((((pr : Int), (pc : Int)), ⟨flowOf true 2, ((advance true 2 (pr, pc)).1 : Int), ((advance true 2 (pr, pc)).2 : Int)⟩),
          (Counter.parseNext ⟨flowOf true 2, r0, c0⟩ a.row a.column).2) := by
      rw [← hstep]
    rw [hpn]
    simp only [List.zipWith_cons_cons]
    rw [ih _ _ (by simpa using hinv)]

/-- **Form layout**: a fixed two-column left-to-right flow under the same placement rule. -/
theorem form_cells (children : List Attached) :
    (processForm children).2.1 =
      List.zipWith (fun (p : Nat × Nat) a => Item.ofAttached (some (p.1 : Int)) (some (p.2 : Int)) a)
        (specCells true 2 (0, 0) (children.map fun a => (a.row, a.column))) children := by
  have := formGo_spec children 0 0 (by decide)
  simpa [processForm, Counter.new, flowOf] using this

theorem boxGo_spec (vertical : Bool) (children : List Attached) :
    ∀ (index : Nat) (stretch : List (Option Int)) (seen : List (Nat × Int)) (_h : Repr stretch seen),
    Repr (boxGo vertical index stretch children).1
      (absorb seen (entriesOf (List.range' index children.length)
        (children.map fun a => if vertical then a.rowStretch else a.columnStretch))) := by
  induction children with
  | nil => intro _ _ _ h; simpa [boxGo, entriesOf, absorb] using h
  | cons a rest ih =>
    intro index stretch seen h
    simp only [boxGo, List.length_cons, List.range'_succ, List.map_cons, entriesOf, absorb_append]
    exact ih (index + 1) _ _ (maybeInsert_absorb h index _)

/-- **Box layouts** record the stretch of child `k` at position `k` (vbox: its rowStretch, hbox: its
    columnStretch); items carry no cell. -/
theorem box_stretch_at_position (vertical : Bool) (children : List Attached) :
    Repr (processBox vertical children).1.stretch
      (absorb [] (entriesOf (List.range children.length)
        (children.map fun a => if vertical then a.rowStretch else a.columnStretch))) := by
  have := boxGo_spec vertical children 0 [] [] repr_nil
  simpa [processBox, List.range_eq_range'] using this

/-! ### non-vacuity: concrete inputs exercising the hypotheses and both flows -/

example : (processGrid (.leftToRight 2) [{}, {}, {}, { row := some 2 }, {}, { column := some 1 }]).2.1.map
    (fun it => (it.row, it.column)) =
    [(some 0, some 0), (some 0, some 1), (some 1, some 0), (some 2, some 0), (some 2, some 1), (some 3, some 1)] := by
  decide
example : (processGrid (.topToBottom 3) [{}, {}, {}, {}, { column := some 3 }, { row := some 2 }]).2.1.map
    (fun it => (it.row, it.column)) =
    [(some 0, some 0), (some 1, some 0), (some 2, some 0), (some 0, some 1), (some 0, some 3), (some 2, some 3)] := by
  decide
example : (processGrid (.leftToRight 3)
    [{ columnStretch := some 3 }, { columnStretch := some 4 }, {}, { columnStretch := some 9 }]).2.2 = [.mismatch 3] := by
  decide

end QV.Props.C12
