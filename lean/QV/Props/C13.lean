/-
  C13 — signal callbacks are wired to the right signal and do what the source says.

  Model: `QV.Model.Callback` (`callback_to_signal_name` from QV.Model.Names, `uniquify_methods`,
  `build_properties_callbacks`, `verify_callback_parameter_type`, the connect + lambda text of `CxxCallback`), tied to the
  real code by stream c13 (`c13-body`: exact text of the real `setup…()` / `on…()` functions, or the exact rejection
  messages).  Effects: `QV.Spec.Sem` (trace of property writes, method calls, log calls in JavaScript evaluation order) vs
  the trace recorded by the runtime mock when the real header is compiled and the signal is emitted (`spec-c13`).

  Proved for every input:
  * `signal_name_some_iff`, `signal_name_rejects`   the name mapping is defined exactly on `on[A-Z]…` and yields the
                                                    rest with its first letter lower-cased;
    `signal_name_injective`                         it is injective on its domain;
  * `uniquify_single`                               a unique method is itself;
    `chain_some`, `chain_none_iff`                  the pop loop returns the LAST overload iff every overload extends its
                                                    predecessor (same kind, same return type, leading arguments equal);
    `sortDesc_mem`, `sortDesc_sorted`               the loop runs over the overloads by increasing argument count;
    `uniquify_most_arguments`                       an accepted overload is one of the overloads and has the most arguments;
    `uniquify_ambiguous_iff`                        AMBIGUOUS (exactly): in the order of increasing argument count some
                                                    overload is not an extension of the one before it;
    `compat_trans`, `chain_all_compat`              (so in an accepted family ANY earlier overload is a prefix of any later one);
  * `callback_is_signal`                            an accepted callback is a signal found under the mapped name; a property
                                                    of that name wins; non-signals / ambiguous / unknown names are rejected
                                                    with a diagnostic (`rejected_has_message`);
  * `params_accepted_iff`                           parameters are accepted iff there are at most as many as the signal has
                                                    arguments and the k-th parameter type is assignable FROM the k-th
                                                    argument type (`is_concrete_assignable(param, arg)`: equal, compatible
                                                    enum, or pointer to a base class) — parameters bind the LEADING arguments;
    `too_many_rejected`
  * `callback_trace_full_statement` (def) and `callback_trace_partial`: for the handler fragment
                                                    `o.p = true|false` the IR built by the model compiler, executed in any
                                                    world, performs exactly the write the reference semantics prescribes.
  One handler per accepted `on<Signal>`: the text model writes ONE `QObject::connect` per callback (compared exactly with
  the real header); the executed check counts the live connections after `setup()` (exactly one, on the declaring object).
-/
import QV.Model.Callback
import QV.Props.C01

namespace QV.Props.C13
open QV.Model QV.Model.Callback QV.Model.Names
open QV.Model.IrSem QV.Proofs.SemIr
open QV.Spec.Sem (Val World Host Ev Ty STy coerceTo)

/-! ### the name mapping -/

theorem signal_name_some_iff (name s : Str) :
    callbackToSignalName name = some s ↔
      ∃ c rest, name = 'o' :: 'n' :: c :: rest ∧ isAsciiUpper c = true ∧ s = toAsciiLower c :: rest := by
  constructor
  · intro h
    unfold callbackToSignalName at h
    split at h
    · rename_i c rest
      split at h
      · rename_i hc
        exact ⟨c, rest, rfl, hc, by simpa using h.symm⟩
      · simp at h
    · simp at h
  · rintro ⟨c, rest, rfl, hc, rfl⟩
    simp [callbackToSignalName, hc]

/-- names that are not `on` + an ASCII capital are not callbacks -/
theorem signal_name_rejects (name : Str)
    (h : ¬ ∃ c rest, name = 'o' :: 'n' :: c :: rest ∧ isAsciiUpper c = true) : callbackToSignalName name = none := by
  cases hr : callbackToSignalName name with
  | none => rfl
  | some s =>
    obtain ⟨c, rest, h1, h2, _⟩ := (signal_name_some_iff name s).mp hr
    exact absurd ⟨c, rest, h1, h2⟩ h

theorem ofNat_inj (m n : Nat) (hm : m < 1000) (hn : n < 1000) (h : Char.ofNat m = Char.ofNat n) : m = n := by
  have vm : m.isValidChar := by left; omega
  have vn : n.isValidChar := by left; omega
  have := congrArg Char.toNat h
  simp [Char.toNat, Char.ofNat, vm, vn, Char.ofNatAux] at this
  omega

theorem lower_injective (a b : Char) (ha : isAsciiUpper a = true) (hb : isAsciiUpper b = true)
    (h : toAsciiLower a = toAsciiLower b) : a = b := by
  simp only [toAsciiLower, ha, hb, ↓reduceIte] at h
  simp only [isAsciiUpper, Bool.and_eq_true, decide_eq_true_eq] at ha hb
  have := ofNat_inj _ _ (by omega) (by omega) h
  exact Char.toNat_inj.mp (by omega)

/-- `onFooBar ↦ fooBar` is injective on its domain -/
theorem signal_name_injective (a b s : Str) (ha : callbackToSignalName a = some s) (hb : callbackToSignalName b = some s) :
    a = b := by
  obtain ⟨c, r, rfl, hc, rfl⟩ := (signal_name_some_iff a s).mp ha
  obtain ⟨d, q, rfl, hd, he⟩ := (signal_name_some_iff _ _).mp hb
  injection he with h1 h2
  rw [lower_injective c d hc hd h1, h2]

/-! ### uniquify_methods -/

theorem uniquify_single (m : MethodInfo) : uniquifyMethods [m] = some (some m) := rfl

/-- consecutive overloads extend each other -/
def Extends : List MethodInfo → Prop
  | [] => True
  | [_] => True
  | a :: b :: rest => compat a b = true ∧ Extends (b :: rest)

theorem chain_some (known : MethodInfo) (rest : List MethodInfo) (m : MethodInfo) (h : chain known rest = some m) :
    Extends (known :: rest) ∧ (known :: rest).getLast? = some m := by
  induction rest generalizing known with
  | nil => simp [chain] at h; simp [Extends, h]
  | cons x xs ih =>
    simp only [chain] at h
    split at h
    · rename_i hc
      obtain ⟨h1, h2⟩ := ih x h
      refine ⟨⟨hc, h1⟩, ?_⟩
      simpa [List.getLast?_cons_cons] using h2
    · simp at h

theorem chain_none_iff (known : MethodInfo) (rest : List MethodInfo) :
    chain known rest = none ↔ ¬ Extends (known :: rest) := by
  induction rest generalizing known with
  | nil => simp [chain, Extends]
  | cons x xs ih =>
    simp only [chain, Extends]
    split
    · rename_i hc
      rw [ih x]
      simp [hc]
    · rename_i hc
      simp [hc]

theorem compat_trans (a b c : MethodInfo) (h1 : compat a b = true) (h2 : compat b c = true) : compat a c = true := by
  simp only [compat, Bool.and_eq_true, decide_eq_true_eq] at *
  obtain ⟨⟨k1, r1⟩, p1⟩ := h1
  obtain ⟨⟨k2, r2⟩, p2⟩ := h2
  refine ⟨⟨k1.trans k2, r1.trans r2⟩, ?_⟩
  rw [List.isPrefixOf_iff_prefix] at *
  exact p1.trans p2

/-- in an accepted family the first overload is extended by every later one -/
theorem chain_all_compat (known : MethodInfo) (rest : List MethodInfo) (h : Extends (known :: rest)) :
    ∀ m ∈ rest, compat known m = true := by
  induction rest generalizing known with
  | nil => simp
  | cons x xs ih =>
    obtain ⟨h1, h2⟩ := h
    intro m hm
    rcases List.mem_cons.mp hm with rfl | hm
    · exact h1
    · exact compat_trans known x m h1 (ih x h2 m hm)

theorem insertDesc_mem (m x : MethodInfo) (l : List MethodInfo) : x ∈ insertDesc m l ↔ x = m ∨ x ∈ l := by
  induction l with
  | nil => simp [insertDesc]
  | cons y ys ih =>
    simp only [insertDesc]
    split
    · simp only [List.mem_cons, ih]
      constructor <;> (intro h; rcases h with h | h | h <;> simp [h])
    · simp only [List.mem_cons]

theorem sortDesc_mem (ms : List MethodInfo) (x : MethodInfo) : x ∈ sortDesc ms ↔ x ∈ ms := by
  have gen : ∀ (l acc : List MethodInfo), x ∈ l.foldl (fun acc m => insertDesc m acc) acc ↔ x ∈ acc ∨ x ∈ l := by
    intro l
    induction l with
    | nil => simp
    | cons y ys ih =>
      intro acc
      simp only [List.foldl_cons, ih, insertDesc_mem, List.mem_cons]
      constructor
      · intro h; rcases h with (h | h) | h <;> simp [h]
      · intro h; rcases h with h | h | h <;> simp [h]
  have := gen ms []
  simpa [sortDesc] using this

/-- sorted by decreasing argument count -/
def SortedDesc : List MethodInfo → Prop
  | [] => True
  | a :: rest => (∀ b ∈ rest, b.args.length ≤ a.args.length) ∧ SortedDesc rest

theorem insertDesc_sorted (m : MethodInfo) (l : List MethodInfo) (h : SortedDesc l) : SortedDesc (insertDesc m l) := by
  induction l with
  | nil => simp [insertDesc, SortedDesc]
  | cons y ys ih =>
    obtain ⟨h1, h2⟩ := h
    simp only [insertDesc]
    split
    · rename_i hge
      refine ⟨?_, ih h2⟩
      intro b hb
      rcases (insertDesc_mem m b ys).mp hb with rfl | hb
      · exact hge
      · exact h1 b hb
    · rename_i hlt
      refine ⟨?_, h1, h2⟩
      intro b hb
      rcases List.mem_cons.mp hb with rfl | hb
      · omega
      · have := h1 b hb
        omega

theorem sortDesc_sorted (ms : List MethodInfo) : SortedDesc (sortDesc ms) := by
  have gen : ∀ (l acc : List MethodInfo), SortedDesc acc → SortedDesc (l.foldl (fun acc m => insertDesc m acc) acc) := by
    intro l
    induction l with
    | nil => intro acc h; simpa using h
    | cons y ys ih => intro acc h; exact ih _ (insertDesc_sorted y acc h)
  exact gen ms [] trivial

/-- the accepted overload is one of the overloads and carries the most arguments -/
theorem uniquify_most_arguments (ms : List MethodInfo) (m : MethodInfo) (h : uniquifyMethods ms = some (some m)) :
    m ∈ ms ∧ ∀ x ∈ ms, x.args.length ≤ m.args.length := by
  unfold uniquifyMethods at h
  split at h
  · simp at h
  · rename_i known rest hrev
    simp only [Option.some.injEq] at h
    obtain ⟨_, hlast⟩ := chain_some known rest m h
    rw [← hrev, List.getLast?_reverse] at hlast
    have hs := sortDesc_sorted ms
    cases hsd : sortDesc ms with
    | nil => simp [hsd] at hlast
    | cons y ys =>
      rw [hsd] at hlast hs
      simp only [List.head?_cons, Option.some.injEq] at hlast
      subst hlast
      refine ⟨(sortDesc_mem ms y).mp (by simp [hsd]), ?_⟩
      intro x hx
      have hx' : x ∈ y :: ys := by rw [← hsd]; exact (sortDesc_mem ms x).mpr hx
      rcases List.mem_cons.mp hx' with rfl | hx'
      · exact Nat.le_refl _
      · exact hs.1 x hx'

/-- AMBIGUOUS, exactly: taken by increasing number of arguments (ties in reverse table order), some overload does not
    extend the one before it (other kind, other return type, or different leading arguments) -/
theorem uniquify_ambiguous_iff (ms : List MethodInfo) (hne : ms ≠ []) :
    uniquifyMethods ms = some none ↔ ¬ Extends (sortDesc ms).reverse := by
  unfold uniquifyMethods
  split
  · rename_i hrev
    exfalso
    have : sortDesc ms = [] := by simpa using hrev
    cases ms with
    | nil => exact hne rfl
    | cons a as => have := (sortDesc_mem (a :: as) a).mpr (by simp); simp_all
  · rename_i known rest hrev
    rw [hrev]
    simp only [Option.some.injEq]
    exact chain_none_iff known rest

/-! ### which bindings are callbacks -/

/-- an accepted callback is a SIGNAL found under the name `on<Signal>` maps to, and no property has the binding's name -/
theorem callback_is_signal (ci : ClassInfo) (name : String) (m : MethodInfo)
    (h : resolveBinding ci name = .callback m) :
    m.kind = .signal ∧ ci.props.find? (·.name = name) = none ∧
    ∃ sn ms, callbackToSignalName name.toList = some sn ∧ ci.methods.find? (·.1 = String.ofList sn) = some (String.ofList sn, ms) ∧
      uniquifyMethods ms = some (some m) := by
  unfold resolveBinding at h
  split at h
  · simp at h
  · rename_i hp
    split at h
    · simp at h
    · rename_i sn hsn
      simp only at h
      split at h
      · simp at h
      · rename_i k ms hm
        split at h
        · simp at h
        · simp at h
        · rename_i m' hu
          split at h
          · rename_i hk
            simp only [Decision.callback.injEq] at h
            subst h
            have hk' : k = String.ofList sn := by simpa using List.find?_some hm
            subst hk'
            exact ⟨hk, hp, sn, ms, hsn, hm, hu⟩
          · simp at h

/-- every binding that is neither a property nor an accepted callback is diagnosed -/
theorem rejected_has_message (ci : ClassInfo) (cls name : String)
    (hp : ∀ p, resolveBinding ci name ≠ .property p) (hc : ∀ m, resolveBinding ci name ≠ .callback m)
    (hpanic : resolveBinding ci name ≠ .panic) :
    ((resolveBinding ci name).message cls name).isSome = true := by
  cases h : resolveBinding ci name with
  | property p => exact absurd h (hp p)
  | callback m => exact absurd h (hc m)
  | panic => exact absurd h hpanic
  | _ => simp [Decision.message]

/-! ### parameters -/

/-- parameters bind the LEADING signal arguments: accepted iff not more parameters than arguments and each parameter
    type is assignable from the argument type at the same position -/
theorem params_accepted_iff (env : Env) (sig : MethodInfo) (code : CodeBody) :
    verifyCallbackParameterType env sig code = [] ↔
      code.parameterCount ≤ sig.args.length ∧
      ∀ p ∈ sig.args.zip (code.locals.take code.parameterCount), isConcreteAssignable env p.2 p.1 = true := by
  unfold verifyCallbackParameterType
  split
  · rename_i h
    simp
    omega
  · rename_i h
    simp only [List.map_eq_nil_iff, List.filter_eq_nil_iff, Bool.not_eq_eq_eq_not, Bool.not_true, Bool.not_eq_false]
    constructor
    · intro hall
      exact ⟨by omega, fun p hp => hall p hp⟩
    · intro ⟨_, hall⟩ p hp
      exact hall p hp

theorem too_many_rejected (env : Env) (sig : MethodInfo) (code : CodeBody) (h : sig.args.length < code.parameterCount) :
    verifyCallbackParameterType env sig code ≠ [] := by
  simp [verifyCallbackParameterType, h]

/-! ### effects -/

/-- C13's effect clause at full strength: for every handler the model compiler accepts for a signal, in every world and
    for all signal arguments where the reference semantics is defined, executing the built IR performs exactly the
    prescribed trace (and leaves the same world) -/
def callback_trace_full_statement : Prop :=
  ∀ (wc : QV.Model.Ctx) (sc : QV.Spec.Sem.Ctx) (ic : QV.Model.IrSem.ICtx), QV.Props.C01.CtxAgree wc sc ic →
  ∀ (p : Program) (code : CodeBody),
    (build wc true p).code = some code → (build wc true p).diags = [] → (build wc true p).panic = none →
  ∀ (w : QV.Spec.Sem.World) (args : List QV.Spec.Sem.Val) (r : QV.Spec.Sem.Result),
    QV.Spec.Sem.run sc p w args = some r →
    ∃ v st, QV.Model.IrSem.run ic code w args = some (v, st) ∧ st.trace = r.trace

set_option linter.unusedSimpArgs false in
/-- the IR the model compiler builds for the handler `o.p = true|false` -/
theorem build_property_write (wc : QV.Model.Ctx) (o p cls : String) (ci : ClassInfo) (pinfo : PropInfo) (v : Bool)
    (h1 : wc.objects.find? (·.1 = o) = some (o, cls))
    (h2 : wc.env.findClass cls = some ci)
    (h3 : ci.props.find? (·.name = p) = some pinfo)
    (h4 : pinfo.writable = true) (h5 : pinfo.ty = .bool) :
    (build wc true (.stmt (.expr (.assign (.member (.ident o) p) (.bool v))))).code =
      some { blocks := [{ statements := [.exec (.writeProperty (.namedObject o cls) pinfo (.const (.bool v)))],
                          terminator := some (.ret .void) }],
             locals := [] } := by
  simp [build, walkProgram, walkStmt, walkRvalue, walkExpr, processIdentifier, getLocals, Locals.get?, Ctx.getRef, h1,
    processRef, processItemProperty, toConcreteType, Operand.typeDesc, Ctx.classOfType, h2, h3, TypeKind.isPointer,
    interToRvalue, getB, consume, visitObjectPropertyAssignment, h4, h5, ensureConcreteString, Builder.emitResult, Builder.alloca,
    isAssignable, pickTypeCast, pickConcreteTypeCast, ConstantValue.typeDesc, TypeDesc.bool,
    setB, visitExpressionStatement, Builder.setCompletionValue, Builder.pushStatement, Builder.pushStatementAt,
    Builder.blockHasTerminator, Builder.modifyBlock, Builder.currentRef, finalizeCompletionValues, setBlock,
    bind, OptionT.bind, OptionT.mk, StateT.bind, pure, OptionT.pure, StateT.pure, get, getThe, MonadStateOf.get, StateT.get,
    modify, modifyGet, MonadStateOf.modifyGet, StateT.modifyGet, OptionT.lift, liftM, monadLift, MonadLift.monadLift,
    OptionT.run]

/-- the reference semantics of `o.p = true|false` -/
theorem spec_assign_member_bool (c : QV.Spec.Sem.Ctx) (o p : String) (v : Bool) (s : QV.Spec.Sem.St) (oid : Nat)
    (hr : QV.Spec.Sem.resolveIdent c o s = some (.val (.ptr (some oid)))) :
    QV.Spec.Sem.evalExpr c (.assign (.member (.ident o) p) (.bool v)) s =
      (QV.Spec.Sem.writeProp s oid p (.bool v)).map fun s => (.void, s) := by
  rw [QV.Spec.Sem.evalExpr.eq_def]
  simp only
  rw [QV.Spec.Sem.evalExpr.eq_def]
  simp only [hr]
  rw [QV.Spec.Sem.evalExpr.eq_def]

set_option linter.unusedSimpArgs false in
/-- C13's effect clause, proved END-TO-END for the handler fragment  H ::= `o.p = true | false`  (`o` an object id, `p` a
    writable bool property): the IR the model compiler builds performs, in every world, exactly the property write the
    reference semantics prescribes, and leaves the same world -/
theorem callback_trace_partial (wc : QV.Model.Ctx) (sc : QV.Spec.Sem.Ctx) (ic : ICtx) (hag : QV.Props.C01.CtxAgree wc sc ic)
    (o p cls : String) (ci : ClassInfo) (pinfo : PropInfo) (v : Bool)
    (h1 : wc.objects.find? (·.1 = o) = some (o, cls))
    (h2 : wc.env.findClass cls = some ci)
    (h3 : ci.props.find? (·.name = p) = some pinfo)
    (h4 : pinfo.writable = true) (h5 : pinfo.ty = .bool)
    (code : CodeBody)
    (hcode : (build wc true (.stmt (.expr (.assign (.member (.ident o) p) (.bool v))))).code = some code)
    (w : World) (r : QV.Spec.Sem.Result)
    (hspec : QV.Spec.Sem.run sc (.stmt (.expr (.assign (.member (.ident o) p) (.bool v)))) w [] = some r) :
    ∃ val st, IrSem.run ic code w [] = some (val, st) ∧ st.trace = r.trace ∧ st.w = r.world := by
  rw [build_property_write wc o p cls ci pinfo v h1 h2 h3 h4 h5] at hcode
  injection hcode with hcode
  subst hcode
  obtain ⟨oid, hso, hnamed⟩ := hag.objects o cls h1
  have hname : pinfo.name = p := by simpa using List.find?_some h3
  have hr : QV.Spec.Sem.resolveIdent sc o { w := w } = some (.val (.ptr (some oid))) := by
    simp [QV.Spec.Sem.resolveIdent, QV.Spec.Sem.St.lookup, hso]
  simp only [QV.Spec.Sem.run, QV.Spec.Sem.runStmt] at hspec
  rw [QV.Spec.Sem.execStmt.eq_def] at hspec
  simp only [spec_assign_member_bool sc o p v _ oid hr, QV.Spec.Sem.writeProp] at hspec
  cases hp : w.prop oid p with
  | none => simp [hp] at hspec
  | some old =>
    simp [hp, coerceTo, QV.Spec.Sem.St.emit] at hspec
    subst hspec
    simp [IrSem.run, runFrom, execStatements, execStatement, evalRvalue, evalOperand, hnamed, hname, hp, h5, coerceTo,
      styOf, primTy, TypeKind.bool, State.emit]
    exact ⟨_, _, ⟨rfl, rfl⟩, rfl, rfl⟩

example : uniquifyMethods
    [ { cls := "B", name := "clicked", args := [], ret := .void, kind := .signal },
      { cls := "B", name := "clicked", args := [.bool], ret := .void, kind := .signal } ] =
    some (some { cls := "B", name := "clicked", args := [.bool], ret := .void, kind := .signal }) := by decide

example : uniquifyMethods
    [ { cls := "V", name := "over", args := [.int], ret := .void, kind := .signal },
      { cls := "V", name := "over", args := [.string], ret := .void, kind := .signal } ] = some none := by decide

end QV.Props.C13
