/-
  C14 — The dynamic-binding mode changes only the support code and its diagnostics.

  Model : QV.Model.Passes (`run`): code maps → constant pass → left-over attached check → mode switch
          (`cxxAll` for generate, `rejectAll` for reject, the diagnostics of `cxxAll` without the header for omit).
  Tie   : stream `c14` (every document in the three modes in-process: .ui bytes, acceptance, header scan,
          diagnostic multisets; and per-mode diagnostics vs the model).
-/
import QV.Proofs.PassesModes

namespace QV.Props.C14
open QV.Model.Passes QV.Proofs.Passes

/-- **(a) The form does not depend on the mode**: the placed objects, whether a form was built and whether a
    consumer panicked are fixed before the mode switch, and the form is a function of exactly that state. -/
theorem form_mode_independent (m1 m2 : Mode) (doc : Forest) :
    (run m1 doc).form = (run m2 doc).form ∧ (run m1 doc).objects = (run m2 doc).objects ∧
      (run m1 doc).built = (run m2 doc).built ∧ (run m1 doc).panic = (run m2 doc).panic := by
  obtain ⟨o1, b1, p1⟩ := run_state m1 doc
  obtain ⟨o2, b2, p2⟩ := run_state m2 doc
  have ho := o1.trans o2.symm
  have hb := b1.trans b2.symm
  have hp := p1.trans p2.symm
  exact ⟨form_congr _ _ ho hb hp, ho, hb, hp⟩

/-- **(b) The state of a cell after the constant pass is its route**: the cell is initialised exactly when some
    consumer reached the binding — whatever the outcome of the evaluation.  (The passes after the constant pass,
    `cxxEntry` and `rejectEntry`, are functions of the recorded `EntryOut`: they read `is_evaluated_constant()`
    and never initialise a cell.) -/
theorem cell_state_is_route (r : Route) (l : Leaf) : (constLeaf r l).evaluated = (r != .untouched) := by
  unfold constLeaf
  cases r <;> simp only <;> (repeat' split) <;> rfl

/-- `evaluate()` is idempotent: the record of a binding is a function of its route and of the binding, so
    evaluating a second time yields the same record -/
theorem evaluate_idem (r : Route) (l : Leaf) :
    (fun _first : LeafOut => constLeaf r l) (constLeaf r l) = constLeaf r l := rfl

/-- `is_evaluated_constant()` is "initialised ∧ constant": false for code nobody evaluated -/
theorem evalConst_is_route_and_const (r : Route) (l : Leaf) :
    (constLeaf r l).evalConst l = (r != .untouched && l.const.isSome) := by
  simp [LeafOut.evalConst, cell_state_is_route, Leaf.isConst]

/-- **(c) `reject` accepts exactly the documents for which `generate` succeeds with empty support code**: no
    `CxxBinding`, no connected callback (and no error of the C++ pass). -/
theorem reject_iff_empty_generate (doc : Forest) :
    (run .reject doc).accepted = true ↔
      ((run .generate doc).accepted = true ∧
        ∃ s, (run .generate doc).support = some s ∧ s.bindings = [] ∧ s.connected = []) := by
  cases h : valid doc
  · have hr := (run_invalid doc h .reject).2.1
    have hg := (run_invalid doc h .generate).2.1
    simp [Result.accepted, hr, hg]
  · rw [run_reject doc h, run_generate doc h]
    simp only [Result.accepted, Bool.true_and, Bool.and_eq_true, List.isEmpty_iff, List.append_eq_nil_iff,
      rejectAll_nil_iff, Option.some.injEq]
    constructor
    · rintro ⟨hp, hc, hd, hb, hcon⟩
      exact ⟨⟨hp, hc, hd⟩, _, rfl, hb, hcon⟩
    · rintro ⟨⟨hp, hc, hd⟩, s, rfl, hb, hcon⟩
      exact ⟨hp, hc, hd, hb, hcon⟩

/-- **(d) `omit` reports exactly what `generate` reports**: since the repair of F21 (/repo c47e7fb) preview mode
    builds the support code for its diagnostics and discards it, so the two modes differ only in the presence of
    the header. -/
theorem omit_errors_eq_generate (doc : Forest) : (run .omit doc).diags = (run .generate doc).diags := by
  cases h : valid doc
  · rw [(run_invalid doc h .generate).1]
  · rw [run_generate doc h, run_omit doc h]

/-- the clause of the property: any error reported in omit mode is also reported in generate mode -/
theorem omit_errors_subset_generate (doc : Forest) :
    (run .omit doc).diags.Sublist (run .generate doc).diags := by
  rw [omit_errors_eq_generate]
  exact List.Sublist.refl _

/-- hence a document is accepted in preview mode exactly when it is accepted in generate mode -/
theorem omit_accepted_iff_generate (doc : Forest) : (run .omit doc).accepted = (run .generate doc).accepted := by
  obtain ⟨_, hb, hp⟩ := run_state .generate doc
  simp only [Result.accepted, omit_errors_eq_generate doc, hb, hp]

/-- the diagnostics of the phases before the mode switch are reported, in the same order, in every mode; each mode
    only appends its own -/
theorem common_errors_in_every_mode (m : Mode) (doc : Forest) (h : valid doc = true) :
    (commonDiags (place .root doc).1 (place .root doc).2).Sublist (run m doc).diags := by
  cases m
  · rw [run_generate doc h]; exact List.sublist_append_left _ _
  · rw [run_reject doc h]; exact List.sublist_append_left _ _
  · rw [run_omit doc h]; exact List.sublist_append_left _ _

/-- what `reject` reports beyond `omit` comes from the reject pass -/
theorem reject_only_errors_are_rej (doc : Forest) :
    ∀ d ∈ (run .reject doc).diags, d ∈ (run .omit doc).diags ∨ d.kind = .rejDynamic ∨
      d.kind = .rejNotWritable ∨ d.kind = .rejCallback := by
  intro d hd
  cases h : valid doc
  · rw [(run_invalid doc h .reject).1] at hd
    exact .inl hd
  · rw [run_reject doc h] at hd
    rw [run_omit doc h]
    simp only [List.mem_append] at hd
    rcases hd with hd | hd
    · exact .inl (List.mem_append_left _ hd)
    · exact .inr (rejectAll_diags _ d hd)

/-- **Reject mode refuses every binding the constant pass left unevaluated, constant or not**: a top-level property
    whose cell was never initialised (a pseudo property excluded from the generic pass and picked up by nobody, e.g.
    `separator` of an action that has other bindings) is not an evaluated constant, so reject mode reports it — exactly
    the bindings for which generate mode emits update code. -/
theorem unevaluated_binding_refused_by_reject (doc : Forest) :
    ∀ p ∈ (run .reject doc).objects, ∀ e ∈ p.props, e.evalConst = false → (run .reject doc).accepted = false := by
  intro p hp e he hec
  cases h : valid doc
  · rw [(run_invalid doc h .reject).2.2.2.1] at hp
    simp at hp
  · rw [run_reject doc h] at hp ⊢
    have hne : rejectAll (place .root doc).1 ≠ [] := by
      intro hnil
      have hall := (rejectAll_entries_nil (place .root doc).1 hnil) p hp e he
      rw [hall] at hec
      exact Bool.noConfusion hec
    simp [Result.accepted, hne]

/-- **(e) A header is produced only by `generate`**, and then whenever a form was built. -/
theorem header_only_generate (m : Mode) (doc : Forest) :
    (run m doc).support.isSome = true ↔ (m = .generate ∧ (run m doc).built = true) := by
  cases h : valid doc
  · obtain ⟨_, hb, _, _, hs⟩ := run_invalid doc h m
    simp [hb, hs]
  · cases m
    · rw [run_generate doc h]; simp
    · rw [run_reject doc h]; simp
    · rw [run_omit doc h]; simp

/-! ### non-vacuity -/

/-- a widget with one dynamic binding (`text: other.text`) and one constant -/
private def dyn : Forest :=
  .cons { oid := 0, isWidget := true
          entries := [.leaf { id := 10, name := "text".toList },
                      .leaf { id := 11, name := "enabled".toList, const := some (.ok 1) }] } .nil .nil

/-- constants only -/
private def static : Forest :=
  .cons { oid := 0, isWidget := true
          entries := [.leaf { id := 11, name := "enabled".toList, const := some (.ok 1) }] }
    (.cons { oid := 1, isAction := true
             entries := [.leaf { id := 12, name := "separator".toList, const := some (.ok 1) }] } .nil .nil) .nil

example : (run .generate dyn).accepted = true ∧ (run .reject dyn).accepted = false ∧
    (run .omit dyn).accepted = true ∧
    (run .generate dyn).support.map (·.bindings) = some [10] ∧
    (run .reject dyn).diags = [⟨10, .rejDynamic⟩] ∧
    (run .generate dyn).form = some [(0, .widget, [(11, 1)])] ∧
    (run .reject dyn).form = (run .generate dyn).form ∧ (run .omit dyn).form = (run .generate dyn).form := by
  and_intros <;> decide

example : (run .generate static).accepted = true ∧ (run .reject static).accepted = true ∧
    (run .omit static).accepted = true ∧
    (run .generate static).support = some { bindings := [], generated := [], repeated := [], connected := [] } ∧
    (run .omit static).form = some [(0, .widget, [(11, 1)]), (1, .action, [(12, 1)])] := by
  decide

/-- an ill-typed dynamic binding is reported in preview mode as in generate mode, without a header -/
example : let doc : Forest := .cons { oid := 0, isWidget := true
                                      entries := [.leaf { id := 10, name := "text".toList, retTypeOk := false }] } .nil .nil
    (run .omit doc).diags = [⟨10, .cxxRetType⟩] ∧ (run .generate doc).diags = [⟨10, .cxxRetType⟩] ∧
    (run .omit doc).support = none ∧ (run .omit doc).accepted = false := by
  decide

/-- `QAction { separator: true; text: "x" }` -/
private def sepWithText : Forest :=
  .cons { oid := 0, isWidget := true }
    (.cons { oid := 1, isAction := true
             entries := [.leaf { id := 10, name := "separator".toList, const := some (.ok 1) },
                         .leaf { id := 11, name := "text".toList, const := some (.ok 7) }] } .nil .nil) .nil

/-- `separator` is constant but excluded from the .ui and never evaluated: generate mode emits a binding for it, reject
    mode refuses the document -/
example : (run .generate sepWithText).accepted = true ∧
    (run .generate sepWithText).support.map (·.bindings) = some [10] ∧
    (run .reject sepWithText).accepted = false ∧ (run .reject sepWithText).diags = [⟨10, .rejDynamic⟩] := by
  and_intros <;> decide

/-- a callback alone makes `reject` refuse, with an empty binding list -/
example : let doc : Forest := .cons { oid := 0, isWidget := true, callbacks := [{ id := 20 }] } .nil .nil
    (run .generate doc).accepted = true ∧ (run .reject doc).accepted = false ∧
    (run .generate doc).support.map (·.connected) = some [20] := by
  decide

end QV.Props.C14
