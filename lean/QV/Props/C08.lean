/-
  C08 — Determinism: identical inputs give byte-identical outputs.

  Model : QV.Model.Determinism — every unordered map is a list of entries in ARBITRARY order (any permutation);
          consumers sort by key or are order-insensitive.
  Tie   : stream `c08` — documents with many bindings per object, gadgets, callbacks and planted errors are translated
          24× (8 runs × 3 modes; every hash map instance gets fresh keys) and the .ui bytes, header bytes and diagnostic
          multisets compared (kind=oracle); tools/hash_iter_sites.py pins the list of source lines that iterate a
          map in uigen/ and qmlast/object.rs — a new iteration site breaks the obligation.
  The theorems are about the model: what they add over the runs is "for ALL iteration orders", which no number of
  runs can establish.
-/
import QV.Model.Determinism

namespace QV.Props.C08
open QV.Model.Determinism

theorem char_eq_of_toNat {a b : Char} (h : a.toNat = b.toNat) : a = b := by
  have := congrArg Char.ofNat h
  simpa using this

theorem strLe_total (a b : Str) : (strLe a b || strLe b a) = true := by
  induction a generalizing b with
  | nil => simp [strLe]
  | cons x xs ih =>
    cases b with
    | nil => simp [strLe]
    | cons y ys =>
      simp only [strLe]
      by_cases h1 : x.toNat < y.toNat
      · simp [h1]
      · by_cases h2 : y.toNat < x.toNat
        · simp [h1, h2]
        · simp [h1, h2, ih ys]

theorem strLe_trans (a b c : Str) : strLe a b = true → strLe b c = true → strLe a c = true := by
  induction a generalizing b c with
  | nil => intro _ _; simp [strLe]
  | cons x xs ih =>
    cases b with
    | nil => intro h; simp [strLe] at h
    | cons y ys =>
      cases c with
      | nil => intro _ h; simp [strLe] at h
      | cons z zs =>
        simp only [strLe]
        intro h1 h2
        by_cases hxy : x.toNat < y.toNat
        · by_cases hyz : y.toNat < z.toNat
          · have : x.toNat < z.toNat := by omega
            simp [this]
          · by_cases hzy : z.toNat < y.toNat
            · simp [hyz, hzy] at h2
            · have : x.toNat < z.toNat := by omega
              simp [this]
        · by_cases hyx : y.toNat < x.toNat
          · simp [hxy, hyx] at h1
          · simp only [hxy, hyx, if_false] at h1
            by_cases hyz : y.toNat < z.toNat
            · have : x.toNat < z.toNat := by omega
              simp [this]
            · by_cases hzy : z.toNat < y.toNat
              · simp [hyz, hzy] at h2
              · simp only [hyz, hzy, if_false] at h2
                have e1 : ¬ x.toNat < z.toNat := by omega
                have e2 : ¬ z.toNat < x.toNat := by omega
                simp only [e1, e2, if_false]
                exact ih ys zs h1 h2

theorem strLe_antisymm (a b : Str) : strLe a b = true → strLe b a = true → a = b := by
  induction a generalizing b with
  | nil =>
    cases b with
    | nil => intro _ _; rfl
    | cons y ys => intro _ h; simp [strLe] at h
  | cons x xs ih =>
    cases b with
    | nil => intro h; simp [strLe] at h
    | cons y ys =>
      simp only [strLe]
      intro h1 h2
      by_cases hxy : x.toNat < y.toNat
      · have : ¬ y.toNat < x.toNat := by omega
        simp [hxy, this] at h2
      · by_cases hyx : y.toNat < x.toNat
        · simp [hxy, hyx] at h1
        · simp only [hxy, hyx, if_false] at h1 h2
          have hc : x = y := char_eq_of_toNat (by omega)
          rw [hc, ih ys h1 h2]

/-- entries with pairwise distinct keys are determined by their key -/
theorem entry_eq_of_key_eq {V : Type} {l : List (Str × V)} (hn : (l.map (·.1)).Nodup) {a b : Str × V}
    (ha : a ∈ l) (hb : b ∈ l) (hk : a.1 = b.1) : a = b := by
  induction l with
  | nil => simp at ha
  | cons e rest ih =>
    simp only [List.map_cons, List.nodup_cons] at hn
    simp only [List.mem_cons] at ha hb
    rcases ha with rfl | ha <;> rcases hb with rfl | hb
    · rfl
    · exact absurd (List.mem_map_of_mem (f := (·.1)) hb) (hk ▸ hn.1)
    · exact absurd (List.mem_map_of_mem (f := (·.1)) ha) (hk ▸ hn.1)
    · exact ih hn.2 ha hb

/-- **Sorting erases the iteration order**: for any two iteration orders of the same map (keys are unique in a
    map), `sorted_by_key` yields the same sequence. -/
theorem sorted_perm_invariant {V : Type} (l₁ l₂ : List (Str × V)) (hp : l₁.Perm l₂)
    (hn : (l₁.map (·.1)).Nodup) : sortedByKey l₁ = sortedByKey l₂ := by
  unfold sortedByKey
  have s1 := List.pairwise_mergeSort (le := fun (a b : Str × V) => strLe a.1 b.1)
    (fun a b c => strLe_trans a.1 b.1 c.1) (fun a b => strLe_total a.1 b.1) l₁
  have s2 := List.pairwise_mergeSort (le := fun (a b : Str × V) => strLe a.1 b.1)
    (fun a b c => strLe_trans a.1 b.1 c.1) (fun a b => strLe_total a.1 b.1) l₂
  have p : (l₁.mergeSort fun a b => strLe a.1 b.1).Perm (l₂.mergeSort fun a b => strLe a.1 b.1) :=
    (List.mergeSort_perm l₁ _).trans (hp.trans (List.mergeSort_perm l₂ _).symm)
  refine List.Perm.eq_of_pairwise (le := fun (a b : Str × V) => strLe a.1 b.1 = true) ?_ s1 s2 p
  intro a b ha hb hab hba
  have ha' : a ∈ l₁ := List.mem_mergeSort.mp ha
  have hb' : b ∈ l₁ := hp.symm.subset (List.mem_mergeSort.mp hb)
  exact entry_eq_of_key_eq hn ha' hb' (strLe_antisymm _ _ hab hba)

/-- … hence every "sort, then emit" consumer writes the same bytes for every iteration order. -/
theorem render_perm_invariant {V Out : Type} (render : Str × V → List Out) (l₁ l₂ : List (Str × V))
    (hp : l₁.Perm l₂) (hn : (l₁.map (·.1)).Nodup) : renderSorted render l₁ = renderSorted render l₂ := by
  unfold renderSorted
  rw [sorted_perm_invariant l₁ l₂ hp hn]

/-- An order-insensitive visitor produces the same *map* (same entries, as a permutation) and the same *multiset*
    of diagnostics for every iteration order — so a later sorted emission of its result is again byte-identical. -/
theorem visit_perm {V W D : Type} (f : Str × V → Option (Str × W) × List D) (l₁ l₂ : List (Str × V))
    (hp : l₁.Perm l₂) : (visit f l₁).1.Perm (visit f l₂).1 ∧ (visit f l₁).2.Perm (visit f l₂).2 :=
  ⟨hp.filterMap _, hp.flatMap_right _⟩

/-- visitor followed by sorted emission: byte-identical output, same multiset of diagnostics -/
theorem visit_then_render_deterministic {V W D Out : Type} (f : Str × V → Option (Str × W) × List D)
    (render : Str × W → List Out) (l₁ l₂ : List (Str × V)) (hp : l₁.Perm l₂)
    (hn : ((visit f l₁).1.map (·.1)).Nodup) :
    renderSorted render (visit f l₁).1 = renderSorted render (visit f l₂).1 ∧
      (visit f l₁).2.Perm (visit f l₂).2 :=
  ⟨render_perm_invariant render _ _ (visit_perm f l₁ l₂ hp).1 hn, (visit_perm f l₁ l₂ hp).2⟩

/-- the `#include` set is emitted sorted: same lines for every insertion/iteration order -/
theorem includes_deterministic (s₁ s₂ : List Str) (hp : s₁.Perm s₂) (hn : s₁.Nodup) : sortedSet s₁ = sortedSet s₂ := by
  unfold sortedSet
  have s1 := List.pairwise_mergeSort (le := strLe) strLe_trans strLe_total s₁
  have s2 := List.pairwise_mergeSort (le := strLe) strLe_trans strLe_total s₂
  have p : (s₁.mergeSort strLe).Perm (s₂.mergeSort strLe) :=
    (List.mergeSort_perm s₁ _).trans (hp.trans (List.mergeSort_perm s₂ _).symm)
  refine List.Perm.eq_of_pairwise (le := fun (a b : Str) => strLe a b = true) ?_ s1 s2 p
  intro a b _ _ hab hba
  exact strLe_antisymm a b hab hba

/-! non-vacuity: the hypotheses are met by two different iteration orders of a three-entry map -/
example : sortedByKey [("text".toList, 1), ("enabled".toList, 2), ("toolTip".toList, 3)]
    = sortedByKey [("toolTip".toList, 3), ("text".toList, 1), ("enabled".toList, 2)] :=
  sorted_perm_invariant _ _ (by decide) (by decide)

end QV.Props.C08
