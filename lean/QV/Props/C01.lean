/-
  C01 — generated binding code computes the value of its source expression.

  Specification: `QV.Spec.Sem` (reference big-step semantics of docs/language.md, read as JavaScript wherever the
  document is silent; independent of the compiler model).  Compiler model: `QV.Model.{Walk,Builder,Finalize}` (tied to
  the real code by the `ir` stream: exact IR).  Target semantics: `QV.Model.IrSem` (execution of the IR; the printed
  C++ is `QV.Model.CxxBody`, tied to the real header text by `c01-body`; that g++ gives the printed operators the
  meaning `Spec.Sem.binop/unop/…` is tested by running the real header: stream `spec-c01`).

  STATED in full (`compile_correct_full_statement`), PROVED for every input:
  * `fold_agrees_spec`          a binary operator on two integer constants is folded without emitting code, and the
                                constant is the value the reference semantics gives (corollary of Props.C03);
    `fold_unary_agrees_spec`    the same for unary operators;
    `fold_int32_agree`          RANGE CONDITION under which the 64-bit folding coincides with 32-bit `int` arithmetic:
                                operands in the `int` range and the `int` result defined;
    `fold_int32_hypothesis_needed`  outside it they differ (`2147483647 + 1` is defined as a constant, undefined as `int`);
  * `emit_sound`                (builder-state invariant) `emit_result` on an open block allocates ONE fresh local and
                                APPENDS one statement; executing it stores the value of the rvalue in that local and
                                leaves every previously computed local, and what the rvalue left of world and trace, alone;
  * `unary_correct`, `binary_correct`   the statement emitted for a dynamic unary / binary (non-logical) operator
                                yields `Spec.Sem.unop` / `Spec.Sem.binop` of the operand values;
  * `logical_fragment_left`, `logical_fragment_right`, `logical_and_value`, `logical_or_value`
                                the CFG fragment wired by `visit_binary_logical_expression` computes the short-circuit
                                value: the sink is initialised in the LEFT block, the right block is entered only when the
                                left operand does not decide;
  * `ternary_fragment`          the three `finalize` calls of `visit_ternary_expression` select the branch by the
                                condition and store its value in the sink;
  * `if_fragment`               `visit_if_statement`: the condition block branches to the consequence or past it;
  * `return_of_completion`      `finalize_completion_values` on a start block that has a completion value turns it
                                into `return value` (the expression-statement program shape);
  * `compile_correct_partial`   END-TO-END for the EXPRESSION fragment (`CfgFrag wc []`)
                                    P ::= e        e ::= integer | true | false | o.p | unary-op e | e ⊕ e
                                                       | e && e | e || e | e ? e : e
                                (⊕ every binary operator except `&&`/`||`, unary-op every unary operator; `o` an object id
                                of the document, `p` a property of its class of non-void type): whenever the model compiler
                                builds code for the binding, in EVERY world (stored values typed) where `Spec.Sem` defines
                                the value at the property type, `IrSem` of the built IR — a CFG with one block per branch
                                point — returns that value.
    `compile_correct_block`     END-TO-END for the BLOCK fragment (`BlockFrag wc isRet []`)
                                    P ::= { B }    B ::= e | return e | let x = e; B | const x = e; B
                                with `e` as above plus reads `x` of the variables declared before it (an object id read
                                must not be shadowed by a variable).
    Both rest on ONE induction over the monadic AST walk at CFG level (QV.Proofs.SemCfg, SemCfgWalk, SemCfgCtl, SemCfgBlock):
      `walk_fragment`           (= `walk_cfg`) for every expression of the fragment, every successful `walkRvalue` from a
                                builder whose current block is open, with the variables `wl` ~ `vars` in scope, yields
                                `CResult`: `Walked` (blocks below the entry block untouched, the entry block only appended
                                to, every block from the entry block up to the exit block terminated with unconditional
                                branches that do not leave the range, the exit block — the current one — open; the form in
                                which "frozen blocks are immutable, unfrozen blocks only grow, a walk touches only blocks ≥
                                its entry block" is used), an operand that is a folded constant or a local of non-void type
                                whose builder type agrees with `Spec.Sem.staticTy` (`TyRel`: what the conversion of untyped
                                constants depends on), and `Sim`: over ANY final code that keeps the closed blocks and
                                extends the exit block and the locals (`Covers`), in any state whose locals hold the
                                variables' values (`ValRel`), execution from the entry POSITION (block, statement index:
                                `runAt`) reaches the exit position in at most as many transitions as blocks were closed,
                                with the `Spec.Sem` value in the operand and the earlier locals, the world and the trace
                                unchanged;
      `walk_logical`            its `&&` / `||` step (nested arbitrarily), `walk_ternary` its `?:` step (the sink type
                                `deduce_concrete_type` finds is the type `(x.unify y).concrete` the reference semantics
                                converts the chosen value to: `deduce_tyrel_ternary`);
      `walk_block_let`          the `let` / `const` step of the induction over statement lists (`walk_block_fragment`): one
                                local of the concrete type of the initialiser's operand = the variable's `Spec.Sem` type
                                (`decl_type`), name map / variable stack / IR locals related again with `x` added;
                                a variable read (`cfg_var`) emits nothing and returns the variable's local;
      `ir_of_expr_finish`, `ir_of_return_finish`  (QV.Proofs.SemCfgBlock) from the exit position to the value of the binding:
                                `finalize_completion_values` turns the completion value of the exit block into `return`;
                                after a final `return e` it marks the pushed empty block unreachable and changes nothing
                                else (`finalize_after_return`, using that no closed block branches past the exit block).
    `compile_correct_straight`  the earlier straight-line form (`Straight wc e`), now a corollary; `walk_straight`
                                (QV.Proofs.SemStraight) is its single-block induction with the invariant `Grows`.
    `compile_correct_property_read`  the earlier special case `P ::= o.p` with the built IR written out
                                (`build_property_read`).
    (appended sections at the end of this file) `compile_correct_block_assign` / `compile_correct_block_if` /
                                `compile_correct_block_early_return`: blocks with assignment to declared `let` variables,
                                `if`/`if-else` statements whose branch bodies are assignments, and branches that `return`.
  NOT proved: declarations with a type annotation or without initialiser, several declarators in one `let`, declarations and
  nested `if`s inside non-returning branch bodies, an `if` as the last statement of a block, nested blocks, switch/break,
  float/string/null literals, calls, casts, subscripts inside the induction: decided per program by the streams `c01-ir`
  (IrSem on the REAL IR = Spec.Sem) and `spec-c01` (the real C++ executed = Spec.Sem).
-/
import QV.Proofs.SemCfgBlock
import QV.Proofs.SemCfgStmt
import QV.Proofs.SemCfgStmtIf
import QV.Proofs.SemCfgStmtRet
import QV.Model.CxxBody
import QV.Props.C03

namespace QV.Props.C01
open QV.Model QV.Model.IrSem QV.Proofs.SemIr QV.Proofs.SemVisit
open QV.Spec.Sem (Val World Host Ev Ty STy coerceTo binop unop)

/-! ### the full statement -/

/-- the three contexts (walk, specification, IR execution) describe the same document and type information -/
structure CtxAgree (wc : QV.Model.Ctx) (sc : QV.Spec.Sem.Ctx) (ic : ICtx) : Prop where
  host : sc.H = ic.H
  float : sc.H.F = wc.F
  /-- one document: the translation context of `qsTr` (the type name) is the same for the reference semantics and for
      the execution of the IR -/
  docType : sc.docType = ic.docType
  objects : ∀ name cls, wc.objects.find? (·.1 = name) = some (name, cls) →
    ∃ o, sc.objects.find? (·.1 = name) = some (name, o, cls) ∧ ic.named name = some o
  noObject : ∀ name, wc.objects.find? (·.1 = name) = none → sc.objects.find? (·.1 = name) = none
  this : ∀ cls name, wc.thisObj = some (cls, name) → ∃ o, sc.thisObj = some (o, cls) ∧ ic.named name = some o
  props : ∀ cls p, sc.propTy cls p =
    ((wc.env.findClass cls).bind fun ci => ci.props.find? (·.name = p)).map fun pi => styOf pi.ty
  methods : ∀ cls m, sc.methodTy cls m =
    ((wc.env.findClass cls).bind fun ci => ci.methods.find? (·.1 = m)).bind fun x => x.2.head?.map fun mi => styOf mi.ret
  types : ∀ n, sc.tyName n = ((wc.annotatedType n).map styOf)
  variants : ∀ cls v e, ((wc.env.findClass cls).bind fun ci => ci.variants.find? (·.1 = v)) = some (v, e) →
    sc.enumVal cls v = ic.enumVariant e v

/-- C01 at full strength: for every program the model compiler accepts as a binding of a property of type `ty`, in
    every world where the reference semantics defines a value, executing the built IR returns that value -/
def compile_correct_full_statement : Prop :=
  ∀ (wc : QV.Model.Ctx) (sc : QV.Spec.Sem.Ctx) (ic : ICtx), CtxAgree wc sc ic →
  ∀ (p : Program) (code : CodeBody),
    (build wc false p).code = some code → (build wc false p).diags = [] → (build wc false p).panic = none →
  ∀ (ty : TypeKind), CxxBody.returnTypeOk wc.env code ty = true →
  ∀ (w : World) (v : Val),
    QV.Spec.Sem.bindingValue sc p w (styOf ty).ty = some v → IrSem.bindingValue ic code w (styOf ty).ty = some v

/-! ### (1) constant operands -/

theorem tokOf_toOp (op : BinaryOp) : (QV.Spec.Sem.tokOf op).toOp = some op :=
  QV.Proofs.SemFold.tokOf_toOp op

theorem binop_cint (F : FloatOps) (op : BinaryOp) (hlog : ∀ lop, op ≠ .logical lop) (a c : Int) :
    binop F op (.cint a) (.cint c) = QV.Spec.Sem.constBinary F op a c :=
  QV.Proofs.SemFold.binop_cint F op hlog a c

/-- folding of a binary operator on integer constants: no code is emitted and the operand produced denotes the
    value the reference semantics gives to the operator application -/
theorem fold_agrees_spec (ic : ICtx) (L : IrSem.Locals) (F : FloatOps) (env : Env) (b : Builder) (op : BinaryOp)
    (hlog : ∀ lop, op ≠ .logical lop) (a c : Int) (ha : QV.Spec.ConstSem.representable a = true)
    (res : Operand) (b' : Builder)
    (h : visitBinaryExpression F env b op (.const (.integer a)) (.const (.integer c)) = .ok (res, b')) :
    b' = b ∧ ∃ v, evalOperand ic L res = some v ∧ binop F op (.cint a) (.cint c) = some v :=
  QV.Proofs.SemFold.fold_agrees_spec ic L F env b op hlog a c ha res b' h

/-- the same for unary operators on an integer constant -/
theorem fold_unary_agrees_spec (ic : ICtx) (L : IrSem.Locals) (F : FloatOps) (b : Builder) (op : UnaryOp) (a : Int)
    (ha : QV.Spec.ConstSem.representable a = true) (res : Operand) (b' : Builder)
    (h : visitUnaryExpression F b op (.const (.integer a)) = .ok (res, b')) :
    b' = b ∧ ∃ v, evalOperand ic L res = some v ∧ unop F op (.cint a) = some v :=
  QV.Proofs.SemFold.fold_unary_agrees_spec ic L F b op a ha res b' h

theorem representable_of_inI32 {v : Int} (h : QV.Spec.Sem.inI32 v = true) : QV.Spec.ConstSem.representable v = true := by
  simp only [QV.Spec.Sem.inI32, Bool.and_eq_true, decide_eq_true_eq] at h
  have e63 : (2 : Int) ^ 63 = 9223372036854775808 := by decide
  simp only [QV.Spec.ConstSem.representable, e63, Bool.and_eq_true, decide_eq_true_eq]
  omega

/-- RANGE CONDITION: where 32-bit `int` arithmetic on two values is defined, the 64-bit constant folding of the same
    operator on the same two numbers gives the same number -/
theorem fold_int32_agree (F : FloatOps) (op : ArithOp) (a c v : Int)
    (h : QV.Spec.Sem.arithInt op a c = some (.int v)) :
    QV.Spec.Sem.constBinary F (.arith op) a c = some (.cint v) := by
  have key : ∀ x : Int, QV.Spec.Sem.mkInt x = some (.int v) → QV.Spec.ConstSem.intRes x = .val (.int v) := by
    intro x hx
    unfold QV.Spec.Sem.mkInt at hx
    split at hx
    · rename_i hr
      simp at hx
      subst hx
      simp [QV.Spec.ConstSem.intRes, representable_of_inI32 hr]
    · simp at hx
  cases op with
  | add => simp [QV.Spec.Sem.constBinary, QV.Spec.Sem.tokOf, QV.Spec.Sem.tokOfArith, QV.Spec.ConstSem.binary,
      QV.Spec.ConstSem.binInt, key _ h]
  | sub => simp [QV.Spec.Sem.constBinary, QV.Spec.Sem.tokOf, QV.Spec.Sem.tokOfArith, QV.Spec.ConstSem.binary,
      QV.Spec.ConstSem.binInt, key _ h]
  | mul => simp [QV.Spec.Sem.constBinary, QV.Spec.Sem.tokOf, QV.Spec.Sem.tokOfArith, QV.Spec.ConstSem.binary,
      QV.Spec.ConstSem.binInt, key _ h]
  | div =>
    simp only [QV.Spec.Sem.arithInt] at h
    split at h
    · simp at h
    · rename_i hc
      simp [QV.Spec.Sem.constBinary, QV.Spec.Sem.tokOf, QV.Spec.Sem.tokOfArith, QV.Spec.ConstSem.binary,
        QV.Spec.ConstSem.binInt, hc, key _ h]
  | rem =>
    simp only [QV.Spec.Sem.arithInt] at h
    split at h
    · simp at h
    · rename_i hc
      split at h
      · simp [QV.Spec.Sem.constBinary, QV.Spec.Sem.tokOf, QV.Spec.Sem.tokOfArith, QV.Spec.ConstSem.binary,
          QV.Spec.ConstSem.binInt, hc, key _ h]
      · simp at h

/-- the condition is needed: as constants `2147483647 + 1` has a value, as `int`s it has none -/
theorem fold_int32_hypothesis_needed (F : FloatOps) :
    QV.Spec.Sem.constBinary F (.arith .add) 2147483647 1 = some (.cint 2147483648) ∧
    QV.Spec.Sem.arithInt .add 2147483647 1 = none := by
  constructor
  · simp [QV.Spec.Sem.constBinary, QV.Spec.Sem.tokOf, QV.Spec.Sem.tokOfArith, QV.Spec.ConstSem.binary,
      QV.Spec.ConstSem.binInt, QV.Spec.ConstSem.intRes, QV.Spec.ConstSem.representable]
  · decide

/-! ### (2) straight-line code: one emitted statement -/

/-- builder-state invariant of `emit_result` and the meaning of the emitted statement -/
theorem emit_sound (c : ICtx) (b : Builder) (blk : BasicBlock) (ty : TypeKind) (rv : Rvalue) (hty : ty ≠ .void)
    (ho : OpenAt b blk) (st st1 : State) (v : Val) (hev : evalRvalue c st rv = some (v, st1)) (hnc : isCint v = false) :
    let n := b.code.locals.length
    let r := b.emitResult ty rv
    -- fresh local, append-only statements, nothing else changed
    r.1 = .local n ty ∧
    r.2.code.locals = b.code.locals ++ [ty] ∧
    r.2.code.blocks = b.code.blocks.set b.currentRef { blk with statements := blk.statements ++ [.assign n rv] } ∧
    r.2.panic = b.panic ∧
    -- execution of the appended statement
    ∃ st', execStatement c r.2.code.locals st (.assign n rv) = some st' ∧
      evalOperand c st'.L r.1 = some v ∧ (∀ m, m ≠ n → st'.L m = st1.L m) ∧ st'.w = st1.w ∧ st'.trace = st1.trace := by
  intro n r
  have hr : r = _ := emitResult_nonvoid b ty rv blk hty ho
  rw [hr]
  refine ⟨rfl, rfl, rfl, rfl, { st1 with L := upd st1.L n v }, ?_, ?_, ?_, rfl, rfl⟩
  · exact exec_assign c _ st st1 n ty rv v v (by simp [n]) hev (coerceTo_of_not_cint _ _ hnc)
  · simp [evalOperand, upd, n]
  · intro m hm
    simp [upd, hm]

theorem unop_not_cint (F : FloatOps) (op : UnaryOp) (a v : Val) (ha : isCint a = false) (h : unop F op a = some v) :
    isCint v = false :=
  QV.Proofs.SemFold.unop_not_cint F op a v ha h

/-- dynamic unary operator: the emitted statement computes `Spec.Sem.unop` of the operand's value -/
theorem unary_correct (c : ICtx) (b : Builder) (blk : BasicBlock) (op : UnaryOp) (a res : Operand) (b' : Builder)
    (ho : OpenAt b blk) (h : emitUnaryExpression b op a = .ok (res, b'))
    (st : State) (va v : Val) (hva : evalOperand c st.L a = some va) (hnc : isCint va = false)
    (hv : unop c.H.F op va = some v) :
    ∃ stmt st', b'.code.blocks = b.code.blocks.set b.currentRef { blk with statements := blk.statements ++ [stmt] } ∧
      b'.code.locals.length = b.code.locals.length + 1 ∧
      execStatement c b'.code.locals st stmt = some st' ∧ evalOperand c st'.L res = some v ∧
      (∀ m, m ≠ b.code.locals.length → st'.L m = st.L m) ∧ st'.w = st.w ∧ st'.trace = st.trace := by
  obtain ⟨ty, hty, hshape⟩ := emitUnary_shape b op a res b' h
  have hev : evalRvalue c st (.unary op (ensureConcreteString a)) = some (v, st) := by
    simp [evalRvalue, evalOperand_ensure, hva, hv]
  obtain ⟨h1, h2, h3, _, st', h5, h6, h7, h8, h9⟩ :=
    emit_sound c b blk ty _ hty ho st st v hev (unop_not_cint _ op va v hnc hv)
  rw [← hshape] at h1 h2 h3 h5 h6
  simp only at h1 h2 h3 h5 h6
  exact ⟨_, st', h3, by simp [h2], h5, h6, h7, h8, h9⟩

/-- dynamic binary operator (not `&&`/`||`): the emitted statement computes `Spec.Sem.binop` of the operand values.
    The result must not be an untyped constant — it never is when an operand is typed (`binop_dynamic_not_cint`). -/
theorem binary_correct (c : ICtx) (env : Env) (b : Builder) (blk : BasicBlock) (op : BinaryOp) (l r res : Operand)
    (b' : Builder) (hlog : ∀ lop, op ≠ .logical lop) (ho : OpenAt b blk)
    (h : emitBinaryExpression env b op l r = .ok (res, b'))
    (st : State) (vl vr v : Val) (hvl : evalOperand c st.L l = some vl) (hvr : evalOperand c st.L r = some vr)
    (hv : binop c.H.F op vl vr = some v) (hnc : isCint v = false) :
    ∃ stmt st', b'.code.blocks = b.code.blocks.set b.currentRef { blk with statements := blk.statements ++ [stmt] } ∧
      b'.code.locals.length = b.code.locals.length + 1 ∧
      execStatement c b'.code.locals st stmt = some st' ∧ evalOperand c st'.L res = some v ∧
      (∀ m, m ≠ b.code.locals.length → st'.L m = st.L m) ∧ st'.w = st.w ∧ st'.trace = st.trace := by
  obtain ⟨ty, hty, hshape⟩ := emitBinary_shape env b op l r res b' hlog h
  have hev : evalRvalue c st (.binary op (ensureConcreteString l) (ensureConcreteString r)) = some (v, st) := by
    simp [evalRvalue, evalOperand_ensure, hvl, hvr, hv]
  obtain ⟨h1, h2, h3, _, st', h5, h6, h7, h8, h9⟩ := emit_sound c b blk ty _ hty ho st st v hev hnc
  rw [← hshape] at h1 h2 h3 h5 h6
  simp only at h1 h2 h3 h5 h6
  exact ⟨_, st', h3, by simp [h2], h5, h6, h7, h8, h9⟩

/-! ### (3) short-circuit operators and the ternary -/

/-- `&&`: over any final code that contains the two blocks wired by `visit_binary_logical_expression`
    (`visitLogical_shape`): if the left operand is false, control goes straight to the block after the right block with
    the sink `false`; if it is true, the right operand's code runs (hypothesis `hright`: from block `lRef+1` control
    reaches block `rRef`, whose leading statements leave the right operand's value) and the sink receives it.
    In both cases the sink holds `x && y` at block `rRef + 1`. -/
theorem logical_and_value (c : ICtx) (code : CodeBody) (lRef rRef n : Nat) (blL blR : BasicBlock)
    (ssL ssR : List Statement) (left right : Operand)
    (hbL : code.blocks[lRef]? = some blL) (hsL : blL.statements = ssL ++ [.assign n (.copy (.const (.bool false)))])
    (htL : blL.terminator = some (.brCond left (lRef + 1) (rRef + 1)))
    (hbR : code.blocks[rRef]? = some blR) (hsR : blR.statements = ssR ++ [.assign n (.copy right)])
    (htR : blR.terminator = some (.br (rRef + 1)))
    (hn : code.locals[n]? = some .bool) (hav : Avoids n left)
    (st st1 : State) (hs1 : execStatements c code.locals ssL st = some st1)
    (x : Bool) (hx : evalOperand c st1.L left = some (.bool x))
    (fuel fuel2 : Nat) (st2 st3 : State) (y : Bool)
    (hright : x = true →
      runFrom c code fuel (lRef + 1) { st1 with L := upd st1.L n (.bool false) } = runFrom c code (fuel2 + 1) rRef st2 ∧
      execStatements c code.locals ssR st2 = some st3 ∧ evalOperand c st3.L right = some (.bool y)) :
    ∃ fuel' st', runFrom c code (fuel + 1) lRef st = runFrom c code fuel' (rRef + 1) st' ∧
      st'.L n = some (.bool (x && y)) := by
  have h1 := logical_left_block c code lRef (lRef + 1) (rRef + 1) n fuel blL ssL false left hbL hsL htL hn hav st st1 hs1 x hx
  cases x with
  | false => exact ⟨fuel, _, by simpa using h1, by simp [upd]⟩
  | true =>
    obtain ⟨hr1, hr2, hr3⟩ := hright rfl
    have h2 := sink_block c code rRef (rRef + 1) n fuel2 blR ssR right .bool hbR hsR htR hn st2 st3 hr2 (.bool y) (.bool y) hr3
      (by simp [coerceTo])
    refine ⟨fuel2, { st3 with L := upd st3.L n (.bool y) }, ?_, by simp [upd]⟩
    rw [h1]
    simp only [↓reduceIte]
    rw [hr1, h2]

/-- `||`: dually — the sink is initialised to `true`, the right operand is evaluated only when the left one is false -/
theorem logical_or_value (c : ICtx) (code : CodeBody) (lRef rRef n : Nat) (blL blR : BasicBlock)
    (ssL ssR : List Statement) (left right : Operand)
    (hbL : code.blocks[lRef]? = some blL) (hsL : blL.statements = ssL ++ [.assign n (.copy (.const (.bool true)))])
    (htL : blL.terminator = some (.brCond left (rRef + 1) (lRef + 1)))
    (hbR : code.blocks[rRef]? = some blR) (hsR : blR.statements = ssR ++ [.assign n (.copy right)])
    (htR : blR.terminator = some (.br (rRef + 1)))
    (hn : code.locals[n]? = some .bool) (hav : Avoids n left)
    (st st1 : State) (hs1 : execStatements c code.locals ssL st = some st1)
    (x : Bool) (hx : evalOperand c st1.L left = some (.bool x))
    (fuel fuel2 : Nat) (st2 st3 : State) (y : Bool)
    (hright : x = false →
      runFrom c code fuel (lRef + 1) { st1 with L := upd st1.L n (.bool true) } = runFrom c code (fuel2 + 1) rRef st2 ∧
      execStatements c code.locals ssR st2 = some st3 ∧ evalOperand c st3.L right = some (.bool y)) :
    ∃ fuel' st', runFrom c code (fuel + 1) lRef st = runFrom c code fuel' (rRef + 1) st' ∧
      st'.L n = some (.bool (x || y)) := by
  have h1 := logical_left_block c code lRef (rRef + 1) (lRef + 1) n fuel blL ssL true left hbL hsL htL hn hav st st1 hs1 x hx
  cases x with
  | true => exact ⟨fuel, _, by simpa using h1, by simp [upd]⟩
  | false =>
    obtain ⟨hr1, hr2, hr3⟩ := hright rfl
    have h2 := sink_block c code rRef (rRef + 1) n fuel2 blR ssR right .bool hbR hsR htR hn st2 st3 hr2 (.bool y) (.bool y) hr3
      (by simp [coerceTo])
    refine ⟨fuel2, { st3 with L := upd st3.L n (.bool y) }, ?_, by simp [upd]⟩
    rw [h1]
    simp only [Bool.false_eq_true, ↓reduceIte]
    rw [hr1, h2]

/-- the two blocks exist in the builder right after `visit_binary_logical_expression` (see
    `QV.Proofs.SemVisit.visitLogical_shape` for the full statement): the initial value of the sink and the swapped
    branch targets are those `logical_and_value` / `logical_or_value` assume -/
theorem logical_wiring (b : Builder) (op : LogicOp) (left right : Operand) (lRef rRef : Nat) (bl br_ : BasicBlock)
    (hl : b.code.blocks[lRef]? = some bl) (hlt : bl.terminator = none)
    (hr : b.code.blocks[rRef]? = some br_) (hrt : br_.terminator = none) (hne : lRef ≠ rRef)
    (htl : left.typeDesc = .bool) (htr : right.typeDesc = .bool) :
    let r := visitBinaryLogicalExpression b op left lRef right rRef
    let n := b.code.locals.length
    r.1 = .local n .bool ∧ r.2.code.locals[n]? = some .bool ∧
    r.2.code.blocks[lRef]? = some { bl with
      statements := bl.statements ++ [.assign n (.copy (.const (.bool (match op with | .and => false | .or => true))))],
      terminator := some (.brCond left (match op with | .and => lRef + 1 | .or => rRef + 1)
        (match op with | .and => rRef + 1 | .or => lRef + 1)) } ∧
    r.2.code.blocks[rRef]? = some { br_ with
      statements := br_.statements ++ [.assign n (.copy right)], terminator := some (.br (rRef + 1)) } := by
  intro r n
  have hs : r = _ := visitLogical_shape b op left right lRef rRef bl br_ hl hlt hr hrt hne htl htr
  rw [hs]
  refine ⟨rfl, by simp [n], ?_, ?_⟩
  · simp only
    rw [getElem?_set_ne' _ _ _ _ (Ne.symm hne)]
    exact getElem?_set_self' _ _ _ _ hl
  · simp only
    exact getElem?_set_self' _ _ _ br_ (by rw [getElem?_set_ne' _ _ _ _ hne]; exact hr)

/-- ternary / `if`: the condition block selects by the condition (`cond_block`), each branch block stores its value
    in the sink and jumps to the join block (`sink_block`).  Over a final code with the three blocks wired as
    `visit_ternary_expression` wires them: the sink holds the value of the chosen branch at block `aRef + 1`. -/
theorem ternary_fragment (c : ICtx) (code : CodeBody) (cRef tRef aRef n : Nat) (blC blT blA : BasicBlock)
    (ssT ssA : List Statement) (cnd cons alt : Operand) (ty : TypeKind)
    (hbC : code.blocks[cRef]? = some blC) (htC : blC.terminator = some (.brCond cnd (cRef + 1) (tRef + 1)))
    (hbT : code.blocks[tRef]? = some blT) (hsT : blT.statements = ssT ++ [.assign n (.copy cons)])
    (htT : blT.terminator = some (.br (aRef + 1)))
    (hbA : code.blocks[aRef]? = some blA) (hsA : blA.statements = ssA ++ [.assign n (.copy alt)])
    (htA : blA.terminator = some (.br (aRef + 1)))
    (hn : code.locals[n]? = some ty)
    (st st1 : State) (hs1 : execStatements c code.locals blC.statements st = some st1)
    (x : Bool) (hx : evalOperand c st1.L cnd = some (.bool x))
    (fuel fuel2 : Nat) (st2 st3 : State) (v v' : Val) (hc : coerceTo (styOf ty).ty v = some v')
    -- the chosen branch: its code runs from its first block to its last block, whose leading statements leave its value
    (hbranch :
      runFrom c code fuel (if x then cRef + 1 else tRef + 1) st1 = runFrom c code (fuel2 + 1) (if x then tRef else aRef) st2 ∧
      execStatements c code.locals (if x then ssT else ssA) st2 = some st3 ∧
      evalOperand c st3.L (if x then cons else alt) = some v) :
    runFrom c code (fuel + 1) cRef st = runFrom c code fuel2 (aRef + 1) { st3 with L := upd st3.L n v' } := by
  rw [cond_block c code cRef (cRef + 1) (tRef + 1) fuel blC cnd hbC htC st st1 hs1 x hx]
  obtain ⟨h1, h2, h3⟩ := hbranch
  rw [h1]
  cases x with
  | true => exact sink_block c code tRef (aRef + 1) n fuel2 blT ssT cons ty hbT hsT htT hn st2 st3 h2 v v' h3 hc
  | false => exact sink_block c code aRef (aRef + 1) n fuel2 blA ssA alt ty hbA hsA htA hn st2 st3 h2 v v' h3 hc

/-- `if (c) A else B` / `if (c) A`: `visit_if_statement` finalises the condition block with
    `br_cond c (cRef+1) (tRef+1)`: control enters the consequence's first block iff the condition is true -/
theorem if_fragment (c : ICtx) (code : CodeBody) (cRef tRef : Nat) (blC : BasicBlock) (cnd : Operand)
    (hbC : code.blocks[cRef]? = some blC) (htC : blC.terminator = some (.brCond cnd (cRef + 1) (tRef + 1)))
    (st st1 : State) (hs1 : execStatements c code.locals blC.statements st = some st1)
    (x : Bool) (hx : evalOperand c st1.L cnd = some (.bool x)) (fuel : Nat) :
    runFrom c code (fuel + 1) cRef st = runFrom c code fuel (if x then cRef + 1 else tRef + 1) st1 :=
  cond_block c code cRef (cRef + 1) (tRef + 1) fuel blC cnd hbC htC st st1 hs1 x hx

/-- what `visit_if_statement` wires on open blocks -/
theorem if_wiring (b : Builder) (cnd : Operand) (cRef tRef : Nat) (blC blT : BasicBlock)
    (hc : b.code.blocks[cRef]? = some blC) (hct : blC.terminator = none)
    (ht : b.code.blocks[tRef]? = some blT) (htt : blT.terminator = none) (hne : cRef ≠ tRef) :
    let b' := visitIfStatement b cnd cRef tRef none
    b'.code.blocks[cRef]? = some { blC with terminator := some (.brCond cnd (cRef + 1) (tRef + 1)) } ∧
    b'.code.blocks[tRef]? = some { blT with terminator := some (.br (tRef + 1)) } ∧
    b'.code.locals = b.code.locals := by
  intro b'
  have hb' : b' = { b with code := { b.code with blocks :=
      ((b.code.blocks.set cRef { blC with terminator := some (.brCond cnd (cRef + 1) (tRef + 1)) }).set tRef
        ({ blT with terminator := some (.br (tRef + 1)) } : BasicBlock)) } } := by
    show visitIfStatement b cnd cRef tRef none = _
    simp only [visitIfStatement, Option.getD_none]
    rw [finalizeAt_open _ cRef blC _ hc hct]
    rw [finalizeAt_open _ tRef blT _ (by simp [getElem?_set_ne' _ _ _ _ hne, ht]) htt]
  rw [hb']
  refine ⟨?_, ?_, rfl⟩
  · simp only
    rw [getElem?_set_ne' _ _ _ _ (Ne.symm hne)]
    exact getElem?_set_self' _ _ _ _ hc
  · simp only
    exact getElem?_set_self' _ _ _ blT (by rw [getElem?_set_ne' _ _ _ _ hne]; exact ht)

/-! ### (4) completion values, and the end-to-end theorem for the smallest fragment -/

/-- `finalize_completion_values` when the start block has a completion value (the program is an expression statement,
    or ends in one in its last block): the value becomes `return value`, nothing else changes -/
theorem return_of_completion (code : CodeBody) (startRef : Nat) (start : BasicBlock) (a : Operand)
    (hb : code.blocks[startRef]? = some start) (ht : start.terminator = none) (hc : start.completionValue = some a) :
    finalizeCompletionValues code startRef =
      ({ code with blocks := code.blocks.set startRef { start with completionValue := none, terminator := some (.ret a) } },
       none) :=
  QV.Proofs.SemFold.return_of_completion code startRef start a hb ht hc

set_option linter.unusedSimpArgs false in
/-- the IR the model compiler builds for the binding `o.p` -/
theorem build_property_read (wc : QV.Model.Ctx) (o p cls : String) (ci : ClassInfo) (pinfo : PropInfo)
    (h1 : wc.objects.find? (·.1 = o) = some (o, cls))
    (h2 : wc.env.findClass cls = some ci)
    (h3 : ci.props.find? (·.name = p) = some pinfo)
    (h4 : pinfo.readable = true) (h5 : pinfo.ty ≠ .void) :
    (build wc false (.stmt (.expr (.member (.ident o) p)))).code =
      some { blocks := [{ statements := [.assign 0 (.readProperty (.namedObject o cls) pinfo)],
                          terminator := some (.ret (.local 0 pinfo.ty)) }],
             locals := [pinfo.ty] } := by
  simp [build, walkProgram, walkStmt, walkRvalue, walkExpr, processIdentifier, getLocals, Locals.get?, Ctx.getRef, h1,
    processRef, processItemProperty, toConcreteType, Operand.typeDesc, Ctx.classOfType, h2, h3, TypeKind.isPointer,
    interToRvalue, getB, consume, visitObjectProperty, h4, ensureConcreteString, Builder.emitResult, Builder.alloca, h5,
    setB, visitExpressionStatement, Builder.setCompletionValue, Builder.pushStatement, Builder.pushStatementAt,
    Builder.blockHasTerminator, Builder.modifyBlock, Builder.currentRef, finalizeCompletionValues, setBlock,
    bind, OptionT.bind, OptionT.mk, StateT.bind, pure, OptionT.pure, StateT.pure, get, getThe, MonadStateOf.get, StateT.get,
    modify, modifyGet, MonadStateOf.modifyGet, StateT.modifyGet, OptionT.lift, liftM, monadLift, MonadLift.monadLift,
    OptionT.run]

/-- the reference semantics of `o.p` -/
theorem spec_member_ident (c : QV.Spec.Sem.Ctx) (o p : String) (s : QV.Spec.Sem.St) :
    QV.Spec.Sem.evalExpr c (.member (.ident o) p) s =
      match QV.Spec.Sem.resolveIdent c o s with
      | some r => (match QV.Spec.Sem.memberRef c r p s with | some (.val v) => some (v, s) | _ => none)
      | none => none :=
  QV.Proofs.SemFold.spec_member_ident c o p s

/-- C01, proved END-TO-END for the fragment  P ::= `o.p`  (`o` an object id of the document, `p` a readable property of
    its class whose stored value is not an untyped constant): the IR built by the model compiler, executed in ANY world,
    returns the value the reference semantics gives to the source expression. -/
theorem compile_correct_property_read (wc : QV.Model.Ctx) (sc : QV.Spec.Sem.Ctx) (ic : ICtx) (hag : CtxAgree wc sc ic)
    (o p cls : String) (ci : ClassInfo) (pinfo : PropInfo)
    (h1 : wc.objects.find? (·.1 = o) = some (o, cls))
    (h2 : wc.env.findClass cls = some ci)
    (h3 : ci.props.find? (·.name = p) = some pinfo)
    (h4 : pinfo.readable = true) (h5 : pinfo.ty ≠ .void)
    (code : CodeBody) (hcode : (build wc false (.stmt (.expr (.member (.ident o) p)))).code = some code)
    (w : World) (hw : ∀ x q v, w.prop x q = some v → isCint v = false)
    (t : Ty) (v : Val)
    (hspec : QV.Spec.Sem.bindingValue sc (.stmt (.expr (.member (.ident o) p))) w t = some v) :
    IrSem.bindingValue ic code w t = some v := by
  rw [build_property_read wc o p cls ci pinfo h1 h2 h3 h4 h5] at hcode
  injection hcode with hcode
  subst hcode
  obtain ⟨oid, hso, hnamed⟩ := hag.objects o cls h1
  have hname : pinfo.name = p := by simpa using List.find?_some h3
  -- the reference semantics reads the property of the object
  simp only [QV.Spec.Sem.bindingValue, QV.Spec.Sem.run, QV.Spec.Sem.runStmt] at hspec
  rw [QV.Spec.Sem.execStmt.eq_def] at hspec
  simp only [spec_member_ident] at hspec
  simp only [QV.Spec.Sem.resolveIdent, QV.Spec.Sem.St.lookup, List.find?_nil, hso,
    Option.map_some, QV.Spec.Sem.memberRef, QV.Spec.Sem.memberOf] at hspec
  cases hp : w.prop oid p with
  | none => simp [hp] at hspec
  | some pv =>
    simp [hp] at hspec
    -- the IR reads the same property into local 0 and returns it
    have hnc := hw oid p pv hp
    simp [IrSem.bindingValue, IrSem.run, runFrom, execStatements, execStatement, evalRvalue, evalOperand, hnamed, hname,
      hp, coerceTo_of_not_cint _ _ hnc, upd]
    rw [coerceTo_of_not_cint _ _ hnc] at hspec
    exact Option.some.inj hspec

/-! ### the straight-line fragment, end to end -/

open QV.Proofs.SemWalk QV.Proofs.SemStraight
set_option linter.unusedSimpArgs false

theorem agree_of_ctxAgree {wc : Ctx} {sc : QV.Spec.Sem.Ctx} {ic : ICtx} (h : CtxAgree wc sc ic) :
    Agree wc sc ic := ⟨h.host, h.float, h.objects, h.props⟩

/-! ### the CFG-level induction: `&&` / `||`, the ternary -/

open QV.Proofs.SemCfg QV.Proofs.SemCfgWalk QV.Proofs.SemCfgCtl QV.Proofs.SemCfgBlock

/-- `&&` / `||` inside the induction (nested arbitrarily: hypotheses and conclusion have the same form, `WalkOk` —
    every successful walk of the expression from a builder whose current block is open, with the variables `wl` ~ `vars`
    in scope, yields `CResult`: `Walked` (blocks below the entry block untouched, the entry block only appended to, every
    block from the entry block up to the exit block terminated, the exit block — the current one — open), an operand
    that is a folded constant or a local of non-void type whose builder type agrees with the reference semantics' static
    type (`TyRel`), and `Sim`: over ANY final code that keeps the closed blocks and extends the exit block and the locals
    (`Covers`), in any state whose locals hold the variables' values, execution from the entry position reaches the exit
    position in at most as many transitions as blocks were closed, with the reference value in the operand and the
    earlier locals, the world and the trace unchanged).
    The left operand's exit block receives the initialisation of a fresh `bool` sink and the conditional branch, the
    right operand is walked into a new block whose exit block stores its value in the sink and jumps to the new current
    block; executed over any covering final code the sink holds `Spec.Sem`'s short-circuit value, and the right
    operand's blocks are entered only when the left operand does not decide -/
theorem walk_logical (wc : Ctx) (sc : QV.Spec.Sem.Ctx) (ic : ICtx) (wl : QV.Model.Locals) (vars : List QV.Spec.Sem.Var)
    (tok : BinaryToken) (lop : LogicOp) (l r : Expr) (htok : tok.toOp = some (.logical lop))
    (ihl : WalkOk wc sc ic wl vars l) (ihr : WalkOk wc sc ic wl vars r) : WalkOk wc sc ic wl vars (.binary tok l r) :=
  cfg_logical wc sc ic wl vars tok lop l r htok ihl ihr

/-- `c ? a : b` inside the induction: the condition's exit block branches to the first block of `a` or of `b`, each
    branch's exit block stores its value — converted to the common type `deduce_concrete_type` finds, which is the type
    `(x.unify y).concrete` the reference semantics converts the chosen value to (`deduce_tyrel_ternary`; an untyped
    constant branch takes the type of the other branch, two untyped constants become `int`) — in one fresh sink and jumps
    to the new current block -/
theorem walk_ternary (wc : Ctx) (sc : QV.Spec.Sem.Ctx) (ic : ICtx) (wl : QV.Model.Locals) (vars : List QV.Spec.Sem.Var)
    (c a b : Expr) (ihc : WalkOk wc sc ic wl vars c) (iha : WalkOk wc sc ic wl vars a) (ihb : WalkOk wc sc ic wl vars b)
    (hsa : ∀ vars', shapeOf vars' = shapeOf vars → QV.Spec.Sem.staticTy sc vars' a = QV.Spec.Sem.staticTy sc vars a)
    (hsb : ∀ vars', shapeOf vars' = shapeOf vars → QV.Spec.Sem.staticTy sc vars' b = QV.Spec.Sem.staticTy sc vars b) :
    WalkOk wc sc ic wl vars (.ternary c a b) :=
  cfg_ternary wc sc ic wl vars c a b ihc iha ihb hsa hsb

/-- the induction over the fragment `CfgFrag wc scope` (`scope`: the names of the variables in scope):
      e ::= integer | true | false | x | o.p | unary-op e | e ⊕ e | e && e | e || e | e ? e : e -/
theorem walk_fragment (wc : Ctx) (sc : QV.Spec.Sem.Ctx) (ic : ICtx) (hag : CtxAgree wc sc ic)
    (scope : List String) (wl : QV.Model.Locals) (vars : List QV.Spec.Sem.Var) (hsc : ScopeOf scope wl) (e : Expr)
    (hf : CfgFrag wc scope e) : WalkOk wc sc ic wl vars e :=
  walk_cfg wc sc ic (agree_of_ctxAgree hag) scope wl vars hsc e hf

/-- C01, END-TO-END for the fragment
      P ::= e;   e ::= integer | true | false | o.p | unary-op e | e ⊕ e | e && e | e || e | e ? e : e
    (⊕ any binary operator except `&&`/`||`; `o` an object id, `p` a property of its class of non-void type: `CfgFrag`).
    If the model compiler builds code for the binding `e`, then in EVERY world (whose stored values are typed) where the
    reference semantics defines the value of `e` at the property type, executing the built IR — a CFG with one block per
    branch point — returns that value. -/
theorem compile_correct_partial (wc : Ctx) (sc : QV.Spec.Sem.Ctx) (ic : ICtx) (hag : CtxAgree wc sc ic)
    (e : Expr) (hs : CfgFrag wc [] e) (code : CodeBody)
    (hcode : (build wc false (.stmt (.expr e))).code = some code)
    (w : World) (hw : ∀ x q u, w.prop x q = some u → isCint u = false) (t : Ty) (v : Val)
    (hspec : QV.Spec.Sem.bindingValue sc (.stmt (.expr e)) w t = some v) :
    IrSem.bindingValue ic code w t = some v := by
  unfold build at hcode
  simp only [walkProgram] at hcode
  have hrun := run_expr_stmt wc e {}
  cases hw0 : (walkRvalue wc e).run {} with
  | mk r s1 =>
    rw [hw0] at hrun
    cases r with
    | none =>
      simp only at hrun
      simp only [StateT.run, OptionT.run] at hrun hcode
      rw [hrun] at hcode
      simp at hcode
    | some op =>
      simp only at hrun
      simp only [StateT.run, OptionT.run] at hrun hcode
      rw [hrun] at hcode
      simp only at hcode
      have hopen0 : OpenAt ({} : WState).b {} := ⟨rfl, rfl⟩
      obtain ⟨_, hwalked, hok, _, hsim, _⟩ :=
        walk_cfg wc sc ic (agree_of_ctxAgree hag) [] [] [] ScopeOf.nil e hs {} s1 op hw0 rfl (VarRel.nil _) ⟨{}, hopen0⟩
      obtain ⟨blkE, hoE⟩ := hwalked.exitOpen
      have hlenE := open_len hoE
      -- the expression statement records the completion value in the exit block,
      -- `finalize_completion_values` turns it into `return`
      have hves0 : visitExpressionStatement s1.b op =
          { s1.b with code := { s1.b.code with
            blocks := s1.b.code.blocks.set s1.b.currentRef { blkE with completionValue := some (ensureConcreteString op) } } } := by
        simp only [visitExpressionStatement, Builder.setCompletionValue, Builder.blockHasTerminator, Builder.modifyBlock,
          hoE.1, hoE.2, Option.isSome_none, Bool.false_eq_true, ↓reduceIte]
      have hves : (visitExpressionStatement s1.b op).code.blocks =
          s1.b.code.blocks.set s1.b.currentRef { blkE with completionValue := some (ensureConcreteString op) } ∧
          (visitExpressionStatement s1.b op).code.locals = s1.b.code.locals ∧
          (visitExpressionStatement s1.b op).currentRef = s1.b.currentRef := by
        rw [hves0]
        exact ⟨rfl, rfl, by simp [Builder.currentRef]⟩
      obtain ⟨hvb, hvl, hvc⟩ := hves
      have hfin := return_of_completion (visitExpressionStatement s1.b op).code s1.b.currentRef
        { blkE with completionValue := some (ensureConcreteString op) } (ensureConcreteString op)
        (by rw [hvb]; exact getElem?_set_self' _ _ _ _ hoE.1) hoE.2 rfl
      rw [hvc, hfin] at hcode
      simp only [Option.some.injEq] at hcode
      subst hcode
      -- the reference semantics
      simp only [QV.Spec.Sem.bindingValue, QV.Spec.Sem.run, QV.Spec.Sem.runStmt] at hspec
      rw [QV.Spec.Sem.execStmt.eq_def] at hspec
      simp only at hspec
      cases hse : QV.Spec.Sem.evalExpr sc e { w := w } with
      | none => simp [hse] at hspec
      | some p =>
        obtain ⟨val, sst'⟩ := p
        simp only [hse, Option.map_some, Option.bind_some, Option.getD_some] at hspec
        have key : ∀ Cfin : CodeBody,
            Cfin.blocks = s1.b.code.blocks.set s1.b.currentRef
              { statements := blkE.statements, terminator := some (.ret (ensureConcreteString op)) } →
            Cfin.locals = s1.b.code.locals → IrSem.bindingValue ic Cfin w t = some v := by
          intro Cfin hCb hCl
          have hCE : Cfin.blocks[s1.b.currentRef]? =
              some { statements := blkE.statements, terminator := some (.ret (ensureConcreteString op)) } := by
            rw [hCb]; exact getElem?_set_self' _ _ _ _ hoE.1
          have hcov : Covers Cfin s1.b ({} : WState).b.currentRef := by
            refine ⟨by rw [hCl]; exact List.prefix_refl _, ?_, blkE, _, hoE.1, hCE, List.prefix_refl _⟩
            intro i _ hi
            rw [hCb, getElem?_set_ne' _ _ _ _ (by omega)]
          obtain ⟨_, d, st', hd, hrunE, hv, _, _, _, _⟩ :=
            hsim Cfin hcov { w := w, L := fun _ => none, trace := [] } { w := w } sst' val rfl rfl hw (ValRel.nil _ _) hse
          have hinit : initLocals Cfin [] = fun _ => none := by funext n; simp [initLocals]
          have hlenC : Cfin.blocks.length = s1.b.currentRef + 1 := by rw [hCb, List.length_set, hlenE]
          have hcur0 : ({} : WState).b.currentRef = 0 := rfl
          have hlen0 : curLen ({} : WState).b = 0 := rfl
          have hd' : d ≤ s1.b.currentRef := by rw [hcur0] at hd; omega
          simp only [IrSem.bindingValue, IrSem.run, hinit, hlenC]
          rw [runFrom_eq_runAt]
          have hsplit : s1.b.currentRef + 1 = (s1.b.currentRef + 1 - d) + d := by omega
          rw [hsplit]
          have h2 := hrunE (s1.b.currentRef + 1 - d)
          rw [hcur0, hlen0] at h2
          rw [h2, runAt_ret ic Cfin _ _ _ _ (ensureConcreteString op) st' hCE (by simp [curLen_of_open hoE]) rfl]
          rw [evalOperand_ensure, hv]
          simpa using hspec
        exact key _ (by simp only [hvb, List.set_set]) hvl

/-- the straight-line fragment (no `&&`, `||`, `?:`): the earlier form of the theorem, now a corollary -/
theorem compile_correct_straight (wc : Ctx) (sc : QV.Spec.Sem.Ctx) (ic : ICtx) (hag : CtxAgree wc sc ic)
    (e : Expr) (hs : Straight wc e) (code : CodeBody)
    (hcode : (build wc false (.stmt (.expr e))).code = some code)
    (w : World) (hw : ∀ x q u, w.prop x q = some u → isCint u = false) (t : Ty) (v : Val)
    (hspec : QV.Spec.Sem.bindingValue sc (.stmt (.expr e)) w t = some v) :
    IrSem.bindingValue ic code w t = some v :=
  compile_correct_partial wc sc ic hag e (straight_cfgFrag hs) code hcode w hw t v hspec

/-! ### the statement level: blocks with `let` / `const` -/

/-- `let x = e; rest` / `const x = e; rest` inside the induction over statement lists (`BlockOk`: the walk of the list up
    to the operand of its final expression is a CFG walk — `Walked` —, and over any covering final code, in any state
    whose locals hold the values of the variables in scope, execution from the entry position reaches the exit position
    with, in that operand, the value the reference semantics gives to the list as completion value / `return` value):
    the declaration walks `e`, allocates ONE local of the concrete type of its operand — the type the reference semantics
    gives the variable (`decl_type`) — binds the name and stores the operand there; the relation between the walk's name
    map, the reference semantics' variable stack and the IR locals (`VarRel`, `ValRel`) is re-established with `x` added,
    so that `rest` — which may read `x` (`cfg_var`: no code, the variable's local is the operand) — runs in related
    states -/
theorem walk_block_let (wc : Ctx) (sc : QV.Spec.Sem.Ctx) (ic : ICtx) (isRet : Bool) (wl : QV.Model.Locals)
    (vars : List QV.Spec.Sem.Var) (kind : DeclKind) (x : String) (e : Expr) (rest : List Stmt)
    (he : WalkOk wc sc ic wl vars e)
    (hse : ∀ vars', shapeOf vars' = shapeOf vars → QV.Spec.Sem.staticTy sc vars' e = QV.Spec.Sem.staticTy sc vars e)
    (hrest : ∀ (n : Nat) (sty : STy), BlockOk wc sc ic isRet (wl.insert x (n, kind))
      ({ name := x, sty := sty, const := kind = .const_, val := none } :: vars) rest) :
    BlockOk wc sc ic isRet wl vars (.lexical kind [{ name := x, ty := none, value := some e }] :: rest) :=
  block_decl wc sc ic isRet wl vars kind x e rest he hse hrest

/-- the induction over the block fragment `BlockFrag wc isRet scope`:
      B ::= e | return e | let x = e; B | const x = e; B      (e in `CfgFrag` with the variables declared so far) -/
theorem walk_block_fragment (wc : Ctx) (sc : QV.Spec.Sem.Ctx) (ic : ICtx) (hag : CtxAgree wc sc ic) (isRet : Bool)
    (scope : List String) (stmts : List Stmt) (hf : BlockFrag wc isRet scope stmts)
    (wl : QV.Model.Locals) (vars : List QV.Spec.Sem.Var) (hsc : ScopeOf scope wl) : BlockOk wc sc ic isRet wl vars stmts :=
  walk_block wc sc ic (agree_of_ctxAgree hag) isRet scope stmts hf wl vars hsc

/-- C01, END-TO-END for blocks `{ let/const x₁ = e₁; …; let/const xₙ = eₙ; e }` (`isRet = false`) and
    `{ let/const x₁ = e₁; …; let/const xₙ = eₙ; return e }` (`isRet = true`) whose expressions are in the fragment of
    `compile_correct_partial` extended by reads of the variables declared before them (`BlockFrag`) -/
theorem compile_correct_block (wc : Ctx) (sc : QV.Spec.Sem.Ctx) (ic : ICtx) (hag : CtxAgree wc sc ic) (isRet : Bool)
    (stmts : List Stmt) (hs : BlockFrag wc isRet [] stmts) (code : CodeBody)
    (hcode : (build wc false (.stmt (.block stmts))).code = some code)
    (w : World) (hw : ∀ x q u, w.prop x q = some u → isCint u = false) (t : Ty) (v : Val)
    (hspec : QV.Spec.Sem.bindingValue sc (.stmt (.block stmts)) w t = some v) :
    IrSem.bindingValue ic code w t = some v := by
  unfold build at hcode
  simp only [walkProgram] at hcode
  have hrun := run_block wc stmts {}
  cases hw0 : (walkStmts wc none stmts).run {} with
  | mk r s' =>
    rw [hw0] at hrun
    cases r with
    | none =>
      simp only at hrun
      simp only [StateT.run, OptionT.run] at hrun hcode
      rw [hrun] at hcode
      simp at hcode
    | some ok =>
      cases ok with
      | false =>
        simp only at hrun
        simp only [StateT.run, OptionT.run] at hrun hcode
        rw [hrun] at hcode
        simp at hcode
      | true =>
        simp only at hrun
        simp only [StateT.run, OptionT.run] at hrun hcode
        rw [hrun] at hcode
        simp only at hcode
        have hopen0 : OpenAt ({} : WState).b {} := ⟨rfl, rfl⟩
        obtain ⟨s1, op, hfin, hwalked, hok, hsim⟩ :=
          walk_block wc sc ic (agree_of_ctxAgree hag) isRet [] stmts hs [] [] ScopeOf.nil {} s' hw0 rfl (VarRel.nil _)
            ⟨{}, hopen0⟩
        rw [hfin] at hcode
        injection hcode with hcode
        subst hcode
        -- the reference semantics
        simp only [QV.Spec.Sem.bindingValue, QV.Spec.Sem.run, QV.Spec.Sem.runStmt] at hspec
        rw [QV.Spec.Sem.execStmt.eq_def] at hspec
        simp only at hspec
        cases hse : QV.Spec.Sem.execStmts sc stmts { w := w } with
        | none => simp [hse] at hspec
        | some p =>
          obtain ⟨out, sst'⟩ := p
          have hsim' : ∀ C, Covers C s1.b ({} : WState).b.currentRef → ∃ val d st', out = outOf isRet val ∧
              d ≤ s1.b.currentRef - ({} : WState).b.currentRef ∧
              (∀ fuel, runAt ic C (fuel + d) ({} : WState).b.currentRef (curLen ({} : WState).b)
                  { w := w, L := fun _ => none, trace := [] } =
                runAt ic C fuel s1.b.currentRef (curLen s1.b) st') ∧
              evalOperand ic st'.L op = some val := by
            intro C hC
            obtain ⟨val, hout, d, st', hd, hrun', hv⟩ :=
              hsim C hC { w := w, L := fun _ => none, trace := [] } { w := w } out sst' rfl rfl hw (ValRel.nil _ _) hse
            exact ⟨val, d, st', hout, hd, hrun', hv⟩
          cases isRet with
          | false =>
            obtain ⟨val, st', hout, hrunI⟩ := ir_of_expr_finish ic s1 op w (fun val => out = outOf false val) hwalked hsim'
            simp only [finish, Bool.false_eq_true, ↓reduceIte, IrSem.bindingValue, hrunI, Option.bind_some]
            simp only [outOf, Bool.false_eq_true, ↓reduceIte] at hout
            subst hout
            simpa [hse] using hspec
          | true =>
            obtain ⟨val, st', hout, hrunI⟩ := ir_of_return_finish ic s1 op w (fun val => out = outOf true val) hwalked hsim'
            simp only [finish, ↓reduceIte, IrSem.bindingValue, hrunI, Option.bind_some]
            simp only [outOf, ↓reduceIte] at hout
            subst hout
            simpa [hse] using hspec

/-! ### non-vacuity -/

/-- `-a.i % 2 < b.j` is in the straight-line fragment (given that `a`, `b` are object ids with those properties) -/
example (wc : QV.Model.Ctx) (ci : ClassInfo) (pi pj : PropInfo)
    (ha : wc.objects.find? (·.1 = "a") = some ("a", "VBase")) (hb : wc.objects.find? (·.1 = "b") = some ("b", "VBase"))
    (hc : wc.env.findClass "VBase" = some ci) (hi : ci.props.find? (·.name = "i") = some pi)
    (hj : ci.props.find? (·.name = "j") = some pj) (hti : pi.ty ≠ .void) (htj : pj.ty ≠ .void) :
    Straight wc (.binary .lessThan (.binary .rem (.unary .minus (.member (.ident "a") "i")) (.integer 2))
      (.member (.ident "b") "j")) :=
  .binary _ (.cmp .lt) _ _ rfl (by intro l h; cases h)
    (.binary _ (.arith .rem) _ _ rfl (by intro l h; cases h)
      (.unary _ _ (.read "a" "i" "VBase" ci pi ha hc hi hti)) (.int 2))
    (.read "b" "j" "VBase" ci pj hb hc hj htj)

/-- `(a.b && (a.i < 3 || b.j > 0)) ? a.i : -b.j` is in the fragment of `compile_correct_partial` -/
example (wc : QV.Model.Ctx) (ci : ClassInfo) (pi pj pb : PropInfo)
    (ha : wc.objects.find? (·.1 = "a") = some ("a", "VBase")) (hb : wc.objects.find? (·.1 = "b") = some ("b", "VBase"))
    (hc : wc.env.findClass "VBase" = some ci) (hi : ci.props.find? (·.name = "i") = some pi)
    (hj : ci.props.find? (·.name = "j") = some pj) (hbb : ci.props.find? (·.name = "b") = some pb)
    (hti : pi.ty ≠ .void) (htj : pj.ty ≠ .void) (htb : pb.ty ≠ .void) :
    CfgFrag wc [] (.ternary
      (.binary .logicalAnd (.member (.ident "a") "b")
        (.binary .logicalOr (.binary .lessThan (.member (.ident "a") "i") (.integer 3))
          (.binary .greaterThan (.member (.ident "b") "j") (.integer 0))))
      (.member (.ident "a") "i") (.unary .minus (.member (.ident "b") "j"))) :=
  .ternary _ _ _
    (.logical _ .and _ _ rfl (.read "a" "b" "VBase" ci pb ha hc hbb htb (by simp))
      (.logical _ .or _ _ rfl
        (.binary _ (.cmp .lt) _ _ rfl (by intro l h; cases h) (.read "a" "i" "VBase" ci pi ha hc hi hti (by simp)) (.int 3))
        (.binary _ (.cmp .gt) _ _ rfl (by intro l h; cases h) (.read "b" "j" "VBase" ci pj hb hc hj htj (by simp)) (.int 0))))
    (.read "a" "i" "VBase" ci pi ha hc hi hti (by simp)) (.unary _ _ (.read "b" "j" "VBase" ci pj hb hc hj htj (by simp)))

/-- `{ const n = a.i * 2; let ok = n > 0 && b.j < n; return ok ? n : -n }` is in the fragment of `compile_correct_block` -/
example (wc : QV.Model.Ctx) (ci : ClassInfo) (pi pj : PropInfo)
    (ha : wc.objects.find? (·.1 = "a") = some ("a", "VBase")) (hb : wc.objects.find? (·.1 = "b") = some ("b", "VBase"))
    (hc : wc.env.findClass "VBase" = some ci) (hi : ci.props.find? (·.name = "i") = some pi)
    (hj : ci.props.find? (·.name = "j") = some pj) (hti : pi.ty ≠ .void) (htj : pj.ty ≠ .void) :
    BlockFrag wc true []
      [.lexical .const_ [{ name := "n", ty := none, value := some (.binary .mul (.member (.ident "a") "i") (.integer 2)) }],
       .lexical .let_ [{ name := "ok", ty := none, value := some (.binary .logicalAnd (.binary .greaterThan (.ident "n") (.integer 0)) (.binary .lessThan (.member (.ident "b") "j") (.ident "n"))) }],
       .return_ (some (.ternary (.ident "ok") (.ident "n") (.unary .minus (.ident "n"))))] :=
  .decl _ _ _ _ _ _
    (.binary _ (.arith .mul) _ _ rfl (by intro l h; cases h) (.read "a" "i" "VBase" ci pi ha hc hi hti (by simp)) (.int 2))
    (.decl _ _ _ _ _ _
      (.logical _ .and _ _ rfl
        (.binary _ (.cmp .gt) _ _ rfl (by intro l h; cases h) (.var "n" (by simp)) (.int 0))
        (.binary _ (.cmp .lt) _ _ rfl (by intro l h; cases h) (.read "b" "j" "VBase" ci pj hb hc hj htj (by simp))
          (.var "n" (by simp))))
      (.ret _ _ (.ternary _ _ _ (.var "ok" (by simp)) (.var "n" (by simp)) (.unary _ _ (.var "n" (by simp))))))

/-- a world and contexts in which the partial theorem applies and yields a concrete value -/
example : QV.Spec.Sem.arithInt .rem (-7) 2 = some (.int (-1)) ∧ QV.Spec.Sem.arithInt .div (-7) 2 = some (.int (-3)) ∧
    QV.Spec.Sem.shiftVal .shr (.int (-7)) 1 = some (.int (-4)) ∧ QV.Spec.Sem.arithInt .add 2147483647 1 = none ∧
    QV.Spec.Sem.arithInt .rem (-2147483648) (-1) = none ∧ QV.Spec.Sem.arithUint .sub 0 1 = some (.uint 4294967295) :=
  ⟨rfl, rfl, rfl, rfl, rfl, rfl⟩

/-! ### MORE STATEMENT FORMS (appended section): assignment to a declared `let` variable -/

section MoreStatements
open QV.Proofs.SemCfgStmt

/-- `x = e; rest` inside the induction over statement lists (`SOk` = `BlockOk` with the additional invariant `VarInj`:
    different names in scope are bound to different IR locals): the walk of `e`, ONE store of its operand into the
    variable's local — converted to the local's type, which is the conversion `Spec.Sem` applies to the assigned value
    (`VarRel`) —, `void` recorded as the completion value of the current block; the relation between the name map, the
    variable stack of the reference semantics and the IR locals is re-established for the updated variable
    (`find?_assignVar_self`) and kept for every other one (`find?_assignVar_ne`, `VarInj`) -/
theorem walk_block_assign (wc : Ctx) (sc : QV.Spec.Sem.Ctx) (ic : ICtx) (isRet : Bool) (wl : QV.Model.Locals)
    (vars : List QV.Spec.Sem.Var) (x : String) (n : Nat) (k : DeclKind) (e : Expr) (rest : List Stmt)
    (hx : wl.get? x = some (n, k)) (he : WalkOk wc sc ic wl vars e) (hrest : SOk wc sc ic isRet wl vars rest) :
    SOk wc sc ic isRet wl vars (.expr (.assign (.ident x) e) :: rest) :=
  s_assign wc sc ic isRet wl vars x n k e rest hx he hrest

/-- the induction over `SFrag wc isRet scope`:
      S ::= e | return e | let x = e; S | const x = e; S | x = e; S     (x a variable in scope; e in `CfgFrag`) -/
theorem walk_statements (wc : Ctx) (sc : QV.Spec.Sem.Ctx) (ic : ICtx) (hag : CtxAgree wc sc ic) (isRet : Bool)
    (scope : List String) (stmts : List Stmt) (hf : SFrag wc isRet scope stmts)
    (wl : QV.Model.Locals) (vars : List QV.Spec.Sem.Var) (hsc : ScopeOf scope wl) : SOk wc sc ic isRet wl vars stmts :=
  walk_s wc sc ic (agree_of_ctxAgree hag) isRet scope stmts hf wl vars hsc

/-- C01, END-TO-END for blocks with assignments:  P ::= { S },
      S ::= e | return e | let x = e; S | const x = e; S | x = e; S
    (an assignment to a `const` variable or of an operand that is not assignable to the variable's type is refused by
    the compiler: then there is no code and the theorem says nothing) -/
theorem compile_correct_block_assign (wc : Ctx) (sc : QV.Spec.Sem.Ctx) (ic : ICtx) (hag : CtxAgree wc sc ic) (isRet : Bool)
    (stmts : List Stmt) (hs : SFrag wc isRet [] stmts) (code : CodeBody)
    (hcode : (build wc false (.stmt (.block stmts))).code = some code)
    (w : World) (hw : ∀ x q u, w.prop x q = some u → isCint u = false) (t : Ty) (v : Val)
    (hspec : QV.Spec.Sem.bindingValue sc (.stmt (.block stmts)) w t = some v) :
    IrSem.bindingValue ic code w t = some v := by
  unfold build at hcode
  simp only [walkProgram] at hcode
  have hrun := run_block wc stmts {}
  cases hw0 : (walkStmts wc none stmts).run {} with
  | mk r s' =>
    rw [hw0] at hrun
    cases r with
    | none =>
      simp only at hrun
      simp only [StateT.run, OptionT.run] at hrun hcode
      rw [hrun] at hcode
      simp at hcode
    | some ok =>
      cases ok with
      | false =>
        simp only at hrun
        simp only [StateT.run, OptionT.run] at hrun hcode
        rw [hrun] at hcode
        simp at hcode
      | true =>
        simp only at hrun
        simp only [StateT.run, OptionT.run] at hrun hcode
        rw [hrun] at hcode
        simp only at hcode
        have hopen0 : OpenAt ({} : WState).b {} := ⟨rfl, rfl⟩
        obtain ⟨s1, op, hfin, hwalked, hok, hsim⟩ :=
          walk_s wc sc ic (agree_of_ctxAgree hag) isRet [] stmts hs [] [] ScopeOf.nil {} s' hw0 rfl (VarRel.nil _)
            VarInj.nil ⟨{}, hopen0⟩
        rw [hfin] at hcode
        injection hcode with hcode
        subst hcode
        -- the reference semantics
        simp only [QV.Spec.Sem.bindingValue, QV.Spec.Sem.run, QV.Spec.Sem.runStmt] at hspec
        rw [QV.Spec.Sem.execStmt.eq_def] at hspec
        simp only at hspec
        cases hse : QV.Spec.Sem.execStmts sc stmts { w := w } with
        | none => simp [hse] at hspec
        | some p =>
          obtain ⟨out, sst'⟩ := p
          have hsim' : ∀ C, Covers C s1.b ({} : WState).b.currentRef → ∃ val d st', out = outOf isRet val ∧
              d ≤ s1.b.currentRef - ({} : WState).b.currentRef ∧
              (∀ fuel, runAt ic C (fuel + d) ({} : WState).b.currentRef (curLen ({} : WState).b)
                  { w := w, L := fun _ => none, trace := [] } =
                runAt ic C fuel s1.b.currentRef (curLen s1.b) st') ∧
              evalOperand ic st'.L op = some val := by
            intro C hC
            obtain ⟨val, hout, d, st', hd, hrun', hv⟩ :=
              hsim C hC { w := w, L := fun _ => none, trace := [] } { w := w } out sst' rfl rfl hw (ValRel.nil _ _) hse
            exact ⟨val, d, st', hout, hd, hrun', hv⟩
          cases isRet with
          | false =>
            obtain ⟨val, st', hout, hrunI⟩ := ir_of_expr_finish ic s1 op w (fun val => out = outOf false val) hwalked hsim'
            simp only [finish, Bool.false_eq_true, ↓reduceIte, IrSem.bindingValue, hrunI, Option.bind_some]
            simp only [outOf, Bool.false_eq_true, ↓reduceIte] at hout
            subst hout
            simpa [hse] using hspec
          | true =>
            obtain ⟨val, st', hout, hrunI⟩ := ir_of_return_finish ic s1 op w (fun val => out = outOf true val) hwalked hsim'
            simp only [finish, ↓reduceIte, IrSem.bindingValue, hrunI, Option.bind_some]
            simp only [outOf, ↓reduceIte] at hout
            subst hout
            simpa [hse] using hspec

/-- `{ let acc = a.i; const k = 3; acc = acc * k + b.j; acc = acc > 100 ? 100 : acc; return acc }` is in the fragment -/
example (wc : QV.Model.Ctx) (ci : ClassInfo) (pi pj : PropInfo)
    (ha : wc.objects.find? (·.1 = "a") = some ("a", "VBase")) (hb : wc.objects.find? (·.1 = "b") = some ("b", "VBase"))
    (hc : wc.env.findClass "VBase" = some ci) (hi : ci.props.find? (·.name = "i") = some pi)
    (hj : ci.props.find? (·.name = "j") = some pj) (hti : pi.ty ≠ .void) (htj : pj.ty ≠ .void) :
    SFrag wc true []
      [.lexical .let_ [{ name := "acc", ty := none, value := some (.member (.ident "a") "i") }],
       .lexical .const_ [{ name := "k", ty := none, value := some (.integer 3) }],
       .expr (.assign (.ident "acc") (.binary .add (.binary .mul (.ident "acc") (.ident "k")) (.member (.ident "b") "j"))),
       .expr (.assign (.ident "acc") (.ternary (.binary .greaterThan (.ident "acc") (.integer 100)) (.integer 100) (.ident "acc"))),
       .return_ (some (.ident "acc"))] :=
  .decl _ _ _ _ _ _ (.read "a" "i" "VBase" ci pi ha hc hi hti (by simp))
    (.decl _ _ _ _ _ _ (.int 3)
      (.assign _ _ _ _ _ (by simp)
        (.binary _ (.arith .add) _ _ rfl (by intro l h; cases h)
          (.binary _ (.arith .mul) _ _ rfl (by intro l h; cases h) (.var "acc" (by simp)) (.var "k" (by simp)))
          (.read "b" "j" "VBase" ci pj hb hc hj htj (by simp)))
        (.assign _ _ _ _ _ (by simp)
          (.ternary _ _ _ (.binary _ (.cmp .gt) _ _ rfl (by intro l h; cases h) (.var "acc" (by simp)) (.int 100))
            (.int 100) (.var "acc" (by simp)))
          (.ret _ _ (.var "acc" (by simp))))))

end MoreStatements

/-! ### MORE STATEMENT FORMS (appended section, continued): `if` statements -/

section IfStatements
open QV.Proofs.SemCfgStmt QV.Proofs.SemCfgStmtIf

/-- `if (c) { A } else { B }; rest` inside the induction over statement lists (branch bodies `A ::= ε | x = e; A`,
    `BodyOk`: a CFG walk that leaves the name map as it is and, executed, leaves the variables — updated as the reference
    semantics updates them — in their locals): the condition's exit block branches to the first block of `A` or of `B`
    (`visit_if_statement`), each branch's exit block jumps to the new current block, where `rest` continues with the
    variables related again; the branch blocks' completion values (`void`, recorded by the assignments) are dead because
    a statement follows -/
theorem walk_block_if_else (wc : Ctx) (sc : QV.Spec.Sem.Ctx) (ic : ICtx) (isRet : Bool) (wl : QV.Model.Locals)
    (vars : List QV.Spec.Sem.Var) (cnd : Expr) (A B rest : List Stmt)
    (hc : WalkOk wc sc ic wl vars cnd) (hA : BodyOk wc sc ic wl vars A) (hB : BodyOk wc sc ic wl vars B)
    (hrest : SOk wc sc ic isRet wl vars rest) :
    SOk wc sc ic isRet wl vars (.if_ cnd (.block A) (some (.block B)) :: rest) :=
  s_if_else wc sc ic isRet wl vars cnd A B rest hc hA hB hrest

/-- `if (c) { A }; rest`: the condition's exit block branches to the first block of `A` or to the join block -/
theorem walk_block_if (wc : Ctx) (sc : QV.Spec.Sem.Ctx) (ic : ICtx) (isRet : Bool) (wl : QV.Model.Locals)
    (vars : List QV.Spec.Sem.Var) (cnd : Expr) (A rest : List Stmt)
    (hc : WalkOk wc sc ic wl vars cnd) (hA : BodyOk wc sc ic wl vars A) (hrest : SOk wc sc ic isRet wl vars rest) :
    SOk wc sc ic isRet wl vars (.if_ cnd (.block A) none :: rest) :=
  s_if1 wc sc ic isRet wl vars cnd A rest hc hA hrest

/-- the induction over `IFrag wc isRet scope`:
      S ::= e | return e | let x = e; S | const x = e; S | x = e; S | if (e) { A } else { A }; S | if (e) { A }; S
      A ::= ε | x = e; A -/
theorem walk_statements_if (wc : Ctx) (sc : QV.Spec.Sem.Ctx) (ic : ICtx) (hag : CtxAgree wc sc ic) (isRet : Bool)
    (scope : List String) (stmts : List Stmt) (hf : IFrag wc isRet scope stmts)
    (wl : QV.Model.Locals) (vars : List QV.Spec.Sem.Var) (hsc : ScopeOf scope wl) : SOk wc sc ic isRet wl vars stmts :=
  walk_i wc sc ic (agree_of_ctxAgree hag) isRet scope stmts hf wl vars hsc

/-- C01, END-TO-END for blocks with assignments and `if` statements:  P ::= { S },
      S ::= e | return e | let x = e; S | const x = e; S | x = e; S | if (e) { A } else { A }; S | if (e) { A }; S
      A ::= ε | x = e; A
    (the `if` is followed by at least the final expression / `return`; its branches assign to variables in scope) -/
theorem compile_correct_block_if (wc : Ctx) (sc : QV.Spec.Sem.Ctx) (ic : ICtx) (hag : CtxAgree wc sc ic) (isRet : Bool)
    (stmts : List Stmt) (hs : IFrag wc isRet [] stmts) (code : CodeBody)
    (hcode : (build wc false (.stmt (.block stmts))).code = some code)
    (w : World) (hw : ∀ x q u, w.prop x q = some u → isCint u = false) (t : Ty) (v : Val)
    (hspec : QV.Spec.Sem.bindingValue sc (.stmt (.block stmts)) w t = some v) :
    IrSem.bindingValue ic code w t = some v := by
  unfold build at hcode
  simp only [walkProgram] at hcode
  have hrun := run_block wc stmts {}
  cases hw0 : (walkStmts wc none stmts).run {} with
  | mk r s' =>
    rw [hw0] at hrun
    cases r with
    | none =>
      simp only at hrun
      simp only [StateT.run, OptionT.run] at hrun hcode
      rw [hrun] at hcode
      simp at hcode
    | some ok =>
      cases ok with
      | false =>
        simp only at hrun
        simp only [StateT.run, OptionT.run] at hrun hcode
        rw [hrun] at hcode
        simp at hcode
      | true =>
        simp only at hrun
        simp only [StateT.run, OptionT.run] at hrun hcode
        rw [hrun] at hcode
        simp only at hcode
        have hopen0 : OpenAt ({} : WState).b {} := ⟨rfl, rfl⟩
        obtain ⟨s1, op, hfin, hwalked, hok, hsim⟩ :=
          walk_i wc sc ic (agree_of_ctxAgree hag) isRet [] stmts hs [] [] ScopeOf.nil {} s' hw0 rfl (VarRel.nil _)
            VarInj.nil ⟨{}, hopen0⟩
        rw [hfin] at hcode
        injection hcode with hcode
        subst hcode
        -- the reference semantics
        simp only [QV.Spec.Sem.bindingValue, QV.Spec.Sem.run, QV.Spec.Sem.runStmt] at hspec
        rw [QV.Spec.Sem.execStmt.eq_def] at hspec
        simp only at hspec
        cases hse : QV.Spec.Sem.execStmts sc stmts { w := w } with
        | none => simp [hse] at hspec
        | some p =>
          obtain ⟨out, sst'⟩ := p
          have hsim' : ∀ C, Covers C s1.b ({} : WState).b.currentRef → ∃ val d st', out = outOf isRet val ∧
              d ≤ s1.b.currentRef - ({} : WState).b.currentRef ∧
              (∀ fuel, runAt ic C (fuel + d) ({} : WState).b.currentRef (curLen ({} : WState).b)
                  { w := w, L := fun _ => none, trace := [] } =
                runAt ic C fuel s1.b.currentRef (curLen s1.b) st') ∧
              evalOperand ic st'.L op = some val := by
            intro C hC
            obtain ⟨val, hout, d, st', hd, hrun', hv⟩ :=
              hsim C hC { w := w, L := fun _ => none, trace := [] } { w := w } out sst' rfl rfl hw (ValRel.nil _ _) hse
            exact ⟨val, d, st', hout, hd, hrun', hv⟩
          cases isRet with
          | false =>
            obtain ⟨val, st', hout, hrunI⟩ := ir_of_expr_finish ic s1 op w (fun val => out = outOf false val) hwalked hsim'
            simp only [finish, Bool.false_eq_true, ↓reduceIte, IrSem.bindingValue, hrunI, Option.bind_some]
            simp only [outOf, Bool.false_eq_true, ↓reduceIte] at hout
            subst hout
            simpa [hse] using hspec
          | true =>
            obtain ⟨val, st', hout, hrunI⟩ := ir_of_return_finish ic s1 op w (fun val => out = outOf true val) hwalked hsim'
            simp only [finish, ↓reduceIte, IrSem.bindingValue, hrunI, Option.bind_some]
            simp only [outOf, ↓reduceIte] at hout
            subst hout
            simpa [hse] using hspec

/-- `{ let m = a.i; if (b.j > m) { m = b.j; } if (m < 0 || m > 100) { m = 0; } else { m = m * 2; m = m + 1; } return m }`
    is in the fragment -/
example (wc : QV.Model.Ctx) (ci : ClassInfo) (pi pj : PropInfo)
    (ha : wc.objects.find? (·.1 = "a") = some ("a", "VBase")) (hb : wc.objects.find? (·.1 = "b") = some ("b", "VBase"))
    (hc : wc.env.findClass "VBase" = some ci) (hi : ci.props.find? (·.name = "i") = some pi)
    (hj : ci.props.find? (·.name = "j") = some pj) (hti : pi.ty ≠ .void) (htj : pj.ty ≠ .void) :
    IFrag wc true []
      [.lexical .let_ [{ name := "m", ty := none, value := some (.member (.ident "a") "i") }],
       .if_ (.binary .greaterThan (.member (.ident "b") "j") (.ident "m"))
         (.block [.expr (.assign (.ident "m") (.member (.ident "b") "j"))]) none,
       .if_ (.binary .logicalOr (.binary .lessThan (.ident "m") (.integer 0)) (.binary .greaterThan (.ident "m") (.integer 100)))
         (.block [.expr (.assign (.ident "m") (.integer 0))])
         (some (.block [.expr (.assign (.ident "m") (.binary .mul (.ident "m") (.integer 2))),
                        .expr (.assign (.ident "m") (.binary .add (.ident "m") (.integer 1)))])),
       .return_ (some (.ident "m"))] :=
  .decl _ _ _ _ _ _ (.read "a" "i" "VBase" ci pi ha hc hi hti (by simp))
    (.if1 _ _ _ _ _
      (.binary _ (.cmp .gt) _ _ rfl (by intro l h; cases h) (.read "b" "j" "VBase" ci pj hb hc hj htj (by simp))
        (.var "m" (by simp)))
      (.assign _ _ _ (by simp) (.read "b" "j" "VBase" ci pj hb hc hj htj (by simp)) .nil)
      (.ifElse _ _ _ _ _ _
        (.logical _ .or _ _ rfl
          (.binary _ (.cmp .lt) _ _ rfl (by intro l h; cases h) (.var "m" (by simp)) (.int 0))
          (.binary _ (.cmp .gt) _ _ rfl (by intro l h; cases h) (.var "m" (by simp)) (.int 100)))
        (.assign _ _ _ (by simp) (.int 0) .nil)
        (.assign _ _ _ (by simp) (.binary _ (.arith .mul) _ _ rfl (by intro l h; cases h) (.var "m" (by simp)) (.int 2))
          (.assign _ _ _ (by simp) (.binary _ (.arith .add) _ _ rfl (by intro l h; cases h) (.var "m" (by simp)) (.int 1))
            .nil))
        (.ret _ _ (.var "m" (by simp)))))

end IfStatements

/-! ### MORE STATEMENT FORMS (appended section, continued): `if` branches that `return` -/

section EarlyReturn
open QV.Proofs.SemCfgStmt QV.Proofs.SemCfgStmtIf QV.Proofs.SemCfgStmtRet

/-- `if (c) { T }; rest` where `T` ends in `return e` (EARLY RETURN), inside the induction restated on the RESULT of the
    run (`ROk`: over any final code that covers the builder and has `return operand` at the exit block, execution from the
    entry position RETURNS the value the reference semantics gives to the list — a returning branch does not reach the
    join block, so "reaches the exit position" (`SOk`) is no longer the invariant; `SOk` implies `ROk`): the branch's
    returning block is a closed block of the final code (`walked_visitReturn`), the empty block pushed after the `return`
    becomes the consequence's exit block and jumps to the join block, never executed -/
theorem walk_block_if_return (wc : Ctx) (sc : QV.Spec.Sem.Ctx) (ic : ICtx) (isRet : Bool) (wl : QV.Model.Locals)
    (vars : List QV.Spec.Sem.Var) (cnd : Expr) (T rest : List Stmt)
    (hc : WalkOk wc sc ic wl vars cnd) (hT : SOk wc sc ic true wl vars T) (hrest : ROk wc sc ic isRet wl vars rest) :
    ROk wc sc ic isRet wl vars (.if_ cnd (.block T) none :: rest) :=
  r_if_ret wc sc ic isRet wl vars cnd T rest hc hT hrest

/-- the induction over `RFrag wc isRet scope` (result form) -/
theorem walk_statements_return (wc : Ctx) (sc : QV.Spec.Sem.Ctx) (ic : ICtx) (hag : CtxAgree wc sc ic) (isRet : Bool)
    (scope : List String) (stmts : List Stmt) (hf : RFrag wc isRet scope stmts)
    (wl : QV.Model.Locals) (vars : List QV.Spec.Sem.Var) (hsc : ScopeOf scope wl) : ROk wc sc ic isRet wl vars stmts :=
  walk_r wc sc ic (agree_of_ctxAgree hag) isRet scope stmts hf wl vars hsc

/-- C01, END-TO-END for blocks with assignments, `if` statements and EARLY RETURNS:  P ::= { S },
      S ::= e | return e | let x = e; S | const x = e; S | x = e; S | if (e) { A } else { A }; S | if (e) { A }; S
          | if (e) { T }; S | if (e) { T } else { A }; S | if (e) { A } else { T }; S | if (e) { T } else { T }; S
      T ::= an S without early return that ends in `return e`
      A ::= ε | x = e; A
    (after `if (e) { T } else { T }` the rest is dead code, but the program must still end in an expression / `return`) -/
theorem compile_correct_block_early_return (wc : Ctx) (sc : QV.Spec.Sem.Ctx) (ic : ICtx) (hag : CtxAgree wc sc ic) (isRet : Bool)
    (stmts : List Stmt) (hs : RFrag wc isRet [] stmts) (code : CodeBody)
    (hcode : (build wc false (.stmt (.block stmts))).code = some code)
    (w : World) (hw : ∀ x q u, w.prop x q = some u → isCint u = false) (t : Ty) (v : Val)
    (hspec : QV.Spec.Sem.bindingValue sc (.stmt (.block stmts)) w t = some v) :
    IrSem.bindingValue ic code w t = some v := by
  unfold build at hcode
  simp only [walkProgram] at hcode
  have hrun := run_block wc stmts {}
  cases hw0 : (walkStmts wc none stmts).run {} with
  | mk r s' =>
    rw [hw0] at hrun
    cases r with
    | none =>
      simp only at hrun
      simp only [StateT.run, OptionT.run] at hrun hcode
      rw [hrun] at hcode
      simp at hcode
    | some ok =>
      cases ok with
      | false =>
        simp only at hrun
        simp only [StateT.run, OptionT.run] at hrun hcode
        rw [hrun] at hcode
        simp at hcode
      | true =>
        simp only at hrun
        simp only [StateT.run, OptionT.run] at hrun hcode
        rw [hrun] at hcode
        simp only at hcode
        have hopen0 : OpenAt ({} : WState).b {} := ⟨rfl, rfl⟩
        obtain ⟨s1, op, hfin, hwalked, hok, hsim⟩ :=
          walk_r wc sc ic (agree_of_ctxAgree hag) isRet [] stmts hs [] [] ScopeOf.nil {} s' hw0 rfl (VarRel.nil _)
            VarInj.nil ⟨{}, hopen0⟩
        rw [hfin] at hcode
        injection hcode with hcode
        subst hcode
        -- the reference semantics
        simp only [QV.Spec.Sem.bindingValue, QV.Spec.Sem.run, QV.Spec.Sem.runStmt] at hspec
        rw [QV.Spec.Sem.execStmt.eq_def] at hspec
        simp only at hspec
        cases hse : QV.Spec.Sem.execStmts sc stmts { w := w } with
        | none => simp [hse] at hspec
        | some p =>
          obtain ⟨out, sst'⟩ := p
          have hsim' : ∀ C, Covers C s1.b ({} : WState).b.currentRef → RetAt C s1.b op → ∃ val d res, outVal out = some val ∧
              d ≤ s1.b.currentRef - ({} : WState).b.currentRef ∧
              ∀ fuel, runAt ic C (fuel + d) ({} : WState).b.currentRef (curLen ({} : WState).b)
                  { w := w, L := fun _ => none, trace := [] } = some (val, res) := by
            intro C hC hret
            obtain ⟨val, hout, d, res, hd, hrun'⟩ :=
              hsim C hC hret { w := w, L := fun _ => none, trace := [] } { w := w } out sst' rfl rfl hw (ValRel.nil _ _) hse
            exact ⟨val, d, res, hout, hd, hrun'⟩
          have hfinal : ∀ val, outVal out = some val → QV.Spec.Sem.coerceTo t val = some v := by
            intro val hout
            cases out with
            | ret x => simp only [outVal, Option.some.injEq] at hout; subst hout; simpa [hse] using hspec
            | brk wv => cases hout
            | normal wv =>
              cases wv with
              | none => cases hout
              | some x => simp only [outVal, Option.some.injEq] at hout; subst hout; simpa [hse] using hspec
          cases isRet with
          | false =>
            obtain ⟨val, st', hout, hrunI⟩ := ir_of_expr_finish_r ic s1 op w (fun val => outVal out = some val) hwalked hsim'
            simp only [finish, Bool.false_eq_true, ↓reduceIte, IrSem.bindingValue, hrunI, Option.bind_some]
            exact hfinal val hout
          | true =>
            obtain ⟨val, st', hout, hrunI⟩ := ir_of_return_finish_r ic s1 op w (fun val => outVal out = some val) hwalked hsim'
            simp only [finish, ↓reduceIte, IrSem.bindingValue, hrunI, Option.bind_some]
            exact hfinal val hout

/-- `{ let m = a.i; if (m < 0) { return 0 } if (b.j > m) { m = b.j; } if (m > 100) { const c = m - 100; return c * 2 } m + 1 }`
    is in the fragment -/
example (wc : QV.Model.Ctx) (ci : ClassInfo) (pi pj : PropInfo)
    (ha : wc.objects.find? (·.1 = "a") = some ("a", "VBase")) (hb : wc.objects.find? (·.1 = "b") = some ("b", "VBase"))
    (hc : wc.env.findClass "VBase" = some ci) (hi : ci.props.find? (·.name = "i") = some pi)
    (hj : ci.props.find? (·.name = "j") = some pj) (hti : pi.ty ≠ .void) (htj : pj.ty ≠ .void) :
    RFrag wc false []
      [.lexical .let_ [{ name := "m", ty := none, value := some (.member (.ident "a") "i") }],
       .if_ (.binary .lessThan (.ident "m") (.integer 0)) (.block [.return_ (some (.integer 0))]) none,
       .if_ (.binary .greaterThan (.member (.ident "b") "j") (.ident "m"))
         (.block [.expr (.assign (.ident "m") (.member (.ident "b") "j"))]) none,
       .if_ (.binary .greaterThan (.ident "m") (.integer 100))
         (.block [.lexical .const_ [{ name := "c", ty := none, value := some (.binary .sub (.ident "m") (.integer 100)) }],
                  .return_ (some (.binary .mul (.ident "c") (.integer 2)))]) none,
       .expr (.binary .add (.ident "m") (.integer 1))] :=
  .decl _ _ _ _ _ _ (.read "a" "i" "VBase" ci pi ha hc hi hti (by simp))
    (.ifRet _ _ _ _ _
      (.binary _ (.cmp .lt) _ _ rfl (by intro l h; cases h) (.var "m" (by simp)) (.int 0))
      (.ret _ _ (.int 0))
      (.if1 _ _ _ _ _
        (.binary _ (.cmp .gt) _ _ rfl (by intro l h; cases h) (.read "b" "j" "VBase" ci pj hb hc hj htj (by simp))
          (.var "m" (by simp)))
        (.assign _ _ _ (by simp) (.read "b" "j" "VBase" ci pj hb hc hj htj (by simp)) .nil)
        (.ifRet _ _ _ _ _
          (.binary _ (.cmp .gt) _ _ rfl (by intro l h; cases h) (.var "m" (by simp)) (.int 100))
          (.decl _ _ _ _ _ _ (.binary _ (.arith .sub) _ _ rfl (by intro l h; cases h) (.var "m" (by simp)) (.int 100))
            (.ret _ _ (.binary _ (.arith .mul) _ _ rfl (by intro l h; cases h) (.var "c" (by simp)) (.int 2))))
          (.expr _ _ (.binary _ (.arith .add) _ _ rfl (by intro l h; cases h) (.var "m" (by simp)) (.int 1))))))

/-- `{ const n = a.i; if (n < 0) { return 0 - n } else { } if (n > 9) { } else { return n } if (b.j > 0) { return 1 } else { return 2 } 0 }`
    (returning consequence, returning alternative, both returning) is in the fragment -/
example (wc : QV.Model.Ctx) (ci : ClassInfo) (pi pj : PropInfo)
    (ha : wc.objects.find? (·.1 = "a") = some ("a", "VBase")) (hb : wc.objects.find? (·.1 = "b") = some ("b", "VBase"))
    (hc : wc.env.findClass "VBase" = some ci) (hi : ci.props.find? (·.name = "i") = some pi)
    (hj : ci.props.find? (·.name = "j") = some pj) (hti : pi.ty ≠ .void) (htj : pj.ty ≠ .void) :
    RFrag wc false []
      [.lexical .const_ [{ name := "n", ty := none, value := some (.member (.ident "a") "i") }],
       .if_ (.binary .lessThan (.ident "n") (.integer 0))
         (.block [.return_ (some (.binary .sub (.integer 0) (.ident "n")))]) (some (.block [])),
       .if_ (.binary .greaterThan (.ident "n") (.integer 9)) (.block []) (some (.block [.return_ (some (.ident "n"))])),
       .if_ (.binary .greaterThan (.member (.ident "b") "j") (.integer 0))
         (.block [.return_ (some (.integer 1))]) (some (.block [.return_ (some (.integer 2))])),
       .expr (.integer 0)] :=
  .decl _ _ _ _ _ _ (.read "a" "i" "VBase" ci pi ha hc hi hti (by simp))
    (.ifRetElse _ _ _ _ _ _
      (.binary _ (.cmp .lt) _ _ rfl (by intro l h; cases h) (.var "n" (by simp)) (.int 0))
      (.ret _ _ (.binary _ (.arith .sub) _ _ rfl (by intro l h; cases h) (.int 0) (.var "n" (by simp)))) .nil
      (.ifElseRet _ _ _ _ _ _
        (.binary _ (.cmp .gt) _ _ rfl (by intro l h; cases h) (.var "n" (by simp)) (.int 9))
        .nil (.ret _ _ (.var "n" (by simp)))
        (.ifRetRet _ _ _ _ _ _
          (.binary _ (.cmp .gt) _ _ rfl (by intro l h; cases h) (.read "b" "j" "VBase" ci pj hb hc hj htj (by simp)) (.int 0))
          (.ret _ _ (.int 1)) (.ret _ _ (.int 2))
          (.expr _ _ (.int 0)))))

end EarlyReturn

end QV.Props.C01
