/-
  C10 — Object names are unique and every reference resolves, across both outputs.

  Model : QV.Model.Names (qtname.rs `UniqueNameGenerator`, `variable_name_for_type`;
          objtree.rs `update_id_map`, `ensure_object_names`) — the code after the repair of F5.
  Spec  : QV.Spec.Names.validNaming (names pairwise distinct, ids verbatim, generated names derived from the
          class and different from every id) — evaluated by the driver on the REAL names (kind=pred).
  Tie   : stream `c10`: generated object trees with adversarial ids/class names; the names assigned by the
          real `ObjectTree::build` are compared with the model (exact) and checked by the spec predicate; the
          full pipeline's .ui and header are checked for distinct names and resolving references (kind=oracle).

  `refs_resolve` (every `addaction`/object-valued property/`ui_->name` denotes a declared object of a compatible
  class) is NOT a theorem here: it is decided on real outputs by the oracle only (see DESIGN.md C10).
-/
import QV.Proofs.Names

namespace QV.Props.C10
open QV.Model.Names QV.Proofs.Names

theorem foldl_idmap_mem (ids : List (Option Str)) :
    ∀ (acc : List Str × List Str) (x : Str), (x ∈ acc.2 ∨ some x ∈ ids) →
      x ∈ (ids.foldl idMapStep acc).2 := by
  induction ids with
  | nil => intro acc x h; simpa using h
  | cons id rest ih =>
    intro acc x h
    simp only [List.foldl_cons]
    apply ih
    cases id with
    | none =>
      rcases h with h | h
      · exact Or.inl h
      · simp at h; exact Or.inr h
    | some y =>
      simp only [idMapStep]
      by_cases hc : acc.2.contains y
      · simp only [hc, if_true]
        rcases h with h | h
        · exact Or.inl h
        · simp at h
          rcases h with rfl | h
          · left; simpa using hc
          · exact Or.inr h
      · simp only [hc, Bool.false_eq_true, if_false]
        rcases h with h | h
        · left; simp [h]
        · simp at h
          rcases h with rfl | h
          · left; simp
          · exact Or.inr h

theorem ids_reserved (nodes : List (Option Str × Str)) (x : Str) (h : x ∈ idsOf nodes) :
    x ∈ (updateIdMap (nodes.map (·.1))).2 := by
  apply foldl_idmap_mem
  right
  induction nodes with
  | nil => simp [idsOf] at h
  | cons nd rest ih =>
    obtain ⟨id, cls⟩ := nd
    cases id with
    | some y =>
      simp only [idsOf, List.mem_cons] at h
      rcases h with rfl | h
      · simp
      · simp [ih h]
    | none =>
      simp only [idsOf] at h
      simp [ih h]

/-- **Names are unique**: for every object list (post-order of any tree) whose ids are pairwise distinct, the
    assigned names are pairwise distinct, every id is used verbatim as its object's name, and no generated
    name equals any id. -/
theorem names_unique (nodes : List (Option Str × Str)) (names : List Str)
    (hids : (idsOf nodes).Nodup) (h : ensureObjectNames nodes = some names) :
    names.length = nodes.length ∧ names.Nodup ∧
    (∀ p ∈ nodes.zip names, ∀ x, p.1.1 = some x → p.2 = x) ∧
    (∀ x ∈ gens nodes names, x ∉ idsOf nodes) := by
  unfold ensureObjectNames at h
  obtain ⟨h1, h2, h3, h4⟩ := ensureGo_spec _ nodes {} names h
  have hverb := ensureGo_ids _ nodes {} names h
  have hdis : ∀ x ∈ gens nodes names, x ∉ idsOf nodes :=
    fun x hx hin => (h3 x hx).1 (ids_reserved nodes x hin)
  exact ⟨h1, names_nodup_of nodes names h1 hverb hids h2 hdis h4, hverb, hdis⟩

theorem ensureGo_total (reserved : List Str) :
    ∀ (nodes : List (Option Str × Str)) (g : Gen), ensureGo reserved g nodes ≠ none := by
  intro nodes
  induction nodes with
  | nil => intro g; simp [ensureGo]
  | cons nd rest ih =>
    intro g
    obtain ⟨id, cls⟩ := nd
    cases id with
    | some x =>
      simp only [ensureGo]
      cases h : ensureGo reserved g rest with
      | none => exact absurd h (ih g)
      | some v => simp
    | none =>
      simp only [ensureGo]
      cases hg : g.generateWithReserved (variableNameForType cls) reserved with
      | none => exact absurd hg (generate_total _ _ _)
      | some r =>
        obtain ⟨name, g'⟩ := r
        simp only
        cases h : ensureGo reserved g' rest with
        | none => exact absurd h (ih g')
        | some v => simp

/-- **The name search always succeeds** (`expect("unused id must be found within N+1 tries")` is
    unreachable), for every object list — including lists with duplicated ids. -/
theorem ensure_never_panics (nodes : List (Option Str × Str)) : ensureObjectNames nodes ≠ none :=
  ensureGo_total _ nodes {}

/-- A generated name is the variable name of the class (`Driver::qtify`) with an optional number suffix. -/
theorem generated_name_shape {g g' : Gen} {cls name : Str} {reserved : List Str}
    (h : g.generateWithReserved (variableNameForType cls) reserved = some (name, g')) :
    ∃ n, name = concatNumberSuffix (variableNameForType cls) n :=
  (generate_spec h).2.2.2

/-- The same generator names the `setup/update/eval/on…` functions of the support header (C16):
    successive `generate` calls never return the same name twice, whatever the prefixes are. -/
theorem generate_fresh {g g' : Gen} {pfx name : Str} (h : g.generate pfx = some (name, g')) :
    name ∉ g.usedNames ∧ g'.usedNames = name :: g.usedNames :=
  ⟨(generate_spec h).2.1, (generate_spec h).2.2.1⟩

theorem step_mono (a : List Str × List Str) (i : Option Str) (h : a.1 ≠ []) : (idMapStep a i).1 ≠ [] := by
  cases i with
  | none => exact h
  | some z =>
    simp only [idMapStep]
    split <;> simp [h]

theorem foldl_mono (l : List (Option Str)) : ∀ (a : List Str × List Str), a.1 ≠ [] →
    (l.foldl idMapStep a).1 ≠ [] := by
  induction l with
  | nil => intro a h; simpa using h
  | cons i l ih => intro a h; exact ih _ (step_mono a i h)

/-- Duplicate ids are reported: once an id that is already in the map (or a repeated id) is met,
    `update_id_map` emits a diagnostic. -/
theorem dup_id_rejected (ids : List (Option Str)) :
    ∀ (acc : List Str × List Str),
      (∃ x, some x ∈ ids ∧ x ∈ acc.2) ∨ ¬ (ids.filterMap id).Nodup →
      (ids.foldl idMapStep acc).1 ≠ [] := by
  induction ids with
  | nil =>
    intro acc h
    rcases h with ⟨x, hx, _⟩ | h
    · simp at hx
    · simp at h
  | cons i rest ih =>
    intro acc h
    simp only [List.foldl_cons]
    cases i with
    | none =>
      apply ih
      rcases h with ⟨x, hx, hacc⟩ | h
      · simp at hx; exact Or.inl ⟨x, hx, hacc⟩
      · exact Or.inr (by simpa using h)
    | some y =>
      by_cases hc : acc.2.contains y
      · apply foldl_mono
        have hy : y ∈ acc.2 := by simpa using hc
        simp [idMapStep, hy]
      · have hny : y ∉ acc.2 := by simpa using hc
        have hstep : idMapStep acc (some y) = (acc.1, acc.2 ++ [y]) := by simp [idMapStep, hny]
        rw [hstep]
        apply ih
        rcases h with ⟨x, hx, hacc⟩ | h
        · simp only [List.mem_cons, Option.some.injEq] at hx
          rcases hx with rfl | hx
          · exact absurd hacc hny
          · exact Or.inl ⟨x, hx, by simp [hacc]⟩
        · simp only [List.filterMap_cons, id_eq, List.nodup_cons] at h
          by_cases hmem : y ∈ rest.filterMap id
          · left
            obtain ⟨a, ha, hay⟩ := List.mem_filterMap.mp hmem
            simp at hay; subst hay
            exact ⟨y, ha, by simp⟩
          · right
            intro hn
            exact h ⟨hmem, hn⟩

/-- … in particular, starting from the empty map. -/
theorem dup_id_diagnosed (ids : List (Option Str)) (h : ¬ (ids.filterMap id).Nodup) :
    (updateIdMap ids).1 ≠ [] :=
  dup_id_rejected ids ([], []) (Or.inr h)

/-! ### non-vacuity and the F5 witness (now repaired) -/

/-- F5 witness: `QLabel, QLabel, Label1` used to be named `label, label1, label1`. -/
example : ensureObjectNames [(none, "QLabel".toList), (none, "QLabel".toList), (none, "Label1".toList)]
    = some ["label".toList, "label1".toList, "label11".toList] := by decide

example : ensureObjectNames [(some "label1".toList, "QWidget".toList), (none, "QLabel".toList), (none, "QLabel".toList),
    (none, "QVBoxLayout".toList)]
    = some ["label1".toList, "label".toList, "label2".toList, "vboxLayout".toList] := by decide

example : (updateIdMap [some "a".toList, none, some "a".toList]).1 = ["a".toList] := by decide

end QV.Props.C10

namespace QV.Props.C10
open QV.Model.Names

theorem isUpper_eq (c : Char) : isAsciiUpper c = QV.Spec.Names.isUpper c := by
  simp only [isAsciiUpper, QV.Spec.Names.isUpper, Char.le_def, UInt32.le_iff_toNat_le, Char.toNat]
  rfl

theorem isLower_eq (c : Char) : isAsciiLower c = QV.Spec.Names.isLower c := by
  simp only [isAsciiLower, QV.Spec.Names.isLower, Char.le_def, UInt32.le_iff_toNat_le, Char.toNat]
  rfl

theorem lower_eq (c : Char) : toAsciiLower c = QV.Spec.Names.lower c := by
  simp [toAsciiLower, QV.Spec.Names.lower, isUpper_eq]

theorem lowerRun_eq (s : Str) :
    lowerRun s = (s.takeWhile QV.Spec.Names.isUpper).map QV.Spec.Names.lower ++ s.dropWhile QV.Spec.Names.isUpper := by
  induction s with
  | nil => rfl
  | cons c rest ih =>
    simp only [lowerRun, List.takeWhile_cons, List.dropWhile_cons, isUpper_eq]
    by_cases h : QV.Spec.Names.isUpper c
    · simp [h, ih, lower_eq]
    · have : toAsciiLower c = c := by simp [toAsciiLower, isUpper_eq, h]
      simp [h, this]

/-- The variable name derived from a class is uic's `Driver::qtify`, for every class name. -/
theorem variable_name_is_qtify (t : Str) : variableNameForType t = QV.Spec.Names.qtify t := by
  unfold variableNameForType QV.Spec.Names.qtify
  match t with
  | [] => simp [lowerRun_eq]
  | [c] => simp [lowerRun_eq]
  | c :: d :: rest =>
    simp only [isAsciiAlphabetic, isUpper_eq, isLower_eq]
    split <;> simp [lowerRun_eq]

end QV.Props.C10
