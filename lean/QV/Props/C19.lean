/-
  C19 — Colour strings are read the way Qt reads them.

  Model  : QV.Model.Color  (mirrors lib/src/color.rs, `From<Color> for Gadget`)
  Spec   : QV.Spec.QtColor (positional digit meaning, SVG 1.1 table typed in independently)
  Tie    : QV.Gen.colorTable is regenerated from color.rs on every run; the model's executable
           `parse` is compared with `Color::from_str` (exhaustively on short hex strings) and with the
           `<color>` elements of real `.ui` output by the harness (stream `c19`).
-/
import QV.Proofs.Color

namespace QV.Props.C19
open QV.Model.Color QV.Spec.QtColor QV.Proofs.Color

/-- Every keyword of the implementation's table is lower case (so the second, lower-cased lookup
    subsumes the first).  Re-proved against the regenerated table. -/
theorem impl_keys_lowercase : ∀ row ∈ QV.Gen.colorTable, asciiLower row.1 = row.1 := by
  decide +kernel

/-- The implementation's table answers every SVG 1.1 keyword with the SVG value … -/
theorem impl_covers_svg : ∀ row ∈ QV.Spec.svgTable, lookupLast QV.Gen.colorTable row.1 = some row.2 := by
  decide +kernel

/-- … and contains nothing else. -/
theorem impl_within_svg : ∀ row ∈ QV.Gen.colorTable, lookup QV.Spec.svgTable row.1 = some row.2 := by
  decide +kernel

theorem keyword_lookup_eq (k : List Char) :
    lookupLast QV.Gen.colorTable k = lookup QV.Spec.svgTable k :=
  lookups_agree _ _ impl_covers_svg impl_within_svg k

/-- Hex part, for every digit string of every length: shifts and masks = positional meaning;
    non-digits, wrong lengths (incl. empty and > 8 digits, where `u32` parsing may overflow) give nothing. -/
theorem parse_hex_eq_spec (ds : List Char) :
    parseHexColor ds = readColor ('#' :: ds) := by
  simp only [readColor]
  cases h : digits? ds with
  | none => simp [parseHexColor, digits_none_any h]
  | some vs =>
    have hl := digits_length h
    have hlt := digits_lt h
    have hloop := loop_eq h 0
    simp only [parseHexColor, digits_any_false h, Bool.false_eq_true, if_false]
    have hne : ∀ (x : Option Color), ds.length ≠ 3 → ds.length ≠ 4 → ds.length ≠ 6 → ds.length ≠ 8 →
        (match fromStrRadix16 ds with
          | none => none
          | some argb => (match ds.length with
            | 3 => some (.rgb8 (((argb >>> 8) &&& 0xf) * 0x11) (((argb >>> 4) &&& 0xf) * 0x11)
                      ((argb &&& 0xf) * 0x11))
            | 4 => some (.rgba8 (((argb >>> 8) &&& 0xf) * 0x11) (((argb >>> 4) &&& 0xf) * 0x11)
                      ((argb &&& 0xf) * 0x11) (((argb >>> 12) &&& 0xf) * 0x11))
            | 6 => some (.rgb8 ((argb >>> 16) &&& 0xff) ((argb >>> 8) &&& 0xff) (argb &&& 0xff))
            | 8 => some (.rgba8 ((argb >>> 16) &&& 0xff) ((argb >>> 8) &&& 0xff) (argb &&& 0xff)
                      ((argb >>> 24) &&& 0xff))
            | _ => (none : Option Color))) = none := by
      intro _ h3 h4 h6 h8
      cases fromStrRadix16 ds with
      | none => rfl
      | some argb =>
        show (match ds.length with
            | 3 => _ | 4 => _ | 6 => _ | 8 => _ | _ => (none : Option Color)) = none
        split <;> first | rfl | omega
    have hfs : ds ≠ [] → fromStrRadix16 ds = loopV vs 0 := by
      intro hne
      cases ds with
      | nil => exact absurd rfl hne
      | cons c cs => simpa [fromStrRadix16] using hloop
    match vs, hl, hlt, hfs with
    | [], hl, _, _ => simp at hl; exact hne none (by omega) (by omega) (by omega) (by omega)
    | [_], hl, _, _ => simp at hl; exact hne none (by omega) (by omega) (by omega) (by omega)
    | [_, _], hl, _, _ => simp at hl; exact hne none (by omega) (by omega) (by omega) (by omega)
    | [r, g, b], hl, hlt, hfs =>
      have hr := hlt r (by simp); have hg := hlt g (by simp); have hb := hlt b (by simp)
      have hds : ds ≠ [] := by intro h; simp [h] at hl
      simp only [List.length] at hl
      rw [hfs hds, ← hl]
      simp only [loopV]
      rw [if_pos (by omega), if_pos (by omega), if_pos (by omega)]
      simp only [Nat.shiftRight_eq_div_pow, show (0xf : Nat) = 2 ^ 4 - 1 from rfl,
        Nat.and_two_pow_sub_one_eq_mod]
      congr 2 <;> omega
    | [a, r, g, b], hl, hlt, hfs =>
      have ha := hlt a (by simp); have hr := hlt r (by simp)
      have hg := hlt g (by simp); have hb := hlt b (by simp)
      have hds : ds ≠ [] := by intro h; simp [h] at hl
      simp only [List.length] at hl
      rw [hfs hds, ← hl]
      simp only [loopV]
      rw [if_pos (by omega), if_pos (by omega), if_pos (by omega), if_pos (by omega)]
      simp only [Nat.shiftRight_eq_div_pow, show (0xf : Nat) = 2 ^ 4 - 1 from rfl,
        Nat.and_two_pow_sub_one_eq_mod]
      congr 2 <;> omega
    | [_, _, _, _, _], hl, _, _ => simp at hl; exact hne none (by omega) (by omega) (by omega) (by omega)
    | [r1, r2, g1, g2, b1, b2], hl, hlt, hfs =>
      have h1 := hlt r1 (by simp); have h2 := hlt r2 (by simp)
      have h3 := hlt g1 (by simp); have h4 := hlt g2 (by simp)
      have h5 := hlt b1 (by simp); have h6 := hlt b2 (by simp)
      have hds : ds ≠ [] := by intro h; simp [h] at hl
      simp only [List.length] at hl
      rw [hfs hds, ← hl]
      simp only [loopV]
      rw [if_pos (by omega), if_pos (by omega), if_pos (by omega), if_pos (by omega),
        if_pos (by omega), if_pos (by omega)]
      simp only [Nat.shiftRight_eq_div_pow, show (0xff : Nat) = 2 ^ 8 - 1 from rfl,
        Nat.and_two_pow_sub_one_eq_mod]
      congr 2 <;> omega
    | [_, _, _, _, _, _, _], hl, _, _ => simp at hl; exact hne none (by omega) (by omega) (by omega) (by omega)
    | [a1, a2, r1, r2, g1, g2, b1, b2], hl, hlt, hfs =>
      have h1 := hlt r1 (by simp); have h2 := hlt r2 (by simp)
      have h3 := hlt g1 (by simp); have h4 := hlt g2 (by simp)
      have h5 := hlt b1 (by simp); have h6 := hlt b2 (by simp)
      have h7 := hlt a1 (by simp); have h8 := hlt a2 (by simp)
      have hds : ds ≠ [] := by intro h; simp [h] at hl
      simp only [List.length] at hl
      rw [hfs hds, ← hl]
      simp only [loopV]
      rw [if_pos (by omega), if_pos (by omega), if_pos (by omega), if_pos (by omega),
        if_pos (by omega), if_pos (by omega), if_pos (by omega), if_pos (by omega)]
      simp only [Nat.shiftRight_eq_div_pow, show (0xff : Nat) = 2 ^ 8 - 1 from rfl,
        Nat.and_two_pow_sub_one_eq_mod]
      congr 2 <;> omega
    | _ :: _ :: _ :: _ :: _ :: _ :: _ :: _ :: _ :: _, hl, _, _ =>
      simp at hl; exact hne none (by omega) (by omega) (by omega) (by omega)

/-- **C19, main theorem.**  For *every* string the implementation model (over the table regenerated from
    the current source) returns exactly the colour the specification reads, and rejects exactly the
    strings the specification does not readColor (with the error class the diagnostic shows). -/
theorem parse_color_eq_spec (s : List Char) :
    parse QV.Gen.colorTable s =
      match readColor s with
      | some c => .ok c
      | none => .error (if s.head? = some '#' then .invalidHex else .unknownName) := by
  by_cases hh : s.head? = some '#'
  · obtain ⟨ds, rfl⟩ : ∃ ds, s = '#' :: ds := by
      cases s with
      | nil => simp at hh
      | cons c cs => simp at hh; exact ⟨cs, by rw [hh]⟩
    simp only [parse, parse_hex_eq_spec]
    cases readColor ('#' :: ds) <;> simp
  · have hp : parse QV.Gen.colorTable s =
        (if eqIgnoreAsciiCase s transparentKw then .ok (.rgba8 0 0 0 0)
         else match lookupLast QV.Gen.colorTable s with
           | some (r, g, b) => .ok (.rgb8 r g b)
           | none =>
             match lookupLast QV.Gen.colorTable (asciiLower s) with
             | some (r, g, b) => .ok (.rgb8 r g b)
             | none => .error .unknownName) := by
      unfold parse
      split
      · simp at hh
      · rfl
    have hr : readColor s =
        (if s.map lower = transparentKw then some (.rgba8 0 0 0 0)
         else match lookup QV.Spec.svgTable (s.map lower) with
           | some (r, g, b) => some (.rgb8 r g b)
           | none => none) := by
      unfold readColor
      split
      · simp at hh
      · rfl
    rw [hp, hr, if_neg hh]
    have hkw : asciiLower transparentKw = transparentKw := by decide
    have htr : eqIgnoreAsciiCase s transparentKw = true ↔ s.map lower = transparentKw := by
      simp [eqIgnoreAsciiCase, hkw, asciiLower_eq_spec]
    by_cases ht : s.map lower = transparentKw
    · simp [htr.mpr ht, ht]
    · have : eqIgnoreAsciiCase s transparentKw = false := by
        cases h : eqIgnoreAsciiCase s transparentKw with
        | false => rfl
        | true => exact absurd (htr.mp h) ht
      simp only [this, Bool.false_eq_true, if_false, if_neg ht]
      -- both implementation lookups collapse to the lower-cased one
      have hcollapse : (match lookupLast QV.Gen.colorTable s with
           | some (r, g, b) => (.ok (.rgb8 r g b) : Except ParseError Color)
           | none =>
             match lookupLast QV.Gen.colorTable (asciiLower s) with
             | some (r, g, b) => .ok (.rgb8 r g b)
             | none => .error .unknownName) =
          (match lookupLast QV.Gen.colorTable (asciiLower s) with
             | some (r, g, b) => .ok (.rgb8 r g b)
             | none => .error .unknownName) := by
        cases h1 : lookupLast QV.Gen.colorTable s with
        | none => rfl
        | some v =>
          have hlow := impl_keys_lowercase (s, v) (lookupLast_mem h1)
          simp only at hlow
          rw [hlow, h1]
      rw [hcollapse, keyword_lookup_eq, asciiLower_eq_spec]
      cases lookup QV.Spec.svgTable (s.map lower) with
      | none => rfl
      | some v => rfl

/-- An opaque colour is written with alpha 255, and the channels are exactly those read. -/
theorem gadget_channels (c : Color) : toGadget c = channels c := by
  cases c <;> rfl

theorem opaque_alpha_255 (r g b : Nat) : (toGadget (.rgb8 r g b)).1 = 255 := rfl

/-- Every channel the model produces fits a byte (so the `as u8` casts and `* 0x11` never truncate). -/
theorem hex_channels_in_byte (ds : List Char) (c : Color) (h : parseHexColor ds = some c) :
    match c with
    | .rgb8 r g b => r < 256 ∧ g < 256 ∧ b < 256
    | .rgba8 r g b a => r < 256 ∧ g < 256 ∧ b < 256 ∧ a < 256 := by
  have m4 : ∀ x : Nat, (x &&& 0xf) * 0x11 < 256 := by
    intro x
    rw [show (0xf : Nat) = 2 ^ 4 - 1 from rfl, Nat.and_two_pow_sub_one_eq_mod]; omega
  have m8 : ∀ x : Nat, (x &&& 0xff) < 256 := by
    intro x
    rw [show (0xff : Nat) = 2 ^ 8 - 1 from rfl, Nat.and_two_pow_sub_one_eq_mod]; omega
  unfold parseHexColor at h
  split at h
  · simp at h
  · split at h
    · simp at h
    · split at h <;> simp at h <;> subst h <;> simp [m4, m8]

/-! Non-vacuity: concrete strings on which both sides are exercised. -/
example : parse QV.Gen.colorTable "#F48c".toList = .ok (.rgba8 0x44 0x88 0xcc 0xff) := by decide
example : readColor "#F48c".toList = some (.rgba8 0x44 0x88 0xcc 0xff) := by decide
example : parse QV.Gen.colorTable "DarkSlateGrey".toList = .ok (.rgb8 47 79 79) := by decide +kernel
example : parse QV.Gen.colorTable "#000000001".toList = .error .invalidHex := by decide
example : readColor "rebeccapurple".toList = none := by decide +kernel

end QV.Props.C19
