/-
  C03 — constants are embedded with exactly the value the source expression denotes; undefined ones are rejected.

  What is proved here (for every input, no bound):
  * `literal_value`        an integer literal accepted by `parse_number_str` has its ECMAScript mathematical value
                           (all radixes, legacy octal, separators), or is refused when it exceeds u64;
  * `fold_unary_sound`, `fold_binary_sound`
                           when the operands are constants the builder's folding emits no code and yields the value
                           the operator denotes in `Spec.ConstSem` (mathematical integers with a 64-bit range
                           check, truncating division, shifts as multiplication/floor division, UTF-16 string
                           order, IEEE primitives as a parameter), and that value again fits 64 bits;
  * `undefined_rejected`   an operator application whose value is undefined is refused;
  * `shl_accepts_exactly_representable`  the shift-back test of the repaired `<<` (F8) is exact;
  * `string_literal_value` a string literal accepted by `parse_string`/`unescape_char` has its ECMAScript string value
                           (all escape forms; line continuations, legacy octal, lone surrogates are over-rejected, never mis-read);
  * `int_text_roundtrip`   the decimal text written into the `.ui` for an integer reads back as that integer;
  * witnesses for the behaviour before the repairs of F6 and F8.
  The composition over whole expressions (walk + builder + `evaluate_code` + `.ui` serialisation) is tied by the
  `c03` stream: the value found in the real `.ui` is judged against `Spec.ConstSem.eval` of the source expression.
-/
import QV.Proofs.ConstFold
import QV.Proofs.ConstWalk
import QV.Proofs.Literal

namespace QV.Props.C03
open QV.Model QV.Spec.ConstSem QV.Proofs.ConstFold

/-- C03, folding of a binary operator: when both operands are constants the builder emits no code, and the
    constant it produces is the value the operator denotes (Spec.ConstSem) and fits 64 bits -/
theorem fold_binary_sound (F : FloatOps) (env : Env) (b : Builder) (tok : BinaryToken) (op : BinaryOp)
    (htok : tok.toOp = some op) (hlog : ∀ lop, op ≠ .logical lop) (l r : ConstantValue) (hl : inRange l)
    (res : Operand) (b' : Builder)
    (h : visitBinaryExpression F env b op (.const l) (.const r) = .ok (res, b')) :
    b' = b ∧ ∃ c, res = .const c ∧ inRange c ∧ binary F tok (valOf l) (valOf r) = .val (valOf c) := by
  cases op with
  | logical lop => exact absurd rfl (hlog lop)
  | arith aop =>
    simp only [visitBinaryExpression] at h
    cases he : evalBinaryArith F aop l r with
    | error e => simp [he] at h
    | ok c =>
      simp [he] at h
      exact ⟨h.2.symm, c, h.1.symm, sound_arith F tok aop htok l r c hl he⟩
  | bitwise bop =>
    simp only [visitBinaryExpression] at h
    cases he : evalBinaryBitwise bop l r with
    | error e => simp [he] at h
    | ok c =>
      simp [he] at h
      exact ⟨h.2.symm, c, h.1.symm, sound_bitwise F tok bop htok l r c he⟩
  | shift sop =>
    simp only [visitBinaryExpression] at h
    cases he : evalShift sop l r with
    | error e => simp [he] at h
    | ok c =>
      simp [he] at h
      exact ⟨h.2.symm, c, h.1.symm, sound_shift F tok sop htok l r c hl he⟩
  | cmp cop =>
    simp only [visitBinaryExpression] at h
    cases he : evalComparison F cop l r with
    | error e => simp [he] at h
    | ok c =>
      simp [he] at h
      exact ⟨h.2.symm, c, h.1.symm, sound_cmp F tok cop htok l r c he⟩

/-- an operator application without a value (division by zero, 64-bit overflow, negative or too large shift) is
    refused by the folder -/
theorem undefined_rejected (F : FloatOps) (env : Env) (b : Builder) (tok : BinaryToken) (op : BinaryOp)
    (htok : tok.toOp = some op) (hlog : ∀ lop, op ≠ .logical lop) (l r : ConstantValue) (hl : inRange l)
    (w : String) (hu : binary F tok (valOf l) (valOf r) = .undefined w) :
    ∃ e, visitBinaryExpression F env b op (.const l) (.const r) = .error e := by
  cases hv : visitBinaryExpression F env b op (.const l) (.const r) with
  | error e => exact ⟨e, rfl⟩
  | ok p =>
    obtain ⟨res, b'⟩ := p
    obtain ⟨_, c, _, _, hs⟩ := fold_binary_sound F env b tok op htok hlog l r hl res b' hv
    rw [hu] at hs
    cases hs

theorem fold_unary_sound (F : FloatOps) (b : Builder) (tok : UnaryToken) (op : UnaryOp)
    (htok : tok.toOp = some op) (a : ConstantValue) (ha : inRange a) (res : Operand) (b' : Builder)
    (h : visitUnaryExpression F b op (.const a) = .ok (res, b')) :
    b' = b ∧ ∃ c, res = .const c ∧ inRange c ∧ unary F tok (valOf a) = .val (valOf c) := by
  cases tok <;> simp [UnaryToken.toOp] at htok <;> subst htok <;> cases a <;>
    simp [visitUnaryExpression, evalUnaryArith, evalUnaryBitwise, evalUnaryLogical] at h
  case logicalNot.bool v =>
    exact ⟨h.2.symm, _, h.1.symm, trivial, by simp [unary, valOf]⟩
  case bitwiseNot.integer v =>
    refine ⟨h.2.symm, _, h.1.symm, ?_, by simp [unary, valOf]⟩
    simp only [inRange, representable, Bool.and_eq_true, decide_eq_true_eq] at ha ⊢
    omega
  case minus.integer v =>
    rcases checked_cases (-v) with ⟨hr, h1, h2⟩ | ⟨_, h1, _⟩ <;> rw [h1] at h
    · simp at h
      exact ⟨h.2.symm, _, h.1.symm, hr, by simp [unary, valOf, h2]⟩
    · simp at h
  case minus.float v =>
    exact ⟨h.2.symm, _, h.1.symm, trivial, by simp [unary, valOf]⟩
  case plus.integer v =>
    exact ⟨h.2.symm, _, h.1.symm, ha, by simp [unary, valOf]⟩
  case plus.float v =>
    exact ⟨h.2.symm, _, h.1.symm, trivial, by simp [unary, valOf]⟩

/-- F8 (repaired by 568b1aa): the shift-back test accepts exactly the shifts whose mathematical value fits 64 bits -/
theorem shl_accepts_exactly_representable (a : Int) (n : Nat) (hn : n < 64) :
    (wrapI64 (a * (2 : Int) ^ n) / (2 : Int) ^ n = a) ↔ representable (a * (2 : Int) ^ n) = true :=
  shl_check_iff a n hn

/-- F8 witness: without the test, `checked_shl` alone wraps: `3 << 62` came out negative -/
theorem f8_unchecked_shl_wraps : wrapI64 (3 * (2 : Int) ^ 62) = -4611686018427387904 ∧
    representable (3 * (2 : Int) ^ 62) = false := by decide

/-- F6 witness (repaired by 2f8ccf9): ordering by code point is not the UTF-16 order of the language -/
theorem f6_codepoint_order_is_wrong :
    strLtCodePoint [Char.ofNat 0xE000] [Char.ofNat 0x10000] = true ∧
    strLess [Char.ofNat 0xE000] [Char.ofNat 0x10000] = false := f6_codepoint_order_differs

/-- an integer literal the parser accepts has the ECMAScript mathematical value -/
theorem literal_value (floatOk : List Char → Bool) (s : List Char) (v : Nat) (h : QV.Spec.Ecma.mv s = some v) :
    QV.Model.Literal.parseNumberStr floatOk s =
      if v ≤ QV.Model.Literal.u64Max then some (.integer v) else none :=
  QV.Proofs.Literal.parseNumber_mv floatOk s v h

/-- the decimal text written for an integer (`<number>`) reads back as the same integer -/
theorem int_text_roundtrip (v : Int) : QV.Spec.Ecma.readInt (QV.Model.Literal.formatInt v) = some v :=
  QV.Proofs.Literal.readInt_formatInt v

/-- a string literal `parse_string` accepts has the ECMAScript string value (UTF-16 code units); the escape texts
    contain no sign character, which the lexer's escape pattern guarantees (`u32::from_str_radix` would accept `+41`) -/
theorem string_literal_value (segs : List QV.Model.Literal.Segment) (s : List Char)
    (hs : QV.Proofs.Literal.signFree segs) (h : QV.Model.Literal.parseString segs = some s) :
    QV.Spec.Ecma.stringValue (segs.map QV.Proofs.Literal.toSeg) = some (QV.Spec.Ecma.units16 s) :=
  QV.Proofs.Literal.parseString_sound segs s hs h

/-- the hypothesis about signs is needed: the decoder alone would read `\\u{+41}` as `A` -/
theorem sign_hypothesis_needed :
    QV.Model.Literal.unescapeChar "\\u{+41}".toList = some 'A' ∧ QV.Spec.Ecma.escapeValue "\\u{+41}".toList = none := by
  decide

/-! non-vacuity: the hypotheses are met by ordinary inputs -/
example : QV.Model.Literal.parseString [.fragment "a".toList, .escape "\\n".toList, .escape "\\u{1F600}".toList] =
    some ['a', '\n', Char.ofNat 0x1F600] := by decide
example : QV.Spec.Ecma.escapeValue ['\\', '\n'] = some [] ∧ QV.Model.Literal.unescapeChar ['\\', '\n'] = none := by decide
example : QV.Spec.Ecma.escapeValue "\\1".toList = some [1] ∧ QV.Model.Literal.unescapeChar "\\1".toList = none := by decide
example : QV.Spec.Ecma.escapeValue "\\uD83D".toList = some [55357] ∧ QV.Model.Literal.unescapeChar "\\uD83D".toList = none := by
  decide
example : QV.Spec.Ecma.mv "0x1_F".toList = some 31 := by decide
example : QV.Spec.Ecma.mv "0777".toList = some 511 := by decide
example : QV.Spec.Ecma.mv "089".toList = some 89 := by decide
example : QV.Spec.Ecma.mv "1_000".toList = some 1000 := by decide
example : QV.Spec.Ecma.mv "1__0".toList = none := by decide
example : BinaryToken.toOp .leftShift = some (.shift .shl) ∧ inRange (.integer 3) := ⟨rfl, by simp [inRange, representable]⟩
def dummyFloatOps : FloatOps where
  neg := id
  add := fun a _ => a
  sub := fun a _ => a
  mul := fun a _ => a
  div := fun a _ => a
  rem := fun a _ => a
  eq := fun _ _ => true
  lt := fun _ _ => false
  le := fun _ _ => true

example : binary dummyFloatOps .div (.int 1) (.int 0) = .undefined "division by zero" := by decide

/-! ## END-TO-END ON CONSTANT EXPRESSIONS (section appended by the C01 helper; proofs in QV.Proofs.ConstWalk)

  Fragment  `ConstFrag ::= integer | true | false | float | string | null | unary-op ConstFrag | ConstFrag ⊕ ConstFrag`
  (⊕ every binary operator TOKEN except `&&` and `||`, unary-op every unary token; tokens the language lacks — `**`, `>>>`,
  `??`, `instanceof`, `in`, `typeof`, `void`, `delete` — are refused by the walk).  The per-operator theorems above are
  composed over the monadic AST walk (Model/Walk.lean `walkExpr`) by induction on the expression. -/

open QV.Proofs.ConstWalk in
/-- (a) a successful `walk_expr` on the fragment returns `.item (.const c)`, leaves the walk state untouched — no
    statement, no local, no diagnostic —, `c` lies within 64 bits and `c` is the denotation of the expression -/
theorem walk_const_sound (wc : Ctx) (e : Expr) (hf : ConstFrag e) (s s' : WState) (i : QV.Model.Inter)
    (h : (walkExpr wc e).run s = (some i, s')) :
    s' = s ∧ ∃ c, i = .item (.const c) ∧ inRange c ∧ eval wc.F e = .val (valOf c) :=
  QV.Proofs.ConstWalk.walk_const_sound wc e hf s s' i h

open QV.Proofs.ConstWalk in
/-- (b) an expression of the fragment without a value (64-bit overflow, division by zero, negative or too large shift
    count, integer literal ≥ 2^63, in any sub-expression) is refused: the walk fails, the builder is untouched (no code),
    at least one diagnostic is added -/
theorem walk_const_rejects_undefined (wc : Ctx) (e : Expr) (hf : ConstFrag e) (w : String)
    (hu : eval wc.F e = .undefined w) (s : WState) :
    ∃ s', (walkExpr wc e).run s = (none, s') ∧ s'.b = s.b ∧ s'.locals = s.locals ∧
      ∃ d ds, s'.diags = s.diags ++ d :: ds :=
  QV.Proofs.ConstWalk.walk_const_rejects_undefined wc e hf w hu s

open QV.Proofs.ConstWalk in
/-- every failure of the walk on the fragment (ill-typed operands included) is diagnosed and emits no code -/
theorem walk_const_fails_with_diagnostic (wc : Ctx) (e : Expr) (hf : ConstFrag e) (s s' : WState)
    (h : (walkExpr wc e).run s = (none, s')) :
    s'.b = s.b ∧ s'.locals = s.locals ∧ ∃ d ds, s'.diags = s.diags ++ d :: ds :=
  QV.Proofs.ConstWalk.walk_const_fails_with_diagnostic wc e hf s s' h

/-- integer literals ≥ 2^63 have no value and are refused by `visit_integer` with the conversion diagnostic -/
theorem walk_const_integer_too_large (wc : Ctx) (v : Nat) (hv : (2 : Int) ^ 63 ≤ (v : Int)) (s : WState) :
    (∃ w, eval wc.F (.integer v) = .undefined w) ∧
    (walkRvalue wc (.integer v)).run s = (none, { s with diags := s.diags ++ [ExprError.integerConversion.message] }) :=
  QV.Proofs.ConstWalk.walk_const_integer_too_large wc v hv s

open QV.Proofs.ConstWalk in
/-- (c) the binding level: `tir::build` on the binding `e` (e in the fragment) either yields a body — then without
    diagnostic and panic, and `evaluate_code` of the body (Model/Finalize.lean, tir/interpret.rs) is `evaluatedOf c` for a
    constant `c` within 64 bits that is the denotation of `e` (`evaluatedOf`: bool/integer/float as themselves, a string
    as an untranslated string, `null` as "no value") — or no body and at least one diagnostic.  So the value handed to
    uigen's serialisation is the denoted one. -/
theorem build_const_evaluates (wc : Ctx) (e : Expr) (hf : ConstFrag e) :
    (∀ code, (build wc false (.stmt (.expr e))).code = some code →
      (build wc false (.stmt (.expr e))).diags = [] ∧ (build wc false (.stmt (.expr e))).panic = none ∧
      ∃ c, inRange c ∧ eval wc.F e = .val (valOf c) ∧ evaluateCode wc.env code = .value (evaluatedOf c)) ∧
    ((build wc false (.stmt (.expr e))).code = none → (build wc false (.stmt (.expr e))).diags ≠ []) :=
  QV.Proofs.ConstWalk.build_const wc e hf

open QV.Proofs.ConstWalk in
/-- the evaluated value denotes the constant (everything but `null`, which has no evaluated value, and the empty list,
    which the fragment never produces) -/
theorem evaluated_denotes (c : ConstantValue) (hn : c ≠ .nullPointer) (he : c ≠ .emptyList) :
    (evaluatedOf c).bind denoted = some (valOf c) :=
  QV.Proofs.ConstWalk.denoted_evaluatedOf c hn he

open QV.Proofs.ConstWalk in
/-- a binding of the fragment without a value is not built and is diagnosed -/
theorem build_const_rejects_undefined (wc : Ctx) (e : Expr) (hf : ConstFrag e) (w : String)
    (hu : eval wc.F e = .undefined w) :
    (build wc false (.stmt (.expr e))).code = none ∧ (build wc false (.stmt (.expr e))).diags ≠ [] :=
  QV.Proofs.ConstWalk.build_const_rejects_undefined wc e hf w hu

open QV.Proofs.ConstWalk in
/-- non-vacuity: `-(1 << 62) * 2 - 1 < 0.5` is not well typed but IS in the fragment; `(3 + 4) % -2` is, and has the value 1 -/
example : ConstFrag (.binary .rem (.binary .add (.integer 3) (.integer 4)) (.unary .minus (.integer 2))) :=
  .binary _ _ _ (by intro l h; cases h) (.binary _ _ _ (by intro l h; cases h) (.int 3) (.int 4)) (.unary _ _ (.int 2))

example (F : FloatOps) :
    eval F (.binary .rem (.binary .add (.integer 3) (.integer 4)) (.unary .minus (.integer 2))) = .val (.int 1) := by
  rfl

end QV.Props.C03
