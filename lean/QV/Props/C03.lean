/-
  C03 — constants are embedded with exactly the value the source expression denotes; undefined ones are rejected.

  What is proved here (for every input, no bound):
  * `literal_value`        an integer literal accepted by `parse_number_str` has its ECMAScript mathematical value
                           (all radixes, legacy octal, separators), or is refused when it exceeds u64;
  * `fold_unary_sound`, `fold_binary_sound`
                           when the operands are constants the builder's folding emits no code and yields the value
                           the operator denotes in `Spec.ConstSem` (mathematical integers with a 64-bit range
                           check, truncating division, shifts as multiplication/floor division, UTF-16 string
                           order, IEEE primitives as a parameter), and that value again fits 64 bits;
  * `undefined_rejected`   an operator application whose value is undefined is refused;
  * `shl_accepts_exactly_representable`  the shift-back test of the repaired `<<` (F8) is exact;
  * `string_literal_value` a string literal accepted by `parse_string`/`unescape_char` has its ECMAScript string value
                           (all escape forms; line continuations, legacy octal, lone surrogates are over-rejected, never mis-read);
  * `int_text_roundtrip`   the decimal text written into the `.ui` for an integer reads back as that integer;
  * witnesses for the behaviour before the repairs of F6 and F8.
  The composition over whole expressions (walk + builder + `evaluate_code` + `.ui` serialisation) is tied by the
  `c03` stream: the value found in the real `.ui` is judged against `Spec.ConstSem.eval` of the source expression.
-/
import QV.Proofs.ConstFold
import QV.Proofs.Literal

namespace QV.Props.C03
open QV.Model QV.Spec.ConstSem QV.Proofs.ConstFold

/-- C03, folding of a binary operator: when both operands are constants the builder emits no code, and the
    constant it produces is the value the operator denotes (Spec.ConstSem) and fits 64 bits -/
theorem fold_binary_sound (F : FloatOps) (env : Env) (b : Builder) (tok : BinaryToken) (op : BinaryOp)
    (htok : tok.toOp = some op) (hlog : ∀ lop, op ≠ .logical lop) (l r : ConstantValue) (hl : inRange l)
    (res : Operand) (b' : Builder)
    (h : visitBinaryExpression F env b op (.const l) (.const r) = .ok (res, b')) :
    b' = b ∧ ∃ c, res = .const c ∧ inRange c ∧ binary F tok (valOf l) (valOf r) = .val (valOf c) := by
  cases op with
  | logical lop => exact absurd rfl (hlog lop)
  | arith aop =>
    simp only [visitBinaryExpression] at h
    cases he : evalBinaryArith F aop l r with
    | error e => simp [he] at h
    | ok c =>
      simp [he] at h
      exact ⟨h.2.symm, c, h.1.symm, sound_arith F tok aop htok l r c hl he⟩
  | bitwise bop =>
    simp only [visitBinaryExpression] at h
    cases he : evalBinaryBitwise bop l r with
    | error e => simp [he] at h
    | ok c =>
      simp [he] at h
      exact ⟨h.2.symm, c, h.1.symm, sound_bitwise F tok bop htok l r c he⟩
  | shift sop =>
    simp only [visitBinaryExpression] at h
    cases he : evalShift sop l r with
    | error e => simp [he] at h
    | ok c =>
      simp [he] at h
      exact ⟨h.2.symm, c, h.1.symm, sound_shift F tok sop htok l r c hl he⟩
  | cmp cop =>
    simp only [visitBinaryExpression] at h
    cases he : evalComparison F cop l r with
    | error e => simp [he] at h
    | ok c =>
      simp [he] at h
      exact ⟨h.2.symm, c, h.1.symm, sound_cmp F tok cop htok l r c he⟩

/-- an operator application without a value (division by zero, 64-bit overflow, negative or too large shift) is
    refused by the folder -/
theorem undefined_rejected (F : FloatOps) (env : Env) (b : Builder) (tok : BinaryToken) (op : BinaryOp)
    (htok : tok.toOp = some op) (hlog : ∀ lop, op ≠ .logical lop) (l r : ConstantValue) (hl : inRange l)
    (w : String) (hu : binary F tok (valOf l) (valOf r) = .undefined w) :
    ∃ e, visitBinaryExpression F env b op (.const l) (.const r) = .error e := by
  cases hv : visitBinaryExpression F env b op (.const l) (.const r) with
  | error e => exact ⟨e, rfl⟩
  | ok p =>
    obtain ⟨res, b'⟩ := p
    obtain ⟨_, c, _, _, hs⟩ := fold_binary_sound F env b tok op htok hlog l r hl res b' hv
    rw [hu] at hs
    cases hs

theorem fold_unary_sound (F : FloatOps) (b : Builder) (tok : UnaryToken) (op : UnaryOp)
    (htok : tok.toOp = some op) (a : ConstantValue) (ha : inRange a) (res : Operand) (b' : Builder)
    (h : visitUnaryExpression F b op (.const a) = .ok (res, b')) :
    b' = b ∧ ∃ c, res = .const c ∧ inRange c ∧ unary F tok (valOf a) = .val (valOf c) := by
  cases tok <;> simp [UnaryToken.toOp] at htok <;> subst htok <;> cases a <;>
    simp [visitUnaryExpression, evalUnaryArith, evalUnaryBitwise, evalUnaryLogical] at h
  case logicalNot.bool v =>
    exact ⟨h.2.symm, _, h.1.symm, trivial, by simp [unary, valOf]⟩
  case bitwiseNot.integer v =>
    refine ⟨h.2.symm, _, h.1.symm, ?_, by simp [unary, valOf]⟩
    simp only [inRange, representable, Bool.and_eq_true, decide_eq_true_eq] at ha ⊢
    omega
  case minus.integer v =>
    rcases checked_cases (-v) with ⟨hr, h1, h2⟩ | ⟨_, h1, _⟩ <;> rw [h1] at h
    · simp at h
      exact ⟨h.2.symm, _, h.1.symm, hr, by simp [unary, valOf, h2]⟩
    · simp at h
  case minus.float v =>
    exact ⟨h.2.symm, _, h.1.symm, trivial, by simp [unary, valOf]⟩
  case plus.integer v =>
    exact ⟨h.2.symm, _, h.1.symm, ha, by simp [unary, valOf]⟩
  case plus.float v =>
    exact ⟨h.2.symm, _, h.1.symm, trivial, by simp [unary, valOf]⟩

/-- F8 (repaired by 568b1aa): the shift-back test accepts exactly the shifts whose mathematical value fits 64 bits -/
theorem shl_accepts_exactly_representable (a : Int) (n : Nat) (hn : n < 64) :
    (wrapI64 (a * (2 : Int) ^ n) / (2 : Int) ^ n = a) ↔ representable (a * (2 : Int) ^ n) = true :=
  shl_check_iff a n hn

/-- F8 witness: without the test, `checked_shl` alone wraps: `3 << 62` came out negative -/
theorem f8_unchecked_shl_wraps : wrapI64 (3 * (2 : Int) ^ 62) = -4611686018427387904 ∧
    representable (3 * (2 : Int) ^ 62) = false := by decide

/-- F6 witness (repaired by 2f8ccf9): ordering by code point is not the UTF-16 order of the language -/
theorem f6_codepoint_order_is_wrong :
    strLtCodePoint [Char.ofNat 0xE000] [Char.ofNat 0x10000] = true ∧
    strLess [Char.ofNat 0xE000] [Char.ofNat 0x10000] = false := f6_codepoint_order_differs

/-- an integer literal the parser accepts has the ECMAScript mathematical value -/
theorem literal_value (floatOk : List Char → Bool) (s : List Char) (v : Nat) (h : QV.Spec.Ecma.mv s = some v) :
    QV.Model.Literal.parseNumberStr floatOk s =
      if v ≤ QV.Model.Literal.u64Max then some (.integer v) else none :=
  QV.Proofs.Literal.parseNumber_mv floatOk s v h

/-- the decimal text written for an integer (`<number>`) reads back as the same integer -/
theorem int_text_roundtrip (v : Int) : QV.Spec.Ecma.readInt (QV.Model.Literal.formatInt v) = some v :=
  QV.Proofs.Literal.readInt_formatInt v

/-- a string literal `parse_string` accepts has the ECMAScript string value (UTF-16 code units); the escape texts
    contain no sign character, which the lexer's escape pattern guarantees (`u32::from_str_radix` would accept `+41`) -/
theorem string_literal_value (segs : List QV.Model.Literal.Segment) (s : List Char)
    (hs : QV.Proofs.Literal.signFree segs) (h : QV.Model.Literal.parseString segs = some s) :
    QV.Spec.Ecma.stringValue (segs.map QV.Proofs.Literal.toSeg) = some (QV.Spec.Ecma.units16 s) :=
  QV.Proofs.Literal.parseString_sound segs s hs h

/-- the hypothesis about signs is needed: the decoder alone would read `\\u{+41}` as `A` -/
theorem sign_hypothesis_needed :
    QV.Model.Literal.unescapeChar "\\u{+41}".toList = some 'A' ∧ QV.Spec.Ecma.escapeValue "\\u{+41}".toList = none := by
  decide

/-! non-vacuity: the hypotheses are met by ordinary inputs -/
example : QV.Model.Literal.parseString [.fragment "a".toList, .escape "\\n".toList, .escape "\\u{1F600}".toList] =
    some ['a', '\n', Char.ofNat 0x1F600] := by decide
example : QV.Spec.Ecma.escapeValue ['\\', '\n'] = some [] ∧ QV.Model.Literal.unescapeChar ['\\', '\n'] = none := by decide
example : QV.Spec.Ecma.escapeValue "\\1".toList = some [1] ∧ QV.Model.Literal.unescapeChar "\\1".toList = none := by decide
example : QV.Spec.Ecma.escapeValue "\\uD83D".toList = some [55357] ∧ QV.Model.Literal.unescapeChar "\\uD83D".toList = none := by
  decide
example : QV.Spec.Ecma.mv "0x1_F".toList = some 31 := by decide
example : QV.Spec.Ecma.mv "0777".toList = some 511 := by decide
example : QV.Spec.Ecma.mv "089".toList = some 89 := by decide
example : QV.Spec.Ecma.mv "1_000".toList = some 1000 := by decide
example : QV.Spec.Ecma.mv "1__0".toList = none := by decide
example : BinaryToken.toOp .leftShift = some (.shift .shl) ∧ inRange (.integer 3) := ⟨rfl, by simp [inRange, representable]⟩
def dummyFloatOps : FloatOps where
  neg := id
  add := fun a _ => a
  sub := fun a _ => a
  mul := fun a _ => a
  div := fun a _ => a
  rem := fun a _ => a
  eq := fun _ _ => true
  lt := fun _ _ => false
  le := fun _ _ => true

example : binary dummyFloatOps .div (.int 1) (.int 0) = .undefined "division by zero" := by decide

end QV.Props.C03
