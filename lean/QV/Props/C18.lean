/-
  C18 — QML components in directories resolve as custom widgets, in any order.

  Model : QV.Model.QmlDir (mirrors lib/src/qmldir.rs populate_directories / make_doc_component_data /
          normalize_path, typemap/{module,namespace,qml_component,class}.rs lookups and base-class walk,
          uigen/mod.rs make_doc_module_space, objtree.rs, uigen/form.rs custom widgets, qtname.rs header names)
  Spec  : QV.Spec.QmlDir (`Resolves`, `Edge`, `Reach`: visibility of directories by string imports)
  Tie   : harness stream `c18` — generated directory layouts materialised in a temp dir, the real
          populate_directories + uigen::build run in-process for every permutation of the sources; directory
          set, component table (with resolved super classes), diagnostics, widgets and <customwidgets> of the
          real outputs are compared with the model (kind=model), the directory set with the specification
          (kind=spec), and order-independence / exact-once / reachability are also evaluated on the real
          outputs (kind=oracle).

  Added for the spelling of imports and "processed once": `each_directory_inserted_once` (no key twice),
  `directories_read_once` (#directories read = #modules), `import_spelling_irrelevant` / `import_detour_irrelevant`
  / `same_directory_same_module` (`./x`, `x/`, `x/.`, `a//b`, `a/./b`, `n/../x` resolve alike).  Symbolic links are
  outside the model; the stream checks them on the real file system (oracles `c18-once`, `c18-resolve`).

  Added for chains of components: `chain_accepts_end_class_properties` / `chain_instance_accepted` (a chain
  c₀ : c₁ : … : Qt class of any length, each link resolved in the imports of the component that names it, behaves like
  the Qt class it ends in: properties, widget / layout / action), `cyclic_chain_never_widget` /
  `cyclic_chain_instance_rejected` (a chain that returns to a component it has passed is no widget, layout or action and
  has no properties: every instance is diagnosed), `customwidget_extends_direct_super` and
  `customwidgets_only_instantiated` (`extends` is the root type written in the component's own file; ancestors that are
  not instantiated are not listed).  The model's Qt summary carries `isLayout` / `isAction` next to `isWidget`.

  Added for the forms of an import statement (`import M 6.2`, `import "../b" as B`): `versioned_import_is_the_import` /
  `versioned_import_only_warns` (a version changes neither the component a file defines nor the translation of the
  document, it adds a warning that does not reject), `aliased_import_contributes_nothing` /
  `aliased_import_rejects_document` (an aliased statement is skipped: no module id, no directory discovered through it;
  the document that carries it is rejected).  `Output.accepted` = built and no ERROR diagnostic.

  The command-line loop of `generate_ui` is modelled as `cliRun`; `cli_outputs_order_independent` proves the
  clause for it.  (Finding F15 — the loop stopped at the first rejected source — was repaired in /repo
  73d3cab; the pre-repair loop and its witness are kept as `cliRunFailFast` / `f15_fail_fast_witness`.)

  All theorems quantify over every tree (any import and root-type relation, cycles included), every source
  list and — where it matters — every permutation of it.
-/
import QV.Proofs.QmlDir

namespace QV.Props.C18
open QV.Model.QmlDir QV.Proofs.QmlDir
open QV.Spec.QmlDir (Reach Resolves Edge)

/-! ### termination -/

/-- **Directory discovery terminates**: on every tree and source list the work-list finishes within
    `fuelBound` iterations (so `populate` is total), whatever the directories import — mutually, themselves,
    or nothing that exists. -/
theorem discovery_terminates (t : Tree) (srcDirs : List Path) : ∃ r, populate t srcDirs = some r :=
  Option.isSome_iff_exists.1 (run_isSome _ _ (measure_init_lt t srcDirs))

/-- Fuel adequacy: any larger iteration budget gives the same result. -/
theorem discovery_fuel_irrelevant (t : Tree) (srcDirs : List Path) (r : PopResult) (k : Nat)
    (h : populate t srcDirs = some r) : run t (fuelBound t srcDirs + k) (initState srcDirs) = some r :=
  run_mono _ k _ r h

/-- Each iteration strictly decreases `pending + (pushBound + 1) · #unvisited directories`. -/
theorem discovery_measure_decreases (t : Tree) (s s' : PState) (h : step t s = .next s') :
    QV.Proofs.QmlDir.measure t s' < QV.Proofs.QmlDir.measure t s := measure_step h

/-- **The base-class walk terminates on mutually inheriting components** (`A : B`, `B : A`, `A : A`, …):
    on a type map that holds modules of the tree, `basesOf` never runs out of fuel, hence neither does the
    translation of a document. -/
theorem inheritance_walk_terminates (env : Env) (t : Tree) (look : Path → Option Module) (hs : SoundLook t look)
    (c : CompData) : ∃ l, basesOf env t look c = some l :=
  Option.isSome_iff_exists.1 (basesOf_isSome hs c)

theorem translation_terminates (env : Env) (t : Tree) (look : Path → Option Module) (hs : SoundLook t look)
    (base : Path) (f : File) : ∃ o, translate env t look base f = some o :=
  Option.isSome_iff_exists.1 (translate_isSome hs base f)

/-- **Every directory is processed exactly once.**  The type map never holds a directory twice (keys are canonical
    paths, so two spellings of a directory — or two directories importing each other — are one entry) … -/
theorem each_directory_inserted_once (t : Tree) (srcDirs : List Path) (ms : DirMap)
    (h : populate t srcDirs = some (.ok ms)) : ms.keys.Nodup :=
  run_keys_nodup _ _ ms (by simp [initState, DirMap.keys]) h

/-- … and the number of directories READ during the whole discovery (iterations of the work-list that do not hit
    the "already visited" test: one `read_dir` and one pass over the files each) is exactly the number of
    directory modules in the result — no directory is read twice, however often it is imported. -/
theorem directories_read_once (t : Tree) (srcDirs : List Path) (ms : DirMap)
    (h : populate t srcDirs = some (.ok ms)) :
    readsOf t (fuelBound t srcDirs) (initState srcDirs) = ms.length := by
  have := run_reads (fuelBound t srcDirs) (initState srcDirs) ms h
  simpa [initState] using this

/-! ### spelling of a string import -/

/-- **How a directory import is spelled does not matter**: `./x`, `x/`, `x/.`, `a//b`, `a/./b` and a detour
    `n/..` through an existing directory resolve to the same canonical directory (or fail alike), hence give the
    same module id in the component's import list and the same entry of the document's module space. -/
theorem import_spelling_irrelevant (t : Tree) (base : Path) (a b : List String) :
    resolve t base ("." :: a) = resolve t base a
    ∧ resolve t base (a ++ [""]) = resolve t base a
    ∧ resolve t base (a ++ ["."]) = resolve t base a
    ∧ resolve t base (a ++ "" :: b) = resolve t base (a ++ b)
    ∧ resolve t base (a ++ "." :: b) = resolve t base (a ++ b) := by
  have h1 := walk_skip t base "." (.inl rfl) a
  have h2 := walk_insert t base a [] "" (.inr rfl)
  have h3 := walk_insert t base a [] "." (.inl rfl)
  have h4 := walk_insert t base a b "" (.inr rfl)
  have h5 := walk_insert t base a b "." (.inl rfl)
  simp only [List.append_nil] at h2 h3
  simp only [resolve, h1, h2, h3, h4, h5, and_self]

theorem import_detour_irrelevant (t : Tree) (base : Path) (n : String) (rest : List String)
    (hn : n ≠ "." ∧ n ≠ "" ∧ n ≠ "..") (hd : isDir t (base ++ [n]) = true) :
    resolve t base (n :: ".." :: rest) = resolve t base rest := by
  simp only [resolve, walk_down_up t base n rest hn hd]

/-- two spellings that resolve alike are the same import -/
theorem same_directory_same_module (t : Tree) (base : Path) (s1 s2 : List String)
    (h : resolve t base s1 = resolve t base s2) : importId t base (.dir s1) = importId t base (.dir s2) := by
  simp [importId, h]

/-! ### what is discovered -/

/-- Sources are existing files, so their directories exist: discovery then succeeds (the only error the
    model has, `ReadDir`, needs a directory that is not there). -/
theorem discovery_succeeds (t : Tree) (srcDirs : List Path) (hsrc : ∀ p ∈ srcDirs, isDir t p = true) :
    ∃ ms, populate t srcDirs = some (.ok ms) := by
  obtain ⟨r, hr⟩ := discovery_terminates t srcDirs
  obtain ⟨ms, rfl, _⟩ := run_spec _ _ r (inv_init hsrc) hr
  exact ⟨ms, hr⟩

/-- **A directory module is in the type map iff the directory is visible from a source**: it is a
    source's directory or is reached from one through string imports (resolved component-wise, through
    existing directories only) of files that have a root object. -/
theorem discovered_iff_reachable (t : Tree) (srcDirs : List Path) (ms : DirMap)
    (hsrc : ∀ p ∈ srcDirs, isDir t p = true) (h : populate t srcDirs = some (.ok ms)) (p : Path) :
    ms.contains p = true ↔ Reach (specOf t) srcDirs p := by
  obtain ⟨ms', hms, hiff, _⟩ := run_spec _ _ _ (inv_init hsrc) h
  cases hms
  rw [hiff, mreach_iff_reach]

/-- The module stored for a discovered directory is the component list of that directory. -/
theorem discovered_module (t : Tree) (srcDirs : List Path) (ms : DirMap)
    (hsrc : ∀ p ∈ srcDirs, isDir t p = true) (h : populate t srcDirs = some (.ok ms)) (p : Path) (m : Module)
    (hm : ms.get? p = some m) : ∃ d, findDir t p = some d ∧ m = moduleOf t d := by
  obtain ⟨ms', hms, _, hsound⟩ := run_spec _ _ _ (inv_init hsrc) h
  cases hms
  exact hsound _ (get?_some_mem hm)

/-- **A component is a class with one super class — the type of its root object — and its own import
    list** (builtins, its own directory, then its imports in order; string imports that are no directory
    are dropped); files without a root object define nothing. -/
theorem component_class (t : Tree) (d : Dir) (c : CompData) :
    c ∈ moduleOf t d ↔ ∃ f ∈ d.files, f.hasRoot = true ∧
      c = { name := f.stem, super := f.root.typeName,
            imports := [.builtins, .dir d.path] ++ f.imports.filterMap (importId t d.path) } := by
  constructor
  · exact mem_moduleOf
  · rintro ⟨f, hf, hr, rfl⟩
    exact List.mem_filterMap.2 ⟨f, hf, by simp [componentOf, hr]⟩

/-- The type map discovery produces is sound for the tree (what the termination theorems above need). -/
theorem discovered_sound (t : Tree) (srcDirs : List Path) (ms : DirMap)
    (hsrc : ∀ p ∈ srcDirs, isDir t p = true) (h : populate t srcDirs = some (.ok ms)) : SoundLook t ms.get? := by
  intro p m hm
  obtain ⟨d, hd, rfl⟩ := discovered_module t srcDirs ms hsrc h p m hm
  exact ⟨d, (findDir_some hd).1, (findDir_some hd).2, rfl⟩

/-! ### order independence -/

/-- **The set of directory modules does not depend on the order of the sources**: for any permutation
    of the source list both runs succeed and the two type maps agree as maps (same directories, same
    module for each). -/
theorem discovery_order_independent (t : Tree) (srcs srcs' : List Path) (hperm : srcs.Perm srcs')
    (hsrc : ∀ p ∈ srcs, isDir t p = true) :
    ∃ ms ms', populate t srcs = some (.ok ms) ∧ populate t srcs' = some (.ok ms') ∧ ms.get? = ms'.get? := by
  have hsrc' : ∀ p ∈ srcs', isDir t p = true := fun p hp => hsrc p (hperm.mem_iff.2 hp)
  obtain ⟨ms, h⟩ := discovery_succeeds t srcs hsrc
  obtain ⟨ms', h'⟩ := discovery_succeeds t srcs' hsrc'
  refine ⟨ms, ms', h, h', ?_⟩
  funext p
  have hc : ms.contains p = ms'.contains p := by
    rw [Bool.eq_iff_iff, discovered_iff_reachable t srcs ms hsrc h, discovered_iff_reachable t srcs' ms' hsrc' h']
    rw [← mreach_iff_reach, ← mreach_iff_reach]
    exact ⟨MReach.mono fun q hq => hperm.mem_iff.1 hq, MReach.mono fun q hq => hperm.mem_iff.2 hq⟩
  cases h1 : ms.get? p with
  | none =>
    cases h2 : ms'.get? p with
    | none => rfl
    | some m' => simp [DirMap.contains, h1, h2] at hc
  | some m =>
    cases h2 : ms'.get? p with
    | none => simp [DirMap.contains, h1, h2] at hc
    | some m' =>
      obtain ⟨d, hd, rfl⟩ := discovered_module t srcs ms hsrc h p m h1
      obtain ⟨d', hd', rfl⟩ := discovered_module t srcs' ms' hsrc' h' p m' h2
      rw [hd] at hd'; cases hd'; rfl

/-- **The output for a source does not depend on the order in which sources are named**: the translation
    of any document against the type map of one order equals its translation against the type map of any
    other order. -/
theorem outputs_independent_of_argument_order (env : Env) (t : Tree) (srcs srcs' : List Path)
    (hperm : srcs.Perm srcs') (hsrc : ∀ p ∈ srcs, isDir t p = true) :
    ∃ ms ms', populate t srcs = some (.ok ms) ∧ populate t srcs' = some (.ok ms') ∧
      ∀ (base : Path) (f : File), translate env t ms.get? base f = translate env t ms'.get? base f := by
  obtain ⟨ms, ms', h, h', heq⟩ := discovery_order_independent t srcs srcs' hperm hsrc
  exact ⟨ms, ms', h, h', fun base f => by rw [heq]⟩

/-! ### `<customwidgets>` -/

/-- **Exactly the custom classes instantiated, each once.**  For every document for which a form is built:
    * no class name is listed twice;
    * an entry is listed iff some object of the document (root or child) has a type that resolves, in the
      document's imports, to a component whose own root type resolves in the COMPONENT's imports; the entry
      carries the component's name, the name of that root class as `extends` and the lower-cased
      `<name>.h` as header;
    * if the document is accepted (no error diagnostics) every instantiated component is listed. -/
theorem customwidgets_exact (env : Env) (t : Tree) (look : Path → Option Module) (base : Path) (f : File)
    (o : Output) (h : translate env t look base f = some o) (hb : o.built = true) :
    let sp := (docSpace env t look base f.imports).1
    (o.customs.map (·.cls)).Nodup ∧
    (∀ w, w ∈ o.customs ↔ ∃ ob d c s, (ob ∈ f.children ∨ ob = f.root) ∧
        getType env look sp ob.typeName = .ok (.comp d c) ∧ superClass env look c = .ok s ∧
        w = { cls := c.name, ext := s.name, header := headerName c.name }) ∧
    (o.accepted = true → ∀ ob d c, (ob ∈ f.children ∨ ob = f.root) →
        getType env look sp ob.typeName = .ok (.comp d c) → ∃ w ∈ o.customs, w.cls = c.name) := by
  intro sp
  obtain ⟨rootCls, kids, root, hroot, hk, hr, hc, _, hdiag⟩ := translate_built h hb
  have hnode : ∀ ob c, (ob ∈ f.children ∨ ob = f.root) → getType env look sp ob.typeName = .ok c →
      (ob, c) ∈ nodesOf env look sp f rootCls := by
    intro ob c hob hty
    unfold nodesOf
    rcases hob with hob | hob
    · exact List.mem_append.2 (.inl (mem_kidNodes.2 ⟨hob, hty⟩))
    · subst hob
      have : c = rootCls := by
        have := hroot; simp only [sp] at hty; rw [hty] at this; cases this; rfl
      subst this
      exact List.mem_append.2 (.inr (by simp))
  have hmem : ∀ w, w ∈ o.customs ↔ ∃ ob d c s, (ob ∈ f.children ∨ ob = f.root) ∧
      getType env look sp ob.typeName = .ok (.comp d c) ∧ superClass env look c = .ok s ∧
      w = { cls := c.name, ext := s.name, header := headerName c.name } := by
    intro w
    rw [hc, mem_customWidgets]
    constructor
    · rintro ⟨d, c, s, ⟨ob, hob⟩, hs, hw⟩
      obtain ⟨h1, h2⟩ := mem_nodesOf hroot hob
      exact ⟨ob, d, c, s, h1, h2, hs, hw⟩
    · rintro ⟨ob, d, c, s, h1, h2, hs, hw⟩
      exact ⟨d, c, s, ⟨ob, hnode ob _ h1 h2⟩, hs, hw⟩
  refine ⟨?_, hmem, ?_⟩
  · rw [hc]; exact customWidgets_nodup (nodesOf_name_inj hroot)
  · intro hacc ob d c hob hty
    have hd : ∀ d ∈ o.diags, d.isWarning = true := (accepted_iff.1 hacc).2
    obtain ⟨hrootDiag, hkidDiag⟩ := hdiag hd
    have hn := hnode ob _ hob hty
    -- the node's base list passes the class test (root: a widget; child: a widget, a layout or an action)
    have hw : ∃ b r, clsBases env t look (.comp d c) = some b ∧ passesClass r b = true := by
      unfold nodesOf at hn
      rcases List.mem_append.1 hn with hn | hn
      · obtain ⟨i, hi, _, _, hb'⟩ := infos_mem _ _ hk _ hn
        exact ⟨i.bases, false, hb', classDiag_nil (hkidDiag i hi)⟩
      · obtain ⟨i, hi, _, _, hb'⟩ := infos_mem _ _ hr _ hn
        simp only [List.mem_singleton] at hi; subst hi
        exact ⟨i.bases, true, hb', classDiag_nil hrootDiag⟩
    obtain ⟨b, r, hb', hwb⟩ := hw
    obtain ⟨s, hs⟩ := passesClass_super_ok hb' hwb
    exact ⟨_, (hmem _).2 ⟨ob, d, c, s, hob, hty, hs, rfl⟩, rfl⟩

/-- The header name is the class name plus `.h`, ASCII-lower-cased (`FileNameRules::default()`). -/
theorem header_rule (n : String) : headerName n = String.ofList ((n.toList ++ ['.', 'h']).map asciiLower) := rfl

/-! ### instances accept the properties of the base class -/

/-- **An instance of a component accepts every property its base class accepts** (and is a widget if the
    base class is one): if the component's root type resolves to class `s`, and a binding to `p` on an
    object of class `s` is accepted, then the same binding on an object of the component is accepted —
    through any number of intermediate components, each resolved in its own imports. -/
theorem instances_accept_base_properties (env : Env) (t : Tree) (look : Path → Option Module)
    (hs : SoundLook t look) (c : CompData) (s : Cls) (hsup : superClass env look c = .ok s)
    (bs : List BaseItem) (hb : clsBases env t look s = some bs) :
    ∃ bc, basesOf env t look c = some bc ∧
      (∀ p, propIn p bs = .found → propIn p bc = .found) ∧ (derivesWidget bs = true → derivesWidget bc = true) := by
  cases s with
  | qt q =>
    simp only [clsBases, Option.some.injEq] at hb
    subst hb
    have hr : ReachesQt env look 0 c q := .base hsup
    obtain ⟨bc, hbc, _, hw⟩ := reaches_basesOf (p := "") hs hr
    refine ⟨bc, hbc, ?_, ?_⟩
    · intro p hp
      obtain ⟨bc', hbc', hp', _⟩ := reaches_basesOf (p := p) hs hr
      rw [hbc] at hbc'; cases hbc'
      simp only [propIn] at hp
      split at hp
      · rename_i hmem; rw [hp', if_pos hmem]
      · cases hp
    · intro hw'; rw [hw]; simpa [derivesWidget] using hw'
  | comp d c' =>
    simp only [clsBases] at hb
    by_cases hex : ∃ k q, ReachesQt env look k c' q
    · obtain ⟨k, q, hk⟩ := hex
      have hr : ReachesQt env look (k + 1) c q := .step hsup hk
      obtain ⟨bc, hbc, _, hw⟩ := reaches_basesOf (p := "") hs hr
      obtain ⟨bs', hbs', _, hws⟩ := reaches_basesOf (p := "") hs hk
      rw [hb] at hbs'; cases hbs'
      refine ⟨bc, hbc, ?_, ?_⟩
      · intro p hp
        obtain ⟨bc', hbc', hp', _⟩ := reaches_basesOf (p := p) hs hr
        obtain ⟨bs', hbs', hps, _⟩ := reaches_basesOf (p := p) hs hk
        rw [hbc] at hbc'; cases hbc'
        rw [hb] at hbs'; cases hbs'
        rw [hp']; rw [hps] at hp; exact hp
      · intro hw'; rw [hw, ← hws]; exact hw'
    · obtain ⟨bc, hbc⟩ := Option.isSome_iff_exists.1 (basesOf_isSome (env := env) hs c)
      refine ⟨bc, hbc, ?_, ?_⟩
      · intro p hp
        obtain ⟨k, q, hk, _⟩ := propIn_found_reaches _ _ _ _ hb hp
        exact absurd ⟨k, q, hk⟩ hex
      · intro hw'
        exfalso
        apply hex
        -- a base list that derives from QWidget ends in a Qt class
        have : ∀ (n : Nat) (v : List (Path × CompData)) (c : CompData) (l : List BaseItem),
            baseClasses env look n v c = some l → derivesWidget l = true → ∃ k q, ReachesQt env look k c q := by
          intro n
          induction n with
          | zero => intro v c l h; simp [baseClasses] at h
          | succ n ih =>
            intro v c l h hw
            unfold baseClasses at h
            split at h
            · cases h; simp [derivesWidget] at hw
            · rename_i q hq; exact ⟨0, q, .base hq⟩
            · rename_i d' c'' hq
              split at h
              · cases h; simp [derivesWidget] at hw
              · cases hr : baseClasses env look n ((d', c'') :: v) c'' with
                | none => rw [hr] at h; cases h
                | some l' =>
                  rw [hr] at h; cases h
                  simp only [derivesWidget] at hw
                  obtain ⟨k, q, hk⟩ := ih _ _ _ hr hw
                  exact ⟨k + 1, q, .step hq hk⟩
        exact this _ _ _ _ hb hw'

/-! ### chains of components: component → component → … → Qt class -/

/-- **A chain of components behaves like the Qt class it ends in.**  `ReachesQt env look k c q`: the root type of `c`
    resolves — in `c`'s own imports — to a component, whose root type resolves in ITS imports to a component, … and
    after `k` components to the Qt class `q` (so the chain passes `k + 1` pairwise distinct components; the links may
    lie in one directory or each in another one, visible only from the component that names it).  Then the base-class
    walk of `c` reaches `q` whatever its length: a property is found on an instance of `c` iff `q` has it (own and
    inherited alike — `q.props` is what `get_property` resolves on `q`), every other property is `unknown` (never a
    resolution failure), and `c` is a widget / a layout / an action iff `q` is one. -/
theorem chain_accepts_end_class_properties (env : Env) (t : Tree) (look : Path → Option Module)
    (hs : SoundLook t look) {k : Nat} {c : CompData} {q : QtClass} (h : ReachesQt env look k c q) :
    ∃ l, basesOf env t look c = some l ∧
      (∀ p, propIn p l = .found ↔ p ∈ q.props) ∧ (∀ p, p ∉ q.props → propIn p l = .unknown) ∧
      derivesWidget l = q.isWidget ∧ derivesLayout l = q.isLayout ∧ derivesAction l = q.isAction := by
  obtain ⟨l, hl, _, hw⟩ := reaches_basesOf (p := "") hs h
  have hp : ∀ p, propIn p l = (if p ∈ q.props then .found else .unknown) := by
    intro p
    obtain ⟨l', hl', hp', _⟩ := reaches_basesOf (p := p) hs h
    rw [hl] at hl'; cases hl'; exact hp'
  obtain ⟨l1, hl1, hlay⟩ := reaches_basesOf_sel (sel := (·.isLayout)) hs h
  obtain ⟨l2, hl2, hact⟩ := reaches_basesOf_sel (sel := (·.isAction)) hs h
  rw [hl] at hl1 hl2; cases hl1; cases hl2
  refine ⟨l, hl, ?_, ?_, hw, hlay, hact⟩
  · intro p; rw [hp p]; split <;> simp_all
  · intro p hn; rw [hp p, if_neg hn]

/-- **What the form makes of an instance of a chain component.**  With the base list of the theorem above: the
    binding of an instance is written to the `.ui` iff the end class has the property, otherwise it is diagnosed
    `unknown property of class '<component>'` and nothing else; as the ROOT object the instance passes iff the end
    class is a widget (else `is not a QWidget`), as a CHILD iff it is a widget, a layout or an action (else
    `is not a QAction, QLayout, nor QWidget`). -/
theorem chain_instance_accepted (env : Env) (t : Tree) (look : Path → Option Module) (hs : SoundLook t look)
    {k : Nat} {c : CompData} {q : QtClass} (h : ReachesQt env look k c q) (n : NodeInfo) (d : Path)
    (hc : n.cls = .comp d c) (hb : basesOf env t look c = some n.bases) :
    (∀ p, n.obj.prop = some p → p ∈ q.props → bindingOf n = ([p], [])) ∧
    (∀ p, n.obj.prop = some p → p ∉ q.props → bindingOf n = ([], [.unknownProperty c.name p])) ∧
    (classDiag true n = [] ↔ q.isWidget = true) ∧
    (classDiag false n = [] ↔ (q.isAction = true ∨ q.isLayout = true ∨ q.isWidget = true)) ∧
    (classDiag true n = [] ∨ classDiag true n = [.notQWidget c.name]) ∧
    (classDiag false n = [] ∨ classDiag false n = [.notActionLayoutWidget c.name]) := by
  obtain ⟨l, hl, hfound, hunk, hw, hlay, hact⟩ := chain_accepts_end_class_properties env t look hs h
  rw [hb] at hl; cases hl
  have hname : n.cls.name = c.name := by rw [hc]; rfl
  refine ⟨?_, ?_, ?_, ?_, ?_, ?_⟩
  · intro p hp hmem
    simp only [bindingOf, hp, (hfound p).2 hmem]
  · intro p hp hmem
    simp only [bindingOf, hp, hunk p hmem, hname]
  · rw [classDiag_nil_iff]; simp [passesClass, hw]
  · rw [classDiag_nil_iff]; simp [passesClass, hw, hlay, hact, or_assoc]
  · unfold classDiag; simp only [if_true, hname]; split <;> simp
  · unfold classDiag; simp only [Bool.false_eq_true, if_false, hname]; split <;> simp

/-- **A chain that runs into a cycle never becomes a widget.**  `chainAt env look k c` is the component reached from
    `c` after `k + 1` steps along root types.  If the chain comes back to a component it has passed (`A : B, B : A`;
    `A : A`; `C : A, A : B, B : A` — within one directory or across directories), then the walk over the base classes
    of `c` still terminates, and its result contains no Qt class: `c` is no widget, no layout and no action — so every
    document that instantiates `c` is rejected by the class test — and every property looked up on it is `unknown`. -/
theorem cyclic_chain_never_widget (env : Env) (t : Tree) (look : Path → Option Module) (hs : SoundLook t look)
    (c : CompData) (i j : Nat) (x : Path × CompData) (hij : i < j)
    (hi : chainAt env look i c = some x) (hj : chainAt env look j c = some x) :
    ∃ l, basesOf env t look c = some l ∧ derivesWidget l = false ∧ derivesLayout l = false ∧
      derivesAction l = false ∧ passesClass true l = false ∧ passesClass false l = false ∧
      ∀ p, propIn p l = .unknown := by
  obtain ⟨l, hl⟩ := inheritance_walk_terminates env t look hs c
  have hall : AllComp l := baseClasses_forever _ _ _ _ (chainAt_forever hij hi hj) hl
  have h1 := (allComp_lookups hall (·.isLayout) "").1
  have h2 := (allComp_lookups hall (·.isAction) "").1
  have h3 := (allComp_lookups hall (·.isAction) "").2.1
  refine ⟨l, hl, h3, h1, h2, ?_, ?_, fun p => (allComp_lookups hall (·.isAction) p).2.2⟩
  · simp [passesClass, h3]
  · simp [passesClass, h3, derivesLayout, derivesAction, h1, h2]

/-- … hence an instance of such a component is always diagnosed, as root and as child. -/
theorem cyclic_chain_instance_rejected (env : Env) (t : Tree) (look : Path → Option Module) (hs : SoundLook t look)
    (c : CompData) (i j : Nat) (x : Path × CompData) (hij : i < j)
    (hi : chainAt env look i c = some x) (hj : chainAt env look j c = some x)
    (n : NodeInfo) (hb : basesOf env t look c = some n.bases) :
    classDiag true n = [.notQWidget n.cls.name] ∧ classDiag false n = [.notActionLayoutWidget n.cls.name] ∧
    ∀ p, n.obj.prop = some p → bindingOf n = ([], [.unknownProperty n.cls.name p]) := by
  obtain ⟨l, hl, hw, hlay, hact, _, _, hp⟩ := cyclic_chain_never_widget env t look hs c i j x hij hi hj
  rw [hb] at hl; cases hl
  refine ⟨?_, ?_, ?_⟩
  · simp [classDiag, hw]
  · simp [classDiag, hw, hlay, hact]
  · intro p hpr; simp only [bindingOf, hpr, hp p]

/-- **`extends` is the DIRECT super class**: the entry of a component carries the component's name, as `extends` the
    type name written as the root object of the component's own file (for `Fancy : Base`, `Base : QPushButton` the entry
    of `Fancy` says `Base`, not `QPushButton`) and the header by the file-name rule. -/
theorem customwidget_extends_direct_super (env : Env) (look : Path → Option Module) (c : CompData) (w : CustomWidget)
    (h : customOf env look c = some w) :
    w = { cls := c.name, ext := c.super, header := headerName c.name } := by
  unfold customOf at h
  split at h
  · rename_i s hs
    cases h
    rw [superClass_name hs]
  · cases h

/-- **Only what the document instantiates is listed**: every entry under `<customwidgets>` is the class of some object
    of the document (root or child), with `extends` = the root type written in that component's file — a component that
    is only an ANCESTOR of an instantiated one (`Base` above) gets no entry of its own. -/
theorem customwidgets_only_instantiated (env : Env) (t : Tree) (look : Path → Option Module) (base : Path) (f : File)
    (o : Output) (h : translate env t look base f = some o) (hb : o.built = true) (w : CustomWidget) (hw : w ∈ o.customs) :
    ∃ ob d c, (ob ∈ f.children ∨ ob = f.root) ∧ ob.typeName = w.cls ∧
      getType env look (docSpace env t look base f.imports).1 ob.typeName = .ok (.comp d c) ∧
      w = { cls := c.name, ext := c.super, header := headerName c.name } := by
  obtain ⟨_, hmem, _⟩ := customwidgets_exact env t look base f o h hb
  obtain ⟨ob, d, c, s, hob, hty, hs, hweq⟩ := (hmem w).1 hw
  obtain ⟨_, _, _, _, hname⟩ := getType_comp hty
  refine ⟨ob, d, c, hob, ?_, hty, ?_⟩
  · rw [hweq]; exact hname.symm
  · rw [hweq, superClass_name hs]

/-! ### forms of an import statement: version, alias, repetition -/

/-- the same file with every version removed from its import statements -/
def eraseVersions (f : File) : File := { f with stmts := f.stmts.map fun s => { s with version := none } }

/-- **A versioned import is the import.**  A version on an import statement (`import qmluic.QtWidgets 6.2`,
    `import "../b" 1.0`) changes neither the imports that count, nor — therefore — the component the file defines (its
    super class, its import list: the directories discovered through it and the names it can resolve). -/
theorem versioned_import_is_the_import (t : Tree) (base : Path) (f : File) :
    (eraseVersions f).imports = f.imports ∧ componentOf t base (eraseVersions f) = componentOf t base f := by
  have hi : (eraseVersions f).imports = f.imports := by
    simp only [File.imports, eraseVersions, List.filter_map, List.map_map]
    congr 1
  refine ⟨hi, ?_⟩
  unfold componentOf
  rw [hi]; rfl

/-- … and for the document being translated it only adds the warning "import version is ignored": with the versions
    removed the translation is the same form, the same widgets, the same `<customwidgets>`, the same verdict, and the
    same diagnostics but for that warning. -/
theorem versioned_import_only_warns (env : Env) (t : Tree) (look : Path → Option Module) (base : Path) (f : File)
    (o : Output) (h : translate env t look base f = some o) :
    ∃ o', translate env t look base (eraseVersions f) = some o' ∧ o'.built = o.built ∧ o'.widgets = o.widgets ∧
      o'.customs = o.customs ∧ o'.accepted = o.accepted ∧
      ∃ R, o.diags = stmtDiags f.stmts ++ R ∧
        o'.diags = (stmtDiags f.stmts).filter (· ≠ .importVersionIgnored) ++ R := by
  obtain ⟨R, hd, h'⟩ := translate_stmts (f' := eraseVersions f) (versioned_import_is_the_import t base f).1 rfl rfl h
  refine ⟨_, h', rfl, rfl, rfl, ?_, R, hd, ?_⟩
  · have hall : ∀ l : List Diag, (l.filter (· ≠ .importVersionIgnored)).all Diag.isWarning = l.all Diag.isWarning := by
      intro l
      induction l with
      | nil => rfl
      | cons d rest ih =>
        rw [List.filter_cons]
        split
        · rw [List.all_cons, List.all_cons, ih]
        · rename_i hdv
          have : d = .importVersionIgnored := by simpa using hdv
          subst this
          rw [List.all_cons, ih]; rfl
    simp only [Output.accepted, hd, List.all_append, eraseVersions, stmtDiags_eraseVersions, hall]
  · simp only [eraseVersions, stmtDiags_eraseVersions]

/-- **An aliased import contributes nothing**: with or without the statement the imports that count are the same, so
    the component the file defines is the same one (in particular the directory of an aliased string import is not
    discovered through it, and a root type only that import would provide does not resolve) … -/
theorem aliased_import_contributes_nothing (t : Tree) (base : Path) (f : File) (pre post : List ImportStmt)
    (s : ImportStmt) (ha : s.alias.isSome = true) (hf : f.stmts = pre ++ s :: post) :
    f.imports = ({ f with stmts := pre ++ post } : File).imports ∧
      componentOf t base f = componentOf t base { f with stmts := pre ++ post } := by
  have hi : f.imports = ({ f with stmts := pre ++ post } : File).imports := by
    have hn : s.alias.isNone = false := by
      cases hs : s.alias with
      | none => simp [hs] at ha
      | some a => rfl
    simp only [File.imports, hf, List.filter_append, List.filter_cons, hn, Bool.false_eq_true, if_false]
  refine ⟨hi, ?_⟩
  unfold componentOf
  rw [hi]

/-- … and a document that carries one is rejected ("aliased import is not supported" is an error). -/
theorem aliased_import_rejects_document (env : Env) (t : Tree) (look : Path → Option Module) (base : Path) (f : File)
    (o : Output) (h : translate env t look base f = some o) (s : ImportStmt) (hs : s ∈ f.stmts)
    (ha : s.alias.isSome = true) : Diag.aliasedImport ∈ o.diags ∧ o.accepted = false := by
  obtain ⟨R, hd, _⟩ := translate_stmts (f' := f) rfl rfl rfl h
  have hm : Diag.aliasedImport ∈ o.diags := by
    rw [hd]; exact List.mem_append.2 (.inl (mem_stmtDiags_aliased hs ha))
  refine ⟨hm, ?_⟩
  cases hacc : o.accepted with
  | false => rfl
  | true =>
    have := (accepted_iff.1 hacc).2 _ hm
    simp [Diag.isWarning] at this

/-! ### the command line

  `generate_ui` translates every source, remembers whether one was rejected, and fails at the end (only an
  I/O-level error — `CommandError::Other` — still ends the run at once; such errors are outside the model's
  file system, hence the hypothesis `noFatal`).  So what is written for a source, and the exit status, do not
  depend on the order of the arguments.  Before the repair of finding F15 (commit 73d3cab in /repo) the loop
  stopped at the first rejected source; that loop is kept as `cliRunFailFast` with its kernel-checked
  witness. -/

def noFatal (srcs : List (String × SrcOutcome)) : Prop := ∀ s ∈ srcs, s.2 ≠ .fatal

instance (srcs : List (String × SrcOutcome)) : Decidable (noFatal srcs) :=
  inferInstanceAs (Decidable (∀ s ∈ srcs, s.2 ≠ .fatal))

theorem cliLoop_written (l : List (String × SrcOutcome)) (h : noFatal l) (diag : Bool) :
    (cliLoop diag l).1 = (l.filter fun s => s.2 = .accepted).map (·.1) := by
  induction l generalizing diag with
  | nil => rfl
  | cons x xs ih =>
    obtain ⟨n, o⟩ := x
    have hxs : noFatal xs := fun s hs => h s (List.mem_cons_of_mem _ hs)
    cases o with
    | accepted => simp [cliLoop, ih hxs]
    | rejected => simp [cliLoop, ih hxs]
    | fatal => exact absurd rfl (h (n, .fatal) List.mem_cons_self)

theorem cliLoop_status (l : List (String × SrcOutcome)) (h : noFatal l) (diag : Bool) :
    (cliLoop diag l).2 = if diag || l.any (fun s => s.2 = .rejected) then .diagnosticGenerated else .success := by
  induction l generalizing diag with
  | nil => cases diag <;> rfl
  | cons x xs ih =>
    obtain ⟨n, o⟩ := x
    have hxs : noFatal xs := fun s hs => h s (List.mem_cons_of_mem _ hs)
    cases o with
    | accepted =>
      have : (cliLoop diag ((n, .accepted) :: xs)).2 = (cliLoop diag xs).2 := rfl
      have e : ((n, SrcOutcome.accepted) :: xs).any (fun s => decide (s.2 = .rejected))
          = xs.any (fun s => decide (s.2 = .rejected)) := by
        rw [List.any_cons]; rfl
      rw [this, ih hxs, e]
    | rejected =>
      have : (cliLoop diag ((n, .rejected) :: xs)).2 = (cliLoop true xs).2 := rfl
      have e : ((n, SrcOutcome.rejected) :: xs).any (fun s => decide (s.2 = .rejected)) = true := by
        rw [List.any_cons]; rfl
      rw [this, ih hxs, e]; simp
    | fatal => exact absurd rfl (h (n, .fatal) List.mem_cons_self)

/-- The outputs of exactly the accepted sources are written — whatever else is on the command line. -/
theorem cli_written_iff_accepted (srcs : List (String × SrcOutcome)) (h : noFatal srcs) (n : String) :
    n ∈ (cliRun srcs).1 ↔ (n, SrcOutcome.accepted) ∈ srcs := by
  unfold cliRun
  rw [cliLoop_written srcs h]
  simp only [List.mem_map, List.mem_filter, decide_eq_true_eq]
  constructor
  · rintro ⟨⟨m, o⟩, ⟨hm, ho⟩, rfl⟩
    simp only at ho; subst ho; exact hm
  · intro hm; exact ⟨(n, .accepted), ⟨hm, rfl⟩, rfl⟩

/-- The command succeeds iff no source is rejected. -/
theorem cli_status (srcs : List (String × SrcOutcome)) (h : noFatal srcs) :
    (cliRun srcs).2 = if srcs.any (fun s => s.2 = .rejected) then .diagnosticGenerated else .success := by
  unfold cliRun
  rw [cliLoop_status srcs h]
  simp only [Bool.false_or]

/-- **The outputs written and the exit status do not depend on the order of the source arguments**
    (the clause refuted before the repair of F15): for any permutation of the sources the written outputs
    are a permutation of each other — in particular a source's output is written in one order iff it is
    written in the other — and the command ends the same way. -/
theorem cli_outputs_order_independent (srcs srcs' : List (String × SrcOutcome)) (hp : srcs.Perm srcs')
    (h : noFatal srcs) :
    (cliRun srcs).1.Perm (cliRun srcs').1 ∧ (∀ n, n ∈ (cliRun srcs).1 ↔ n ∈ (cliRun srcs').1) ∧
      (cliRun srcs).2 = (cliRun srcs').2 := by
  have h' : noFatal srcs' := fun s hs => h s (hp.mem_iff.2 hs)
  have hperm : (cliRun srcs).1.Perm (cliRun srcs').1 := by
    unfold cliRun
    rw [cliLoop_written srcs h, cliLoop_written srcs' h']
    exact (hp.filter _).map _
  refine ⟨hperm, fun n => hperm.mem_iff, ?_⟩
  rw [cli_status srcs h, cli_status srcs' h']
  have : srcs.any (fun s => s.2 = .rejected) = srcs'.any (fun s => s.2 = .rejected) := by
    rw [Bool.eq_iff_iff, List.any_eq_true, List.any_eq_true]
    exact ⟨fun ⟨x, hx, hr⟩ => ⟨x, hp.mem_iff.1 hx, hr⟩, fun ⟨x, hx, hr⟩ => ⟨x, hp.mem_iff.2 hx, hr⟩⟩
  rw [this]

/-- The pre-repair behaviour (fail-fast loop) was order dependent: the F15 witness.
    `Bad.qml Good.qml` wrote nothing, `Good.qml Bad.qml` wrote `good.ui`; the repaired loop writes it in
    both orders.  Replayed on the real binary by `corpus/C18/cli_fail_fast.c18.req`. -/
theorem f15_fail_fast_witness :
    cliRunFailFast [("Bad", .rejected), ("Good", .accepted)] = ([], .diagnosticGenerated) ∧
    cliRunFailFast [("Good", .accepted), ("Bad", .rejected)] = (["Good"], .diagnosticGenerated) ∧
    cliRun [("Bad", .rejected), ("Good", .accepted)] = (["Good"], .diagnosticGenerated) ∧
    cliRun [("Good", .accepted), ("Bad", .rejected)] = (["Good"], .diagnosticGenerated) := by decide

/-- … so the statement proved above for `cliRun` is false of the pre-repair loop. -/
theorem f15_fail_fast_order_dependent :
    ¬ ∀ (srcs srcs' : List (String × SrcOutcome)), srcs.Perm srcs' → noFatal srcs →
        ∀ n, n ∈ (cliRunFailFast srcs).1 ↔ n ∈ (cliRunFailFast srcs').1 := by
  intro h
  have := h [("Bad", .rejected), ("Good", .accepted)] [("Good", .accepted), ("Bad", .rejected)]
    (List.Perm.swap _ _ _) (by decide) "Good"
  revert this
  decide

/-! ### non-vacuity: mutually importing directories, mutually and self-inheriting components -/

section Examples

private def qtEnv : Env :=
  { qt := [{ name := "QWidget", isWidget := true, props := ["windowTitle"] },
           { name := "QDialog", isWidget := true, props := ["windowTitle", "sizeGripEnabled"] }] }

private def qtw : ImportStmt := .named "qmluic.QtWidgets"

/-- `a` and `b` import each other; `a/A : B`, `b/B : A` inherit from each other; `a/S : S` from itself;
    `b/Form : QDialog`; `a/Main` instantiates `Form` twice, `A`, and `S`. -/
private def tree : Tree :=
  [ { path := [], files := [] },
    { path := ["a"], files :=
        [ { stem := "A", stmts := [qtw, .dir ["..", "b"]], root := { typeName := "B" } },
          { stem := "S", stmts := [qtw], root := { typeName := "S" } },
          { stem := "Main", stmts := [qtw, .dir ["..", "b"]], root := { typeName := "QWidget" },
            children := [{ typeName := "Form", prop := some "sizeGripEnabled" }, { typeName := "A" },
                         { typeName := "Form" }, { typeName := "S" }] },
          { stem := "Ok", stmts := [qtw, .dir ["..", "b", "."]], root := { typeName := "Form", prop := some "windowTitle" },
            children := [{ typeName := "Form" }, { typeName := "QDialog" }] } ] },
    { path := ["b"], files :=
        [ { stem := "B", stmts := [qtw, .dir ["..", "a"]], root := { typeName := "A" } },
          { stem := "Form", stmts := [qtw, .dir ["missing", "..", "a"]], root := { typeName := "QDialog" } } ] } ]

private def dirsOf (r : Option PopResult) : Option (List Path) :=
  match r with
  | some (.ok ms) => some ms.keys
  | _ => none

private def lookOf (r : Option PopResult) : Path → Option Module :=
  match r with
  | some (.ok ms) => ms.get?
  | _ => fun _ => none

-- discovery on mutually importing directories terminates with both, in either order
example : dirsOf (populate tree [["a"]]) = some [["a"], ["b"]] := by decide +kernel
example : dirsOf (populate tree [["b"]]) = some [["b"], ["a"]] := by decide +kernel
example : dirsOf (populate tree [["a"], ["b"], ["a"]]) = some [["a"], ["b"]] := by decide +kernel
-- `missing/../a` is not a directory although it is lexically `a`
example : resolve tree ["b"] ["missing", "..", "a"] = none := by decide +kernel
example : resolve tree ["a"] ["..", "b", "."] = some ["b"] := by decide +kernel
/-- one directory under six spellings; a cycle of length 2 spelled with `..`: two modules, two reads -/
example : ([["..", "b"], [".", "..", "b"], ["..", "b", ""], ["..", "", "b"], ["..", "b", "..", "b", "."], ["..", "a", "..", "b", "", ""]].map
    (resolve tree ["a"])) = List.replicate 6 (some ["b"]) := by decide +kernel
example : (match populate tree [["a"], ["b"]] with
    | some (.ok ms) => some (ms.keys, readsOf tree (fuelBound tree [["a"], ["b"]]) (initState [["a"], ["b"]]))
    | _ => none) = some ([["b"], ["a"]], 2) := by decide +kernel

private def mainOut : Option Output :=
  match findDir tree ["a"] with
  | some d => (d.files.find? (·.stem = "Main")).bind (translate qtEnv tree (lookOf (populate tree [["a"]])) ["a"])
  | none => none

private def okOut : Option Output :=
  match findDir tree ["a"] with
  | some d => (d.files.find? (·.stem = "Ok")).bind (translate qtEnv tree (lookOf (populate tree [["b"], ["a"]])) ["a"])
  | none => none

-- mutually inheriting `A`/`B` and self-inheriting `S`: translation terminates, the classes are diagnosed as
-- no widgets, and every custom class is listed once (`Form` is instantiated twice) with its root class
example : mainOut.map (·.customs) = some
    [ { cls := "Form", ext := "QDialog", header := "form.h" },
      { cls := "A", ext := "B", header := "a.h" },
      { cls := "S", ext := "S", header := "s.h" } ] := by decide +kernel
example : mainOut.map (·.diags) = some [.notActionLayoutWidget "A", .notActionLayoutWidget "S"] := by decide +kernel
-- an accepted document: root and child of custom type `Form`; the instance accepts properties of its base
example : okOut = some
    { built := true, diags := [],
      widgets := [{ cls := "Form", props := ["windowTitle"] }, { cls := "Form", props := [] }, { cls := "QDialog", props := [] }],
      customs := [{ cls := "Form", ext := "QDialog", header := "form.h" }] } := by decide +kernel
example : mainOut.map (·.widgets.take 2) = some
    [{ cls := "QWidget", props := [] }, { cls := "Form", props := ["sizeGripEnabled"] }] := by decide +kernel

/-! chains: `Fancy : Base : QPushButton` in one directory (the layout of seeded change C18/3), `Top : Mid : Low :
   QPushButton` with every link in another directory (`d` imports `e`, `e` imports `f`; a document of `d` sees `Top`
   only), chains that end in a layout class and in QAction, and `C : A`, `A : B`, `B : A` (a chain into a cycle) -/

private def chainEnv : Env :=
  { qt := [{ name := "QWidget", isWidget := true, props := ["windowTitle"] },
           { name := "QDialog", isWidget := true, props := ["windowTitle"] },
           { name := "QPushButton", isWidget := true, props := ["windowTitle", "text", "flat"] },
           { name := "QVBoxLayout", isWidget := false, props := ["spacing"], isLayout := true },
           { name := "QAction", isWidget := false, props := ["text"], isAction := true }] }

private def chainTree : Tree :=
  [ { path := [], files := [] },
    { path := ["d"], files :=
        [ { stem := "Base", stmts := [qtw], root := { typeName := "QPushButton" } },
          { stem := "Fancy", stmts := [qtw], root := { typeName := "Base", prop := some "flat" } },
          { stem := "Main", stmts := [qtw], root := { typeName := "QDialog" },
            children := [{ typeName := "Fancy", prop := some "text" }, { typeName := "Fancy", prop := some "title" }] },
          { stem := "Top", stmts := [qtw, .dir ["..", "e"]], root := { typeName := "Mid" } },
          { stem := "UseTop", stmts := [qtw], root := { typeName := "Top", prop := some "windowTitle" },
            children := [{ typeName := "Top", prop := some "flat" }, { typeName := "Mid" }] },
          { stem := "Lay", stmts := [qtw], root := { typeName := "QVBoxLayout" } },
          { stem := "Lay2", stmts := [qtw], root := { typeName := "Lay" } },
          { stem := "Act", stmts := [qtw], root := { typeName := "QAction" } },
          { stem := "Act2", stmts := [qtw], root := { typeName := "Act" } },
          { stem := "UseLA", stmts := [qtw], root := { typeName := "QWidget" },
            children := [{ typeName := "Lay2", prop := some "spacing" }, { typeName := "Act2", prop := some "text" },
                         { typeName := "Act2", prop := some "windowTitle" }] },
          { stem := "C", stmts := [qtw], root := { typeName := "A" } },
          { stem := "A", stmts := [qtw], root := { typeName := "B" } },
          { stem := "B", stmts := [qtw], root := { typeName := "A" } },
          { stem := "UseC", stmts := [qtw], root := { typeName := "QWidget" },
            children := [{ typeName := "C", prop := some "text" }] } ] },
    { path := ["e"], files := [ { stem := "Mid", stmts := [qtw, .dir ["..", "f"]], root := { typeName := "Low" } } ] },
    { path := ["f"], files := [ { stem := "Low", stmts := [qtw], root := { typeName := "QPushButton" } } ] } ]

private def chainOut (stem : String) : Option Output :=
  match findDir chainTree ["d"] with
  | some d => (d.files.find? (·.stem = stem)).bind (translate chainEnv chainTree (lookOf (populate chainTree [["d"]])) ["d"])
  | none => none

example : dirsOf (populate chainTree [["d"]]) = some [["d"], ["e"], ["f"]] := by decide +kernel
-- `text` is inherited through `Fancy : Base : QPushButton`, `title` is not a property of QPushButton; `Fancy` is listed
-- once and extends its DIRECT super `Base`, which is not instantiated and not listed
example : chainOut "Main" = some
    { built := true, diags := [.unknownProperty "Fancy" "title"],
      widgets := [{ cls := "QDialog", props := [] }, { cls := "Fancy", props := ["text"] }, { cls := "Fancy", props := [] }],
      customs := [{ cls := "Fancy", ext := "Base", header := "fancy.h" }] } := by decide +kernel
-- a component file is a document whose root is the next component of the chain
example : chainOut "Fancy" = some
    { built := true, diags := [], widgets := [{ cls := "Base", props := ["flat"] }],
      customs := [{ cls := "Base", ext := "QPushButton", header := "base.h" }] } := by decide +kernel
-- three links, each in another directory: `Top` is usable (root and child, inherited bindings), `Mid` is not visible
example : chainOut "UseTop" = some
    { built := true, diags := [.unknownObjectType "Mid"],
      widgets := [{ cls := "Top", props := ["windowTitle"] }, { cls := "Top", props := ["flat"] }],
      customs := [{ cls := "Top", ext := "Mid", header := "top.h" }] } := by decide +kernel
-- layout- and action-ended chains are accepted as children (an action is written as a plain `<action>`) and listed;
-- `windowTitle` is no property of QAction
example : chainOut "UseLA" = some
    { built := true, diags := [.unknownProperty "Act2" "windowTitle"],
      widgets := [{ cls := "QWidget", props := [] }, { cls := "Lay2", props := ["spacing"] }, { cls := "QAction", props := ["text"] },
                  { cls := "QAction", props := [] }],
      customs := [{ cls := "Lay2", ext := "Lay", header := "lay2.h" }, { cls := "Act2", ext := "Act", header := "act2.h" }] } := by
  decide +kernel
-- … and refused as the root object of a document
example : (chainOut "Lay2").map (·.diags) = some [.notQWidget "Lay"] := by decide +kernel
example : (chainOut "Act2").map (·.diags) = some [.notQWidget "Act"] := by decide +kernel
-- a chain into a cycle: the walk ends, the instance is no widget and has no properties
example : (chainOut "UseC").map (·.diags) = some [.unknownProperty "C" "text", .notActionLayoutWidget "C"] := by decide +kernel
example : (chainOut "C").map (·.diags) = some [.notQWidget "A"] := by decide +kernel

/-! forms of import statements: `Panel` reaches QFrame through a VERSIONED import of the Qt module only (the layout of
   seeded change C18/5); `Far` reaches `Low` through a versioned string import; `Lost` imports the Qt module under an
   alias only; `Twice` imports everything twice, the own directory explicitly, the Qt module last -/

private def impTree : Tree :=
  [ { path := [], files := [] },
    { path := ["d"], files :=
        [ { stem := "Panel", stmts := [{ what := .named "qmluic.QtWidgets", version := some "6.2" }],
            root := { typeName := "QPushButton" } },
          { stem := "Far", stmts := [qtw, { what := .dir ["..", "f"], version := some "1.0" }], root := { typeName := "Low" } },
          { stem := "Lost", stmts := [{ what := .named "qmluic.QtWidgets", alias := some "W" }], root := { typeName := "QPushButton" } },
          { stem := "Twice", stmts := [.dir ["."], .dir ["..", "f"], qtw, .dir [".", "..", "f", ""], qtw],
            root := { typeName := "Low", prop := some "flat" } },
          { stem := "Main", stmts := [qtw], root := { typeName := "QDialog" },
            children := [{ typeName := "Panel", prop := some "windowTitle" }, { typeName := "Far", prop := some "text" },
                         { typeName := "Twice" }] },
          { stem := "UseLost", stmts := [qtw], root := { typeName := "QDialog" }, children := [{ typeName := "Lost", prop := some "text" }] },
          { stem := "SrcV", stmts := [{ what := .named "qmluic.QtWidgets", version := some "5.15" }, { what := .dir ["..", "f"], version := some "2" }],
            root := { typeName := "QDialog" }, children := [{ typeName := "Low", prop := some "text" }] },
          { stem := "SrcA", stmts := [qtw, { what := .dir ["..", "g"], alias := some "G" }], root := { typeName := "QDialog" } } ] },
    { path := ["f"], files := [ { stem := "Low", stmts := [qtw], root := { typeName := "QPushButton" } } ] },
    { path := ["g"], files := [ { stem := "InG", stmts := [qtw], root := { typeName := "QPushButton" } } ] } ]

private def impOut (stem : String) : Option Output :=
  match findDir impTree ["d"] with
  | some d => (d.files.find? (·.stem = stem)).bind (translate chainEnv impTree (lookOf (populate impTree [["d"]])) ["d"])
  | none => none

-- `g` is imported under an alias only: it is not discovered
example : dirsOf (populate impTree [["d"]]) = some [["d"], ["f"]] := by decide +kernel
example : impOut "Main" = some
    { built := true, diags := [],
      widgets := [{ cls := "QDialog", props := [] }, { cls := "Panel", props := ["windowTitle"] }, { cls := "Far", props := ["text"] },
                  { cls := "Twice", props := [] }],
      customs := [{ cls := "Panel", ext := "QPushButton", header := "panel.h" }, { cls := "Far", ext := "Low", header := "far.h" },
                  { cls := "Twice", ext := "Low", header := "twice.h" }] } := by decide +kernel
example : (impOut "UseLost").map (·.diags) = some
    [.propertyResolutionFailed (.invalidTypeRef "QPushButton"), .notActionLayoutWidget "Lost"] := by decide +kernel
-- a source with versioned imports is accepted with two warnings; one with an aliased import is rejected
example : (impOut "SrcV").map (fun o => (o.accepted, o.diags, o.widgets.map (·.props))) = some
    (true, [.importVersionIgnored, .importVersionIgnored], [[], ["text"]]) := by decide +kernel
example : (impOut "SrcA").map (fun o => (o.accepted, o.diags)) = some (false, [.aliasedImport]) := by decide +kernel
example : (impOut "Lost").map (fun o => (o.accepted, o.diags)) = some (false, [.aliasedImport, .unknownObjectType "QPushButton"]) := by
  decide +kernel
example : (impOut "Twice").map (fun o => (o.accepted, o.widgets)) = some (true, [{ cls := "Low", props := ["flat"] }]) := by decide +kernel

-- the command line: a rejected source between accepted ones; an I/O error ends the run
example : cliRun [("A", .accepted), ("Bad", .rejected), ("B", .accepted)] = (["A", "B"], .diagnosticGenerated) := by decide
example : cliRun [("B", .accepted), ("A", .accepted)] = (["B", "A"], .success) := by decide
example : cliRun [("A", .accepted), ("Io", .fatal), ("B", .accepted)] = (["A"], .otherError) := by decide
example : noFatal [("A", .accepted), ("Bad", .rejected), ("B", .accepted)] := by decide
example : uiFileName "MainDialog" = "maindialog.ui" := by decide +kernel

end Examples

end QV.Props.C18
