/-
  C20 — Preview-mode error recovery is local to the faulty object.

  Model : QV.Model.Passes (`run .omit`: what the preview runs), QV.Model.Layout for the cell cursor.
  Tie   : stream `c20` (documents with one planted fault through the real pipeline in preview mode, compared with
          the fault-free twin outside the faulted object; the counterexamples below are replayed in corpus/C20).
-/
import QV.Proofs.PassesModes
import QV.Model.Layout

namespace QV.Props.C20
open QV.Model.Passes QV.Proofs.Passes

/-- **(a) Preview always yields a form**: when the root object's type resolves and no consumer panics, `omit`
    builds a form — whatever was diagnosed on the way. -/
theorem omit_yields_form (root : Obj) (ch : Forest) (hr : root.resolves = true)
    (hp : (run .omit (.cons root ch .nil)).panic = false) :
    ((run .omit (.cons root ch .nil)).form).isSome = true := by
  have hv : valid (.cons root ch .nil) = true := hr
  rw [run_omit _ hv] at hp ⊢
  simp only at hp
  simp [Result.form, hp]

/-- **(b) An error does not stop the passes**: every diagnostic of every phase (code map construction, constant
    pass, left-over attached check) of every placed object is in the result. -/
theorem errors_not_lost (doc : Forest) : ∀ p ∈ (run .omit doc).objects, ∀ d,
    (d ∈ codeMapDiags p.obj ∨ d ∈ p.formDiags ∨ d ∈ leftoverDiags p) → d ∈ (run .omit doc).diags :=
  run_omit_diags_mem doc

/-- … and so is the diagnostic of every object whose type does not resolve -/
theorem unresolved_objects_reported (root : Obj) (ch : Forest) (hr : root.resolves = true) :
    ∀ d ∈ (place .root (.cons root ch .nil)).2, d ∈ (run .omit (.cons root ch .nil)).diags := by
  intro d hd
  have hv : valid (.cons root ch .nil) = true := hr
  rw [run_omit _ hv]
  exact List.mem_append_left _ (mem_commonDiags_tree _ _ d hd)

/-! ### (b') "every error is still reported", read against generate mode -/

/-- full reading: whatever generate mode reports for a document, preview (omit) mode reports as well -/
def every_error_reported_full_statement : Prop :=
  ∀ doc : Forest, ∀ d ∈ (run .generate doc).diags, d ∈ (run .omit doc).diags

/-- **Every error is still reported** (since the repair of F21, /repo c47e7fb): preview mode builds the support code
    for its diagnostics and discards it, so it reports the errors of every phase — object tree, code maps, constant
    pass, left-over attached check (`errors_not_lost`) *and* the C++ pass (return type of code that is not an evaluated
    constant, missing READ / WRITE of its target, nested dynamic maps). -/
theorem every_error_reported : every_error_reported_full_statement := by
  intro doc d hd
  cases h : valid doc
  · rw [(run_invalid doc h .generate).1] at hd
    exact hd
  · rw [run_generate doc h] at hd
    rw [run_omit doc h]
    exact hd

/-- in fact the two modes report the same diagnostics in the same order -/
theorem omit_diags_eq_generate (doc : Forest) : (run .omit doc).diags = (run .generate doc).diags := by
  cases h : valid doc
  · rw [(run_invalid doc h .generate).1]
  · rw [run_generate doc h, run_omit doc h]

/-- `QWidget { text: srcSpin.value }`-like document: a dynamic binding whose return type does not fit the property.
    Only `UiSupportCode::build` runs `verify_code_return_type` on code that is not an evaluated constant. -/
def dynamicMismatchDoc : Forest :=
  .cons { oid := 0, isWidget := true,
          entries := [.leaf { id := 10, name := "text".toList, const := none, retTypeOk := false }] } .nil .nil

/-- preview mode as it was before c47e7fb: the support code is not built, only the diagnostics of the phases before
    the mode switch are reported -/
def runOmitOld (doc : Forest) : Result :=
  let r := run .omit doc
  if valid doc then { r with diags := commonDiags r.objects (place .root doc).2 } else r

/-- the old behaviour loses the error (finding F21, repaired): generate mode reports the ill-typed dynamic binding,
    the old preview accepts the document silently, the repaired preview reports it -/
theorem runOmitOld_loses_error :
    (run .generate dynamicMismatchDoc).diags = [⟨10, .cxxRetType⟩] ∧
    (runOmitOld dynamicMismatchDoc).diags = [] ∧ (runOmitOld dynamicMismatchDoc).accepted = true ∧
    (run .omit dynamicMismatchDoc).diags = [⟨10, .cxxRetType⟩] ∧ (run .omit dynamicMismatchDoc).accepted = false := by
  and_intros <;> decide

/-! ### (c) planted faults, as edits of the objects with id `n` -/

/-- a binding rejected while the code map is built: unknown property, type error, unsupported expression -/
def plantRejectedLeaf (n : Nat) (l : Leaf) (o : Obj) : Obj :=
  if o.oid = n then { o with entries := o.entries ++ [.leaf { l with enters := false }] } else o
/-- a signal handler rejected while the code map is built -/
def plantRejectedCallback (n : Nat) (c : Callback) (o : Obj) : Obj :=
  if o.oid = n then { o with callbacks := o.callbacks ++ [{ c with enters := false }] } else o
/-- bindings to an attaching type that does not resolve -/
def plantUnknownAttached (n : Nat) (a : AttMap) (o : Obj) : Obj :=
  if o.oid = n then { o with attached := o.attached ++ [{ a with resolves := false }] } else o
/-- one more scalar binding -/
def plantLeaf (n : Nat) (l : Leaf) (o : Obj) : Obj :=
  if o.oid = n then { o with entries := o.entries ++ [.leaf l] } else o
/-- a duplicated property / callback binding: `build_binding_map` fails -/
def setMapFault (n : Nat) (o : Obj) : Obj := if o.oid = n then { o with mapFault := true } else o
def eraseProps (n : Nat) (o : Obj) : Obj := if o.oid = n then { o with entries := [], callbacks := [] } else o
/-- a duplicated attached binding: `build_attached_type_map` fails -/
def setAttFault (n : Nat) (o : Obj) : Obj := if o.oid = n then { o with attFault := true } else o
def eraseAttached (n : Nat) (o : Obj) : Obj := if o.oid = n then { o with attached := [] } else o

/-- **A binding rejected at code-map construction changes nothing anywhere**: it never enters the map
    (`is_action_separator` sees the same map), so the form is that of the document without it. -/
theorem fault_local_rejected_binding (n : Nat) (l : Leaf) (doc : Forest) :
    (run .omit (mapObj (plantRejectedLeaf n l) doc)).form = (run .omit doc).form :=
  form_omit_editAt n _ (fun o => view_entries o _) (fun o => codeMap_rejected_leaf o l) doc

theorem fault_local_rejected_callback (n : Nat) (c : Callback) (doc : Forest) :
    (run .omit (mapObj (plantRejectedCallback n c) doc)).form = (run .omit doc).form :=
  form_omit_editAt n _ (fun o => view_callbacks o _) (fun o => codeMap_rejected_callback o c) doc

theorem fault_local_unknown_attached (n : Nat) (a : AttMap) (doc : Forest) :
    (run .omit (mapObj (plantUnknownAttached n a) doc)).form = (run .omit doc).form :=
  form_omit_editAt n _ (fun o => view_attached o _) (fun o => codeMap_unknown_attached o a) doc

/-- … and it is reported, for every placed object it was planted in (unless that object's whole map was
    dropped for a duplicate, which is reported instead) -/
theorem rejected_binding_reported (n : Nat) (l : Leaf) (doc : Forest) :
    ∀ p ∈ (run .omit (mapObj (plantRejectedLeaf n l) doc)).objects, p.obj.oid = n → p.obj.mapFault = false →
      ⟨l.id, .build⟩ ∈ (run .omit (mapObj (plantRejectedLeaf n l) doc)).diags :=
  edit_diag_reported n _ ⟨l.id, .build⟩ (fun o => o.mapFault = false) doc
    (fun o hm => diags_rejected_leaf o l hm)

theorem rejected_callback_reported (n : Nat) (c : Callback) (doc : Forest) :
    ∀ p ∈ (run .omit (mapObj (plantRejectedCallback n c) doc)).objects, p.obj.oid = n → p.obj.mapFault = false →
      ⟨c.id, .build⟩ ∈ (run .omit (mapObj (plantRejectedCallback n c) doc)).diags :=
  edit_diag_reported n _ ⟨c.id, .build⟩ (fun o => o.mapFault = false) doc
    (fun o hm => diags_rejected_callback o c hm)

theorem unknown_attached_reported (n : Nat) (a : AttMap) (doc : Forest) :
    ∀ p ∈ (run .omit (mapObj (plantUnknownAttached n a) doc)).objects, p.obj.oid = n → p.obj.attFault = false →
      ⟨a.tid, .attachedType⟩ ∈ (run .omit (mapObj (plantUnknownAttached n a) doc)).diags :=
  edit_diag_reported n _ ⟨a.tid, .attachedType⟩ (fun o => o.attFault = false) doc
    (fun o hm => diags_unknown_attached o a hm)

/-- **A constant whose typed conversion fails** (`enabled: "yes"`) enters the map, is diagnosed and embeds nothing.
    Outside actions the form is that of the document without it. -/
theorem fault_local_failing_constant_partial (n : Nat) (l : Leaf) (he : l.enters = true)
    (hf : l.const = some .fail) (doc : Forest) (ha : ∀ o ∈ objs doc, o.oid = n → o.isAction = false) :
    (run .omit (mapObj (plantLeaf n l) doc)).form = (run .omit doc).form :=
  form_omit_plant_fail n l he hf doc ha

/-- the same without the restriction to non-actions -/
def fault_local_full_statement : Prop :=
  ∀ (n : Nat) (l : Leaf) (doc : Forest), l.enters = true → l.const = some .fail →
    (run .omit (mapObj (plantLeaf n l) doc)).form = (run .omit doc).form

/-- `Action { separator: true }` is a separator only while `separator` is the action's *sole* binding: a second
    binding — even one that fails to convert — makes `is_action_separator` false, and `separator` (excluded from the
    ordinary properties) is then consumed by nobody -/
private def sepDoc : Forest :=
  .cons { oid := 0, isWidget := true }
    (.cons { oid := 1, isAction := true
             entries := [.leaf { id := 10, name := "separator".toList, const := some (.ok 1) }] } .nil .nil) .nil

private def failingText : Leaf := { id := 11, name := "text".toList, const := some .fail }

/-- **The unrestricted statement is false** (finding F20): a failing constant planted in a separator action changes
    the fate of the action's *other* binding (`separator`: embedded → dropped): the static separator becomes an action. -/
theorem fault_local_full_refuted : ¬ fault_local_full_statement := by
  intro h
  have := h 1 failingText sepDoc rfl rfl
  revert this
  decide

/-- **A duplicated binding costs the object its own property values, nothing else**: the form is that of the
    document in which the object has no properties and no callbacks. -/
theorem fault_local_duplicate_binding (n : Nat) (doc : Forest) :
    (run .omit (mapObj (setMapFault n) doc)).form = (run .omit (mapObj (eraseProps n) doc)).form :=
  form_omit_editAt₂ n _ _ view_mapFault_erase codeMap_mapFault_erase doc

/-- likewise for a duplicated attached binding, at the level of binding fates (for the cells see
    `duplicate_attached_shifts_sibling_witness`) -/
theorem fault_local_duplicate_attached (n : Nat) (doc : Forest) :
    (run .omit (mapObj (setAttFault n) doc)).form = (run .omit (mapObj (eraseAttached n) doc)).form :=
  form_omit_editAt₂ n _ _ view_attFault_erase codeMap_attFault_erase doc

/-- **An object whose type does not resolve disappears with exactly its subtree.** -/
theorem fault_local_unknown_type (root : Obj) (ch : Forest) (hr : root.resolves = true) :
    (run .omit (.cons root ch .nil)).form = (run .omit (prune (.cons root ch .nil))).form ∧
      (run .omit (.cons root ch .nil)).objects = (run .omit (prune (.cons root ch .nil))).objects :=
  ⟨(run_omit_prune root ch hr).2, (run_omit_prune root ch hr).1⟩

/-! ### (d) the cell cursor -/

open QV.Model.Layout in
/-- Cells are computed from the attached values by a cursor that runs over the siblings.  Losing child `a`'s
    whole attached map — what a duplicated `QLayout.row` does (`setAttFault`) — moves the *sibling* `b` from cell
    (3,1) to (0,1).  This refutes the strict reading "identical outside the faulted object" for the
    duplicate-attached fault (finding F19); the real-code replay is in corpus/C20. -/
theorem duplicate_attached_shifts_sibling_witness :
    let a3 : Attached := { row := some 3 }
    let a0 : Attached := {}
    let b : Attached := {}
    ((processGrid (.leftToRight 2) [a3, b]).2.1.map fun i => (i.row, i.column)) =
        [(some 3, some 0), (some 3, some 1)] ∧
      ((processGrid (.leftToRight 2) [a0, b]).2.1.map fun i => (i.row, i.column)) =
        [(some 0, some 0), (some 0, some 1)] ∧
      ((processGrid (.leftToRight 2) [a3, b]).2.1.map fun i => (i.row, i.column))[1]? ≠
        ((processGrid (.leftToRight 2) [a0, b]).2.1.map fun i => (i.row, i.column))[1]? := by
  decide

/-! ### (e) non-vacuity -/

private def w (n : Nat) (es : List Entry) (ch rest : Forest) : Forest :=
  .cons { oid := n, isWidget := true, entries := es } ch rest

private def base : Forest :=
  w 0 [] (w 1 [.leaf { id := 10, name := "text".toList, const := some (.ok 7) }]
            .nil (w 2 [.leaf { id := 20, name := "enabled".toList, const := some (.ok 1) }] .nil .nil)) .nil

/-- a rejected binding: reported, form unchanged and present -/
example : (run .omit (mapObj (plantRejectedLeaf 1 { id := 11, name := "bogus".toList }) base)).diags
      = [⟨11, .build⟩] ∧
    (run .omit (mapObj (plantRejectedLeaf 1 { id := 11, name := "bogus".toList }) base)).form =
      some [(0, .widget, []), (1, .widget, [(10, 7)]), (2, .widget, [(20, 1)])] := by
  and_intros <;> decide

/-- a failing constant in a widget: reported by the constant pass, the sibling binding and object keep their values -/
example : (run .omit (mapObj (plantLeaf 1 failingText) base)).diags = [⟨11, .convert⟩] ∧
    (run .omit (mapObj (plantLeaf 1 failingText) base)).form = (run .omit base).form := by
  and_intros <;> decide

/-- the separator counterexample, spelled out -/
example : (run .omit sepDoc).form = some [(0, .widget, []), (1, .action, [(10, 1)])] ∧
    (run .omit (mapObj (plantLeaf 1 failingText) sepDoc)).form = some [(0, .widget, []), (1, .action, [])] := by
  and_intros <;> decide

/-- a duplicated binding in object 1: one diagnostic, object 1 loses its values, object 2 keeps them -/
example : (run .omit (mapObj (setMapFault 1) base)).diags = [⟨1, .mapFault⟩] ∧
    (run .omit (mapObj (setMapFault 1) base)).form =
      some [(0, .widget, []), (1, .widget, []), (2, .widget, [(20, 1)])] := by
  and_intros <;> decide

/-- an unknown type: the object vanishes with its subtree, one diagnostic, the sibling stays -/
example :
    (run .omit (w 0 [] (.cons { oid := 1, resolves := false } (w 3 [] .nil .nil)
      (w 2 [.leaf { id := 20, name := "enabled".toList, const := some (.ok 1) }] .nil .nil)) .nil)).diags
      = [⟨1, .objectType⟩] ∧
    (run .omit (w 0 [] (.cons { oid := 1, resolves := false } (w 3 [] .nil .nil)
      (w 2 [.leaf { id := 20, name := "enabled".toList, const := some (.ok 1) }] .nil .nil)) .nil)).form
      = some [(0, .widget, []), (2, .widget, [(20, 1)])] := by
  and_intros <;> decide

end QV.Props.C20
