/-
  C15 — `qmluic generate-ui` writes only where it should, atomically, and only when needed.

  Model : QV.Model.Cli   (src/main.rs generate_ui / generate_ui_file / with_output_file, qtname.rs FileNameRules,
                          qmldir.rs is_qml_file, the std/camino path functions used, create_dir_all,
                          tempfile new_in + persist) — an op trace over the abstract file system
  Spec  : QV.Spec.Fs     (paths = component lists; FS = Path → Option Node; five ops, `rename` atomic;
                          `CrashState` = state after any prefix of the trace or inside a `write`;
                          `specNames`, `specRefused` = what the documentation promises)
  Tie   : harness stream `c15` runs the REAL binary built from /repo's working tree in throw-away directories:
          exit status, strace'd mkdir/open(O_CREAT)/write/fchmod/rename sequence, changed inodes/mtimes and the
          final tree are compared with this model (kind=model), output names with `specNames`/`specRefused`
          (kind=spec); SIGKILL is injected at every state-changing syscall and the surviving tree inspected
          (kind=oracle); after every regenerate step of every history the outputs are compared byte for byte with a
          fresh run, untouched-ness (inode, mtime, mode) and the complete listing inside and outside the output
          directory are checked (kind=oracle `cli-fresh-oracle`).

  Vocabulary used in the statements (definitions in QV.Proofs.Cli / QV.Model.Cli):
    sourceOutputs opts src  the (path, content) pairs generate_ui_file writes for `src` (ui, then header unless
                            --no-dynamic-binding); empty if `src` is not translated
    allOutputs opts srcs    all of them;   execOutputs opts srcs   those of the sources the run gets to (a source ending in
                            diagnostics is skipped; a source that is not loaded ends the run)
    IsTempName n            n = ".tmp" ++ r with no '.' in r     (tempfile's names; assumption on that crate)
    NoCollision J           no path occurs in J with two different contents
    key p                   p without `.` components (identity of a file)

  Added for command lines with several sources and for edit/regenerate histories:
    mixed_sources_refused / accepted_iff_all_safe   one unsafe source in ANY position refuses the whole run (no op)
    existing_file_untouched_unless_changed          a run targets no existing file except outputs whose content changes
    unchanged_outputs_untouched                      … in particular an output that already holds its content
    regenerate_equals_fresh                          from any two file systems the outputs end up equal (= planned)
    rerun_after_kill_completes                       … also from every state a killed run can leave behind

  PARTIAL BY NATURE.  The theorems are about the model over an abstract file system.  That the operating
  system's rename(2) is atomic, that a SIGKILL'ed process leaves exactly the effects of the syscalls it
  completed, durability after power loss, permissions, symlinks and `..` aliasing are assumptions.

  One clause is false of the code as stated and is refuted below (`rerun_noop_refuted`): two sources whose names
  differ only in letter case (`Foo.qml`, `foo.qml`) are both written to `foo.ui`; every run rewrites it.
-/
import QV.Proofs.Cli

namespace QV.Props.C15
open QV.Spec.Fs QV.Model.Cli QV.Proofs.Cli

/-! ## 1. names and places -/

/-- `FileNameRules` produces the documented names: `x.ui` and `uisupport_x.h`, the stem lower-cased (ASCII)
    unless `--no-lowercase-file-name`; lower-casing the whole file name only ever changes the stem. -/
theorem names_documented (o : Options) (stem : Name) :
    (o.rules.typeNameToUiName stem, o.rules.typeNameToUiSupportCxxHeaderName stem)
      = specNames (!o.noLowercaseFileName) stem :=
  names_eq_spec o stem

/-- **paths_correct.**  For every source `dir/STEM.EXT` (EXT = `qml` in any letter case, STEM non-empty, may
    contain dots) that translates, generate_ui_file plans exactly two outputs: the documented ui name and the
    documented header name, in `dir` itself, or in `join outdir dir` when `--output-directory` is given. -/
theorem paths_correct (opts : Options) (dir : Path) (stem ext : Name) (hs : stem ≠ []) (hdot : '.' ∉ ext)
    (hq : ext.map asciiLower = ['q', 'm', 'l']) (ui header : Bytes) :
    let names := specNames (!opts.noLowercaseFileName) stem
    let place : Path → Path := fun p => match opts.outputDirectory with
      | none => p
      | some d => join d p
    planFile opts ⟨dir ++ [.normal (stem ++ '.' :: ext)], .ok ui header⟩ =
      .ok ((key (place (dir ++ [.normal names.1])), ui), (key (place (dir ++ [.normal names.2])), header)) := by
  intro names place
  rw [planFile_qml opts dir stem ext hs hdot hq]
  have hn := names_documented opts stem
  simp only [Prod.ext_iff] at hn
  simp only [outputPaths, withFileName_snoc, hn.1, hn.2, place, names]
  cases opts.outputDirectory <;> rfl

/-- … and the header is among the written outputs iff `--no-dynamic-binding` is absent. -/
theorem outputs_exact (opts : Options) (src : Source) (u h : Path × Bytes) (hp : planFile opts src = .ok (u, h)) :
    sourceOutputs opts src = if opts.noDynamicBinding then [u] else [u, h] := by
  simp only [sourceOutputs, hp]
  cases opts.noDynamicBinding <;> rfl

/-- "next to the source": without `--output-directory` the directory part is the source's. -/
theorem beside_source (dir : Path) (n : Name) : key (dir ++ [.normal n]) = key dir ++ [.normal n] := by
  rw [key_append, key_normal]

/-- "the same relative path inside the output directory": for an accepted source directory part. -/
theorem same_relative_path (d dir : Path) (n : Name) (h : dir.all acceptedComponent = true) :
    key (join d (dir ++ [.normal n])) = key d ++ key dir ++ [.normal n] :=
  place_inside d dir n h

/-! ## 2. refusal and confinement -/

/-- **Exactly which sources are refused**: with `--output-directory`, a run is refused iff some source has a
    `RootDir` or `ParentDir` component — any `..`, escaping or not (`a/../b.qml` is refused too). -/
theorem refusal_exact (opts : Options) (ps : List Path) :
    refuses opts ps = true ↔
      opts.outputDirectory.isSome = true ∧ ∃ p ∈ ps, ∃ c ∈ p, c = Component.rootDir ∨ c = Component.parentDir := by
  simp only [refuses, Bool.and_eq_true, List.any_eq_true, Bool.not_eq_true', List.all_eq_false]
  constructor
  · rintro ⟨h1, p, hp, c, hc, h⟩
    refine ⟨h1, p, hp, c, hc, ?_⟩
    cases c <;> simp [acceptedComponent] at h ⊢
  · rintro ⟨h1, p, hp, c, hc, h⟩
    refine ⟨h1, p, hp, c, hc, ?_⟩
    rcases h with rfl | rfl <;> simp [acceptedComponent]

/-- On path *texts*: the components of `s` are all accepted iff `s` does not start with `/` and none of its
    `/`-separated segments is `..` — the documented rule (`specRefused`). -/
theorem refusal_on_text (s : List Char) : (parsePath s).all acceptedComponent = !specRefused s :=
  parse_accepted s

/-- A refused run performs no operation at all. -/
theorem refused_writes_nothing (opts : Options) (tmp : Nat → Name) (fs : FS) (srcs : List Source)
    (h : refuses opts (srcs.map (·.path)) = true) : generateUi opts tmp fs srcs = ([], .refused) := by
  simp [generateUi, h]

/-- **One unsafe source anywhere refuses the whole command line**: with `--output-directory`, if SOME source — first,
    in the middle or last, whatever the others look like — has a `RootDir` or `ParentDir` component, the run is
    refused and performs no operation at all (so no source, safe or not, gets an output, inside or outside). -/
theorem mixed_sources_refused (opts : Options) (d : Path) (hd : opts.outputDirectory = some d) (tmp : Nat → Name) (fs : FS)
    (pre post : List Source) (bad : Source)
    (hbad : ∃ c ∈ bad.path, c = Component.rootDir ∨ c = Component.parentDir) :
    generateUi opts tmp fs (pre ++ bad :: post) = ([], .refused) := by
  apply refused_writes_nothing
  rw [refusal_exact]
  refine ⟨by simp [hd], bad.path, ?_, hbad⟩
  simp

/-- … and a command line is accepted only if EVERY source is safe. -/
theorem accepted_iff_all_safe (opts : Options) (d : Path) (hd : opts.outputDirectory = some d) (ps : List Path) :
    refuses opts ps = false ↔ ∀ p ∈ ps, p.all acceptedComponent = true := by
  simp [refuses, hd]

/-- **no_escape.**  With `--output-directory d`, whatever the sources, options, temp names and file system:
    every path any operation of the run creates, writes, chmods, renames from or renames to is
    `d` followed by one or more `Normal` components; the only other operations are `mkdir`s of `d` itself and
    its ancestors (prefixes of `d`). -/
theorem no_escape (opts : Options) (d : Path) (hd : opts.outputDirectory = some d) (tmp : Nat → Name) (fs : FS)
    (srcs : List Source) :
    ∀ op ∈ (generateUi opts tmp fs srcs).1, ∀ p ∈ op.targets,
      (∃ rest, p = key d ++ rest ∧ AllNormal rest ∧ rest ≠ []) ∨ ((∃ q, op = .mkdir q) ∧ p <+: key d) := by
  intro op hop
  obtain ⟨href, src, hsrc, x, hx, hfor⟩ := generateUi_ops op hop
  have hacc := refuses_false hd href src.path (List.mem_map_of_mem hsrc)
  obtain ⟨r, e, hr, hne⟩ := plan_inside hd hacc x hx
  rw [e] at hfor
  exact opFor_inside hr hne hfor

/-! ## 3. re-running -/

/-- The clause as the property states it: a second run on unchanged inputs performs no operation. -/
def rerun_noop_full_statement : Prop :=
  ∀ (opts : Options) (tmp tmp' : Nat → Name) (fs : FS) (srcs : List Source), (∀ k, IsTempName (tmp k)) →
    (generateUi opts tmp fs srcs).2 = .ok →
    (generateUi opts tmp' (run fs (generateUi opts tmp fs srcs).1) srcs).1 = []

def witnessTmp (k : Nat) : Name := ['.', 't', 'm', 'p'] ++ List.replicate (k + 1) 'a'

theorem witnessTmp_isTemp (k : Nat) : IsTempName (witnessTmp k) :=
  ⟨_, rfl, by simp⟩

def fooUpper : Source := ⟨[.normal ['F', 'o', 'o', '.', 'q', 'm', 'l']], .ok [1] [2]⟩
def fooLower : Source := ⟨[.normal ['f', 'o', 'o', '.', 'q', 'm', 'l']], .ok [3] [4]⟩

/-- REFUTED (finding, replayed on the real binary by corpus/C15/case_collision.c15.req): `Foo.qml` and
    `foo.qml` both map to `foo.ui` / `uisupport_foo.h`; the second run rewrites both files again. -/
theorem rerun_noop_refuted : ¬ rerun_noop_full_statement := by
  intro h
  have := h {} witnessTmp witnessTmp (fun _ => none) [fooUpper, fooLower] witnessTmp_isTemp (by decide +kernel)
  revert this
  decide +kernel

/-- **rerun_noop (what holds).**  If no two sources are written to the same path with different contents,
    then after any run that did not end in an I/O error (success, or failure because some sources do not
    translate), running again on the resulting file system — same sources, same translation results, any temp
    names — performs NO operation (no mkdir, no temp file, no write, no rename: inode and mtime of every
    output are untouched) and ends with the same status. -/
theorem rerun_noop_partial (opts : Options) (tmp tmp' : Nat → Name) (fs : FS) (srcs : List Source)
    (htmp : ∀ k, IsTempName (tmp k)) (hio : (generateUi opts tmp fs srcs).2.isIo = false)
    (hnc : NoCollision (execOutputs opts srcs)) :
    generateUi opts tmp' (run fs (generateUi opts tmp fs srcs).1) srcs = ([], (generateUi opts tmp fs srcs).2) :=
  generateUi_rerun htmp hio hnc

/-- The outputs of an unchanged source are left alone even when *other* sources changed: a compare-then-write
    whose destination already holds the content is the empty trace. -/
theorem unchanged_output_untouched (fs : FS) (nm : Name) (o : Path) (b : Bytes) (h : fs o = some (.file b)) :
    writeIfChanged fs nm o b = ([], .ok) :=
  writeIfChanged_skip h

/-- **Only when needed, and nothing else** (histories of edit/regenerate steps).  Whatever file system a run
    starts from — outputs of earlier runs, some of them stale, removed, or left over from other sources — an
    existing file `p` is the target of NO operation of the run (no create, write, chmod, rename from or onto it:
    same inode, same mtime) unless the run plans a different content for exactly that path.  In particular:
    an output whose content would not change is untouched even if the other output of the same source, or other
    sources, are rewritten; sources and all unrelated files are untouched. -/
theorem existing_file_untouched_unless_changed (opts : Options) (tmp : Nat → Name) (htmp : ∀ k, IsTempName (tmp k))
    (fs : FS) (srcs : List Source) (hnc : NoCollision (execOutputs opts srcs)) (p : Path) (c : Bytes)
    (hp : fs p = some (.file c)) (hall : ∀ b, (p, b) ∈ execOutputs opts srcs → b = c) :
    ∀ op ∈ (generateUi opts tmp fs srcs).1, p ∉ op.targets :=
  generateUi_avoids htmp hnc hp hall

theorem unchanged_outputs_untouched (opts : Options) (tmp : Nat → Name) (htmp : ∀ k, IsTempName (tmp k))
    (fs : FS) (srcs : List Source) (hnc : NoCollision (execOutputs opts srcs)) (o : Path) (b : Bytes)
    (ho : (o, b) ∈ execOutputs opts srcs) (h : fs o = some (.file b)) :
    ∀ op ∈ (generateUi opts tmp fs srcs).1, o ∉ op.targets :=
  generateUi_avoids htmp hnc h (fun b' hb' => hnc o b' b hb' ho)

/-! ## 4. kill points -/

/-- **crash_atomic.**  Kill the run at any moment (after any prefix of its trace, or inside a `write`): compared
    with the file system `fs` it started from, a path `p` of the surviving state `s`
    1. is untouched, or
    2. holds the COMPLETE content the run was to write at exactly that path, or
    3. is a temp file (a `.tmp…` name) in the directory of one of the outputs, or
    4. is a directory created, where nothing existed, on the way down to one of the outputs.
    No hypothesis on the sources, the options or the initial file system. -/
theorem crash_atomic (opts : Options) (tmp : Nat → Name) (htmp : ∀ k, IsTempName (tmp k)) (fs : FS)
    (srcs : List Source) (s : FS) (h : CrashState fs (generateUi opts tmp fs srcs).1 s) :
    ∀ p, s p = fs p
      ∨ (∃ b, (p, b) ∈ allOutputs opts srcs ∧ s p = some (.file b))
      ∨ (∃ o b nm, (o, b) ∈ allOutputs opts srcs ∧ IsTempName nm ∧ p = o.dropLast ++ [.normal nm])
      ∨ (fs p = none ∧ s p = some .dir ∧ ∃ o b, (o, b) ∈ allOutputs opts srcs ∧ p ∈ prefixes o.dropLast) :=
  generateUi_crash htmp h

/-- every prefix of the trace is such a kill point (so is the completed run) -/
theorem prefix_is_crash_state (fs : FS) (pre t : List Op) (h : pre <+: t) : CrashState fs t (run fs pre) :=
  crash_of_prefix h fs

/-- **Old or new, nothing in between**: an output path that existed as a file before the run holds, at every
    kill point, its complete old content or the complete new content of a source mapped to it. -/
theorem output_old_or_new (opts : Options) (tmp : Nat → Name) (htmp : ∀ k, IsTempName (tmp k)) (fs : FS)
    (srcs : List Source) (s : FS) (h : CrashState fs (generateUi opts tmp fs srcs).1 s)
    (o : Path) (b : Bytes) (ho : (o, b) ∈ allOutputs opts srcs) (old : Bytes) (hold : fs o = some (.file old)) :
    s o = some (.file old) ∨ ∃ b', (o, b') ∈ allOutputs opts srcs ∧ s o = some (.file b') := by
  -- the last component of an output path is never a temp name
  have hlast : ∃ base n, o = base ++ [.normal n] ∧ ¬ IsTempName n := by
    simp only [allOutputs, List.mem_flatMap] at ho
    obtain ⟨src, _, hx⟩ := ho
    unfold sourceOutputs at hx
    cases hp : planFile opts src with
    | error st => simp [hp] at hx
    | ok uh =>
      obtain ⟨u, hh⟩ := uh
      obtain ⟨l1, l2⟩ := plan_last hp
      simp only [hp] at hx
      rcases List.mem_cons.mp hx with e | hx
      · have : o = u.1 := by rw [← e]
        rw [this]; exact l1
      · split at hx
        · cases hx
        · simp at hx
          have : o = hh.1 := by rw [← hx]
          rw [this]; exact l2
  rcases crash_atomic opts tmp htmp fs srcs s h o with e | ⟨b', h1, h2⟩ | ⟨o', b', nm, _, hnm, e⟩ | ⟨e, _⟩
  · exact .inl (e.trans hold)
  · exact .inr ⟨b', h1, h2⟩
  · exfalso
    obtain ⟨base, n, e1, hn⟩ := hlast
    rw [e1] at e
    have := List.append_inj_right' e (by simp)
    simp at this
    exact hn (this ▸ hnm)
  · rw [hold] at e; cases e

/-- After a run that completed without I/O error no temp file is left: the final state differs from the
    initial one only at output paths (complete content) and created directories.  (A run that fails in
    `persist` DOES leave its temp file behind — the model mirrors that, see `withOutputFile`.) -/
theorem output_written (opts : Options) (tmp : Nat → Name) (htmp : ∀ k, IsTempName (tmp k)) (fs : FS)
    (srcs : List Source) (hio : (generateUi opts tmp fs srcs).2.isIo = false)
    (hnc : NoCollision (execOutputs opts srcs)) (href : refuses opts (srcs.map (·.path)) = false)
    (hrd : (srcs.any fun s => isUnreadable s.outcome) = false) :
    ∀ x ∈ execOutputs opts srcs, run fs (generateUi opts tmp fs srcs).1 x.1 = some (.file x.2) := by
  unfold generateUi at hio ⊢
  simp only [href, hrd, Bool.false_eq_true, if_false] at hio ⊢
  exact (loop_rerun_establish htmp srcs fs 0 false hio hnc).1

/-- **Every regenerate step converges to the fresh result.**  Start the same command from ANY two file systems
    (`fs`: whatever earlier edits, runs, removals, stale files or a killed run left behind; `fs0`: e.g. the empty
    directory of a fresh checkout): if neither run ends in an I/O error, every output path of every translated
    source holds the same content afterwards — the planned one.  So a removed output is re-created, a stale one
    is replaced, and the support header follows an edit that leaves the `.ui` unchanged. -/
theorem regenerate_equals_fresh (opts : Options) (tmp tmp0 : Nat → Name) (htmp : ∀ k, IsTempName (tmp k))
    (htmp0 : ∀ k, IsTempName (tmp0 k)) (fs fs0 : FS) (srcs : List Source)
    (hio : (generateUi opts tmp fs srcs).2.isIo = false) (hio0 : (generateUi opts tmp0 fs0 srcs).2.isIo = false)
    (hnc : NoCollision (execOutputs opts srcs)) (href : refuses opts (srcs.map (·.path)) = false)
    (hrd : (srcs.any fun s => isUnreadable s.outcome) = false) :
    ∀ x ∈ execOutputs opts srcs,
      run fs (generateUi opts tmp fs srcs).1 x.1 = some (.file x.2) ∧
      run fs (generateUi opts tmp fs srcs).1 x.1 = run fs0 (generateUi opts tmp0 fs0 srcs).1 x.1 := by
  intro x hx
  have h1 := output_written opts tmp htmp fs srcs hio hnc href hrd x hx
  have h2 := output_written opts tmp0 htmp0 fs0 srcs hio0 hnc href hrd x hx
  exact ⟨h1, h1.trans h2.symm⟩

/-- **Recovery after a kill**: run the command again from any state a killed run can leave behind
    (`CrashState`); if that second run meets no I/O error, every output holds its complete planned content. -/
theorem rerun_after_kill_completes (opts : Options) (tmp tmp' : Nat → Name) (htmp' : ∀ k, IsTempName (tmp' k))
    (fs s : FS) (srcs : List Source) (_hs : CrashState fs (generateUi opts tmp fs srcs).1 s)
    (hio : (generateUi opts tmp' s srcs).2.isIo = false) (hnc : NoCollision (execOutputs opts srcs))
    (href : refuses opts (srcs.map (·.path)) = false) (hrd : (srcs.any fun s => isUnreadable s.outcome) = false) :
    ∀ x ∈ execOutputs opts srcs, run s (generateUi opts tmp' s srcs).1 x.1 = some (.file x.2) :=
  output_written opts tmp' htmp' s srcs hio hnc href hrd

/-! ## non-vacuity: concrete runs of the model (path texts are spelled as character lists so that the
    kernel evaluates them directly) -/

def ex_tmp := witnessTmp
def ex_src : Source := ⟨parsePath ['s', 'u', 'b', '/', 'D', 'e', 'e', 'p', '/', 'M', 'y', 'D', 'l', 'g', '.', 'q', 'm', 'l'], .ok [10, 11] [20]⟩
def ex_opts : Options := { outputDirectory := some (parsePath ['o', 'u', 't']) }

/-- a first run creates out, out/sub, out/sub/Deep and both files through temp + rename; exit ok -/
example : (generateUi ex_opts ex_tmp (fun _ => none) [ex_src]).2 = .ok
    ∧ ((generateUi ex_opts ex_tmp (fun _ => none) [ex_src]).1.length = 11) := by decide +kernel

/-- the planned paths are the documented ones -/
example : sourceOutputs ex_opts ex_src =
    [(parsePath ['o', 'u', 't', '/', 's', 'u', 'b', '/', 'D', 'e', 'e', 'p', '/', 'm', 'y', 'd', 'l', 'g', '.', 'u', 'i'], [10, 11]), (parsePath ['o', 'u', 't', '/', 's', 'u', 'b', '/', 'D', 'e', 'e', 'p', '/', 'u', 'i', 's', 'u', 'p', 'p', 'o', 'r', 't', '_', 'm', 'y', 'd', 'l', 'g', '.', 'h'], [20])] := by
  decide +kernel

/-- the second run is empty (hypotheses of `rerun_noop_partial` are satisfiable and its conclusion is not trivial) -/
example : generateUi ex_opts ex_tmp (run (fun _ => none) (generateUi ex_opts ex_tmp (fun _ => none) [ex_src]).1) [ex_src]
    = ([], .ok) := by decide +kernel

/-- boundary cases of the refusal rule, on path texts:
    a/../b.qml  ./x.qml  /abs/x.qml  sub/../../x.qml  sub/./y.qml  sub//y.qml  ..qml  x..qml  ../x.qml  (empty) -/
example : ([['a', '/', '.', '.', '/', 'b', '.', 'q', 'm', 'l'],
    ['.', '/', 'x', '.', 'q', 'm', 'l'],
    ['/', 'a', 'b', 's', '/', 'x', '.', 'q', 'm', 'l'],
    ['s', 'u', 'b', '/', '.', '.', '/', '.', '.', '/', 'x', '.', 'q', 'm', 'l'],
    ['s', 'u', 'b', '/', '.', '/', 'y', '.', 'q', 'm', 'l'],
    ['s', 'u', 'b', '/', '/', 'y', '.', 'q', 'm', 'l'],
    ['.', '.', 'q', 'm', 'l'],
    ['x', '.', '.', 'q', 'm', 'l'],
    ['.', '.', '/', 'x', '.', 'q', 'm', 'l'],
    []].map specRefused)
    = [true, false, true, true, false, false, false, false, true, false] := by decide +kernel
example : parsePath ['.', '/', 's', 'u', 'b', '/', '/', 'a', '/', '.', '/', 'Z', '.', 'W', '.', 'q', 'm', 'l']
    = [.curDir, .normal ['s', 'u', 'b'], .normal ['a'], .normal ['Z', '.', 'W', '.', 'q', 'm', 'l']] := by decide +kernel
example : refuses ex_opts [parsePath ['a', '/', '.', '.', '/', 'b', '.', 'q', 'm', 'l']] = true ∧ refuses {} [parsePath ['a', '/', '.', '.', '/', 'b', '.', 'q', 'm', 'l']] = false := by
  decide +kernel

/-- `--no-lowercase-file-name` and `--no-dynamic-binding` -/
example : sourceOutputs { noLowercaseFileName := true, noDynamicBinding := true } ⟨parsePath ['.', '/', 'U', 'p', '.', 'Q', 'M', 'L'], .ok [1] [2]⟩
    = [(parsePath ['U', 'p', '.', 'u', 'i'], [1])] := by decide +kernel

/-- an I/O failure: the ui path is a directory → temp file created, written, never renamed, status ioPersist -/
example : generateUi {} ex_tmp (fun p => if p = parsePath ['x', '.', 'u', 'i'] then some .dir else none)
      [⟨parsePath ['X', '.', 'q', 'm', 'l'], .ok [1] [2]⟩]
    = ([.createTemp (parsePath ['.', 't', 'm', 'p', 'a']), .write (parsePath ['.', 't', 'm', 'p', 'a']) [1], .chmod (parsePath ['.', 't', 'm', 'p', 'a'])],
       .ioPersist) := by decide +kernel

/-- mixed command line `-O out Good.qml ../Evil.qml` (either order) and `Good.qml /abs/Evil.qml`: refused, no op -/
def ex_good : Source := ⟨parsePath ['G', 'o', 'o', 'd', '.', 'q', 'm', 'l'], .ok [1] [2]⟩
def ex_evil : Source := ⟨parsePath ['.', '.', '/', 'E', 'v', 'i', 'l', '.', 'q', 'm', 'l'], .ok [3] [4]⟩
def ex_abs : Source := ⟨parsePath ['/', 't', '/', 'E', 'v', 'i', 'l', '.', 'q', 'm', 'l'], .ok [3] [4]⟩
example : generateUi ex_opts ex_tmp (fun _ => none) [ex_good, ex_evil] = ([], .refused)
    ∧ generateUi ex_opts ex_tmp (fun _ => none) [ex_evil, ex_good] = ([], .refused)
    ∧ generateUi ex_opts ex_tmp (fun _ => none) [ex_good, ex_abs, ex_good] = ([], .refused)
    ∧ (generateUi ex_opts ex_tmp (fun _ => none) [ex_good]).2 = .ok := by decide +kernel

/-- edit only the binding expression (ui bytes the same, header bytes differ): the second run rewrites the header
    (4 ops on `uisupport_x.h` and its temp file) and performs no op on `x.ui`; a removed header is re-created -/
def ex_x1 : Source := ⟨parsePath ['X', '.', 'q', 'm', 'l'], .ok [1] [2]⟩
def ex_x2 : Source := ⟨parsePath ['X', '.', 'q', 'm', 'l'], .ok [1] [3]⟩
def ex_xui : Path := parsePath ['x', '.', 'u', 'i']
def ex_xh : Path := parsePath ['u', 'i', 's', 'u', 'p', 'p', 'o', 'r', 't', '_', 'x', '.', 'h']
def ex_after1 : FS := run (fun _ => none) (generateUi {} ex_tmp (fun _ => none) [ex_x1]).1
example : (generateUi {} ex_tmp ex_after1 [ex_x2]).1.length = 4
    ∧ (∀ op ∈ (generateUi {} ex_tmp ex_after1 [ex_x2]).1, ex_xui ∉ op.targets)
    ∧ run ex_after1 (generateUi {} ex_tmp ex_after1 [ex_x2]).1 ex_xh = some (.file [3])
    ∧ run ex_after1 (generateUi {} ex_tmp ex_after1 [ex_x2]).1 ex_xui = some (.file [1]) := by decide +kernel
example : run (ex_after1.set ex_xh none) (generateUi {} ex_tmp (ex_after1.set ex_xh none) [ex_x1]).1 ex_xh = some (.file [2]) := by
  decide +kernel

end QV.Props.C15
