/-
  C07 — Totality: any document yields output or diagnostics, never a crash or hang.

  PARTIAL BY NATURE.  A proof can carry the part of the property that is logic of qmluic itself:
    (i)   the value-shape contract between the type check and the `unwrap_*`/`panic!` sites of
          uigen/expr.rs + tir/interpret.rs  (`unwrap_never_fails`, `evaluated_shape`, `property_never_panics_partial`);
    (ii)  how diagnostic byte ranges are formed (`ranges_in_bounds`, `callback_span_valid`);
    (iii) termination of the modelled functions: every definition of QV.Model.Totality is structurally
          recursive, except the interpreter loop `runFrom`, which recurses on the shrinking list of unvisited
          blocks — Lean's acceptance of the definitions *is* the termination proof for the modelled core.
  It cannot carry: the tree-sitter parser and its error-recovery tree shapes, the CST→AST adapters of
  lib/src/qmlast (tested by the `c07` stream: generated documents, token-level mutations, truncations, stray
  multi-byte characters, token soup, semantic stress; all three modes; real CLI exit status), stack depth on
  deeply nested input (finding F11 — a total Lean function cannot exhibit stack exhaustion) and allocation
  failure.  Every other panic site of lib/src is listed with its argument in pins/C07_panic_sites.md
  (regenerated and compared on every run by tools/panic_sites.py).

  Model : QV.Model.Totality (import-free).  `wfCode` states what the interpreter relies on from the TIR builder
          (indices in range, `Copy` only between assignable types, `MakeList`/`|`/`qsTr` typed as the builder types
          them); that the builder establishes it is C05/C06's subject and is exercised here by the c07 stream.
  Obligations of C07 discharged elsewhere and re-exported below:
          QV.Props.C10.ensure_never_panics  (`expect("unused id must be found within N+1 tries")`),
          QV.Props.C11.build_total          (the index-driven rebuild of the form never gets stuck).
  Findings (each replayed on the real code, corpus/C07/*.c07.req):
          F2  `expect("object ref must be valid")` fires for `QMenu { actions: [menuAction()] }` without id;
          F18 `unreachable!()` in the interpreter fired for `windowTitle: { switch (0) { default: break; } let z = 1 }`
              (same root cause as F1/C06; closed by the F1 repair d950e95 in /repo: the builder no longer marks a
              non-empty block `Unreachable`; the witness below shows that `wfCode` alone does not exclude it);
          F17 `assert_eq!(case_conditions.len(), case_body_start_refs.len())` fired for an empty `switch (0) {}`
              (builder code, outside this model; found independently by the C06 check, repaired in /repo ae9e12f;
              still replayed by the c07 stream: stress case `switch-empty`);
          F11 stack exhaustion on deep nesting (outside any model).
-/
import QV.Proofs.Totality
import QV.Props.C10
import QV.Props.C11

namespace QV.Props.C07
open QV.Model.Totality QV.Proofs.Totality

/-! ## (i) the value-shape contract

`ShapeOf` is `QV.Proofs.Totality.hasShape`:
  int / uint / untyped integer constant → `Integer`;  double → `Float`;  bool → `Bool`;
  QString / untyped string constant → `String`;  enum → `EnumSet`;  pointer to class → `ObjectRef`
  (a constant `null` evaluates to *no value* — `to_evaluated_value` returns `None` — so `buddy: null` never reaches
  `unwrap_object_ref`);  list of QString → `StringList`;  list of pointers → `ObjectRefList`;  the empty array `[]`
  → `EmptyList`, which is also the shape of every concrete list type (`unwrap_string_list` and
  `into_object_ref_list` both accept it, so `model: []` and `actions: []` are fine). -/

theorem ite_ne {α : Type} {c : Prop} [Decidable c] {a b : Except Site α} {s : Site}
    (ha : c → a ≠ .error s) (hb : b ≠ .error s) : (if c then a else b) ≠ .error s := by
  intro h
  split at h
  · exact ha ‹_› h
  · exact hb h

theorem map_ne {α β : Type} {x : Except Site α} {f : α → β} {s : Site} (hx : x ≠ .error s) :
    x.map f ≠ .error s := by
  cases x <;> simp_all [Except.map]

/-- **unwrap_never_fails**: whatever the property type is, if the evaluated value has the shape of the code's
    return type, `SerializableValue::build` takes no `unwrap_*`/`panic!` branch: the `verify_code_return_type`
    / `is_assignable` test in front of each unwrap admits only return types whose values the unwrap accepts
    (a QKeySequence property given an enum of another type, `cursor: 1`, `icon.name: 1`, … end in a diagnostic). -/
theorem unwrap_never_fails (env : Env) (ty : TypeKind) (ret : Option TypeDesc) (v : EvaluatedValue)
    (hs : ∀ rt, ret = some rt → hasShape v rt = true) (s : Site) :
    buildExpr env ty ret v ≠ .error s := by
  -- the one fact used everywhere: a passed check ⇒ the value has the shape of the *expected* type
  have key : ∀ e, verifyCodeReturnType env e ret = true → hasShape v (.concrete e) = true := by
    intro e h
    cases ret with
    | none => simp [verifyCodeReturnType] at h
    | some rt => exact assignable_shape env h (hs rt rfl)
  have hObj : ∀ c, verifyCodeReturnType env (.ptr c) ret = true → unwrapObjectRef v ≠ .error s := by
    intro c h; obtain ⟨x, rfl⟩ := shape_ptr (key _ h); simp [unwrapObjectRef]
  have hEnum : ∀ e, verifyCodeReturnType env (.enum e) ret = true → unwrapEnumSet v ≠ .error s := by
    intro e h; obtain ⟨x, rfl⟩ := shape_enum (key _ h); simp [unwrapEnumSet]
  have hSimple : ∀ p, (p = Prim.bool ∨ p = Prim.int ∨ p = Prim.uint ∨ p = Prim.double ∨ p = Prim.qstring) →
      verifyCodeReturnType env (.prim p) ret = true → unwrapIntoSimpleValue v ≠ .error s := by
    intro p hp h; obtain ⟨sv, hsv⟩ := shape_simple hp (key _ h); simp [hsv]
  have hStr : verifyCodeReturnType env (.prim .qstring) ret = true → extractStaticString v ≠ .error s := by
    intro h; obtain ⟨x, k, rfl⟩ := shape_qstring (key _ h)
    cases k <;> simp [extractStaticString, unwrapString]
  have hList : verifyCodeReturnType env (.list (.prim .qstring)) ret = true → extractStringList v ≠ .error s := by
    intro h
    rcases shape_string_list (key _ h) with ⟨xs, rfl⟩ | rfl
    · simp only [extractStringList, unwrapStringList]; exact ite_ne (fun _ => by simp) (by simp)
    · simp [extractStringList, unwrapStringList]
  have hok : ∀ {α : Type} (x : Option α), (Except.ok x : Except Site (Option α)) ≠ .error s := by
    intro α x h; cases h
  cases ty with
  | ptr c => exact ite_ne (fun h => map_ne (hObj c h)) (hok _)
  | list t =>
    simp only [buildExpr]
    refine ite_ne (fun ht => ?_) (hok _)
    subst ht
    exact ite_ne hList (hok _)
  | ptrOther => exact hok _
  | other => exact hok _
  | enum e => exact ite_ne (fun h => map_ne (hEnum e h)) (hok _)
  | prim p =>
    cases p
    case void => exact hok _
    case variant => exact hok _
    all_goals exact ite_ne (fun h => map_ne (hSimple _ (by simp) h)) (hok _)
  | gadget c =>
    simp only [buildExpr, parseAsValueType, parseColorValue]
    refine ite_ne (fun _ => map_ne (ite_ne hStr (hok _))) ?_
    refine ite_ne (fun _ => map_ne (ite_ne hStr (hok _))) ?_
    refine ite_ne (fun _ => ite_ne (fun h => map_ne (hEnum _ h)) (hok _)) ?_
    refine ite_ne (fun _ => ?_) ?_
    · -- key sequence: enum StandardKey | QString
      cases ret with
      | none => exact hok _
      | some rt =>
        simp only
        refine ite_ne (fun h => map_ne (hEnum _ (by simpa [verifyCodeReturnType] using h))) ?_
        exact ite_ne (fun h => map_ne (hSimple .qstring (by simp) (by simpa [verifyCodeReturnType] using h))) (hok _)
    · refine ite_ne (fun _ => ite_ne (fun h => map_ne (hStr h)) (hok _)) (hok _)

/-- `build_item_model` (`model:` of a combo box / list widget): same contract; `model: []` is accepted. -/
theorem item_model_never_fails (env : Env) (ret : Option TypeDesc) (v : EvaluatedValue)
    (hs : ∀ rt, ret = some rt → hasShape v rt = true) (s : Site) : buildItemModel env ret v ≠ .error s := by
  refine ite_ne (fun h => map_ne ?_) (by intro h; cases h)
  cases ret with
  | none => simp [verifyCodeReturnType] at h
  | some rt =>
    rcases shape_string_list (assignable_shape env h (hs rt rfl)) with ⟨xs, rfl⟩ | rfl <;> simp [unwrapStringList]

/-- `build_object_ref_list` (`actions:`) has no panicking branch at all -/
theorem object_ref_list_total (env : Env) (ty : TypeKind) (ret : Option TypeDesc) (v : EvaluatedValue) (s : Site) :
    buildObjectRefList env ty ret v ≠ .error s := by
  refine ite_ne (fun _ => ?_) (by intro h; cases h)
  cases v <;> simp

/-- **evaluated_shape**: on code with the builder's post-conditions, a value the interpreter produces has the
    shape of the code's resolved return type (the return type is an upper bound, w.r.t. `deduce_type`, of the
    types of all `return` operands; the value comes from one of them). -/
theorem evaluated_shape (env : Env) (code : Code) (hw : wfCode env code = true) (v : EvaluatedValue)
    (hev : evaluateCode code = .ok (some v)) (rt : TypeDesc) (hr : resolveReturnType env code = some rt) :
    hasShape v rt = true := by
  obtain ⟨a, ha, hs⟩ := (evaluate_ok env code hw).2 v hev
  exact resolve_shape env hr ha hs

/-- On builder-well-formed code the interpreter has exactly one panic left: `unreachable!()`, and only if some
    block carries the `Unreachable` terminator (every index panic is excluded). -/
theorem interp_panics_only_unreachable (env : Env) (code : Code) (hw : wfCode env code = true) (s : Site)
    (h : evaluateCode code = .error s) :
    s = .interpUnreachable ∧ ∃ b, b ∈ code.blocks ∧ b.term = some .unreachable :=
  (evaluate_ok env code hw).1 s h

/-- Full statement for the constant path of one property binding: no panic, for every well-formed code. -/
def property_never_panics_full_statement : Prop :=
  ∀ (env : Env) (ty : TypeKind) (code : Code), wfCode env code = true → ∀ s, buildProperty env ty code ≠ .error s

/-- the IR of `windowTitle: { switch (0) { default: break; } let z = 1 }` as the builder produces it:
    b0 head `br 2`; b1 exit `br 4`; b2 default body `br 1` (break); b3 dead block after the break `br 4`;
    b4 `z = 1; unreachable` — `finalize_completion_values` marks b4 `Unreachable` because it is entered through
    `br` only (`reachable[]` is seeded with block 0 and `BrCond` targets), although it is not empty. -/
def f18Witness : Code :=
  { blocks := [⟨[], some (.br 2)⟩, ⟨[], some (.br 4)⟩, ⟨[], some (.br 1)⟩, ⟨[], some (.br 4)⟩,
               ⟨[.assign 0 (.copy (.const (.integer 1)))], some .unreachable⟩],
    locals := [.prim .int] }

def trivialEnv : Env :=
  { derives := fun _ _ => false, enumCompat := fun _ _ => false, isFlag := fun _ => false,
    brush := 0, color := 1, cursor := 2, keySequence := 3, pixmap := 4, cursorShape := 0, standardKey := 1 }

theorem f18_witness_wf : wfCode trivialEnv f18Witness = true := by decide

theorem f18_witness_panics : evaluateCode f18Witness = .error .interpUnreachable := by
  simp [evaluateCode, f18Witness, runFrom, evalStmts, evalRvalue, toEvaluatedValue, Except.map, List.range,
    List.range.loop]

/-- **Refuted**: `wfCode` alone does not exclude `unreachable!()` (finding F18 — before the F1 repair d950e95 the
    builder really produced this IR; replay/regression: corpus/C07/f18_unreachable.c07.req). -/
theorem property_never_panics_refuted : ¬ property_never_panics_full_statement := by
  intro h
  have := h trivialEnv (.prim .qstring) f18Witness f18_witness_wf .interpUnreachable
  simp [buildProperty, f18_witness_panics] at this

/-- **What does hold**: if no block carries the `Unreachable` terminator (C06's `no_reachable_unreachable`
    would give the weaker, sufficient "none is reachable through `br`"), evaluating and building a property value
    never panics: no index panic in the interpreter, and no `unwrap_*` after the return-type check. -/
theorem property_never_panics_partial (env : Env) (ty : TypeKind) (code : Code) (hw : wfCode env code = true)
    (hu : ∀ b, b ∈ code.blocks → b.term ≠ some .unreachable) (s : Site) :
    buildProperty env ty code ≠ .error s := by
  unfold buildProperty
  cases hev : evaluateCode code with
  | error s' =>
    obtain ⟨_, b, hb, ht⟩ := interp_panics_only_unreachable env code hw s' hev
    exact absurd ht (hu b hb)
  | ok o =>
    cases o with
    | none => simp
    | some v =>
      simp only
      apply unwrap_never_fails
      intro rt hrt
      exact evaluated_shape env code hw v hev rt hrt

/-! ### `expect("object ref must be valid")` (uigen/object.rs) — finding F2 -/

def object_ref_valid_full_statement : Prop :=
  ∀ (ids refs : List String), widgetActions ids refs ≠ .error .objectRefMustBeValid

/-- **Refuted** (finding F2): the evaluated reference of `menuAction()` on an object without id is the object's
    generated name, which is not an id.  Replay: corpus/C07/f2_menuaction_noid.c07.req. -/
theorem object_ref_valid_refuted : ¬ object_ref_valid_full_statement := by
  intro h; exact h [] ["menu"] rfl

/-- what does hold: references that are ids never panic … -/
theorem object_ref_valid_partial (ids refs : List String) (h : ∀ r, r ∈ refs → r ∈ ids) (s : Site) :
    widgetActions ids refs ≠ .error s := by
  unfold widgetActions
  have : refs.all (ids.contains ·) = true := by
    simp only [List.all_eq_true, List.contains_iff_mem]
    exact fun r hr => by simpa using h r hr
  rw [if_pos this]
  intro h'; cases h' 

/-- … and after the proposed repair (.work/C07.fix-1.diff) the lookup is total. -/
theorem object_ref_valid_repaired (ids refs : List String) (s : Site) : widgetActionsRepaired ids refs ≠ .error s := by
  simp [widgetActionsRepaired]

/-! ## (ii) diagnostic ranges -/

/-- **ranges_in_bounds**: every range the code forms from node ranges — a node range itself, the zero-length
    `end..end`, the literal `0..0`, or a span from the start of one node to the end of another that does not
    precede it — lies inside the text if the node ranges do; and its end points are end points of node ranges
    (or 0), hence on character boundaries whenever the parser's node boundaries are. -/
theorem ranges_in_bounds (len : Nat) (e : RangeExpr) (hparts : ∀ r, r ∈ e.parts → r.valid len)
    (hspan : ∀ a b, e = .span a b → a.start ≤ b.stop) :
    e.eval.valid len ∧
    (e.eval.start = 0 ∨ ∃ r, r ∈ e.parts ∧ (e.eval.start = r.start ∨ e.eval.start = r.stop)) ∧
    (e.eval.stop = 0 ∨ ∃ r, r ∈ e.parts ∧ (e.eval.stop = r.start ∨ e.eval.stop = r.stop)) := by
  cases e with
  | node r =>
    have := hparts r (by simp [RangeExpr.parts])
    exact ⟨this, Or.inr ⟨r, by simp [RangeExpr.parts], Or.inl rfl⟩, Or.inr ⟨r, by simp [RangeExpr.parts], Or.inr rfl⟩⟩
  | endPoint r =>
    have := hparts r (by simp [RangeExpr.parts])
    refine ⟨⟨Nat.le_refl _, this.2⟩, Or.inr ⟨r, by simp [RangeExpr.parts], Or.inr rfl⟩,
      Or.inr ⟨r, by simp [RangeExpr.parts], Or.inr rfl⟩⟩
  | span a b =>
    have hb := hparts b (by simp [RangeExpr.parts])
    refine ⟨⟨hspan a b rfl, hb.2⟩, Or.inr ⟨a, by simp [RangeExpr.parts], Or.inl rfl⟩,
      Or.inr ⟨b, by simp [RangeExpr.parts], Or.inr rfl⟩⟩
  | zero => exact ⟨⟨Nat.le_refl _, Nat.zero_le _⟩, Or.inl rfl, Or.inl rfl⟩

/-- **callback_span_valid** (`verify_callback_parameter_type`, "too many callback arguments"): inside the guard
    `parameter_count > arguments_len`, with `parameter_count ≤ locals.len()` and the parameters' ranges in source
    order, both indexings succeed and the span `locals[arguments_len].start .. locals[parameter_count-1].end`
    lies inside the text. -/
theorem callback_span_valid (len : Nat) (params : List Rng) (argumentsLen parameterCount : Nat)
    (hguard : argumentsLen < parameterCount) (hcount : parameterCount ≤ params.length)
    (hvalid : ∀ r, r ∈ params → r.valid len) (hord : ordered params) :
    ∃ e, callbackSpan params argumentsLen parameterCount = some e ∧ e.eval.valid len := by
  have h1 : argumentsLen < params.length := by omega
  have h2 : parameterCount - 1 < params.length := by omega
  refine ⟨.span params[argumentsLen] params[parameterCount - 1], ?_, ?_⟩
  · simp [callbackSpan, List.getElem?_eq_getElem h1, List.getElem?_eq_getElem h2]
  · have hle := ordered_le params hord (fun r hr => (hvalid r hr).1) argumentsLen (parameterCount - 1)
      params[argumentsLen] params[parameterCount - 1] (List.getElem?_eq_getElem h1) (List.getElem?_eq_getElem h2)
      (by omega)
    exact ⟨hle, (hvalid _ (List.getElem_mem h2)).2⟩

/-! ## obligations discharged in other property files -/

/-- the unique-name search (`expect("unused id must be found within N+1 tries")`) never fails — C10 -/
theorem name_search_never_panics (nodes : List (Option QV.Model.Names.Str × QV.Model.Names.Str)) :
    QV.Model.Names.ensureObjectNames nodes ≠ none := QV.Props.C10.ensure_never_panics nodes

/-- the index-driven rebuild of the form from the flattened object tree never gets stuck — C11 -/
theorem form_rebuild_total (info : QV.Model.FormTree.Info) (ch : QV.Model.FormTree.Forest) (fuel : Nat)
    (hf : QV.Model.FormTree.depth ch ≤ fuel) (hr : info.resolves = true) :
    ∃ r, QV.Model.FormTree.buildForm fuel (.cons info ch .nil) = some r := QV.Props.C11.build_total info ch fuel hf hr

/-! ## non-vacuity -/

/-! ## (ii') positions handed from the parser adapter to `Vec::insert` / `Vec::remove`

`typedexpr.rs walk_stmt: body_statements.insert(d.position, &d.body)` and
`tir/builder.rs visit_switch_statement: case_body_start_refs.remove(p)` are implicit panic sites whose guard is in
another crate module: `SwitchStatement::with_cursor` must hand out `position ≤ cases.len()`.  It does, for EVERY sequence
of child kinds the parser can produce (comments anywhere, error-recovery nodes, several defaults).  The variant of seeded
change C07/1 (comments skipped after `enumerate()` counted them) does not: kernel-checked witness. -/

/-- invariant of the clause loop: the enumerate index is the number of clauses consumed so far -/
theorem clauseLoop_inv : ∀ (l : List ClauseKind) (i : Nat) (s s' : SwitchShape),
    (s.defaultPos = none → i = s.cases) →
    (∀ p, s.defaultPos = some p → p ≤ s.cases ∧ i = s.cases + 1) →
    clauseLoop l i s = .ok s' →
    ∀ p, s'.defaultPos = some p → p ≤ s'.cases := by
  intro l
  induction l with
  | nil =>
    intro i s s' _ h2 h p hp
    simp [clauseLoop] at h
    subst h
    exact (h2 p hp).1
  | cons k rest ih =>
    intro i s s' h1 h2 h
    cases k with
    | case =>
      simp only [clauseLoop] at h
      refine ih (i + 1) _ s' ?_ ?_ h
      · intro hn; simp at hn; have := h1 hn; simp; omega
      · intro p hp; simp at hp; have := h2 p hp; simp; omega
    | default =>
      simp only [clauseLoop] at h
      split at h
      · cases h
      · rename_i hsome
        have hn : s.defaultPos = none := by
          cases hd : s.defaultPos with
          | none => rfl
          | some q => simp [hd] at hsome
        refine ih (i + 1) _ s' ?_ ?_ h
        · intro hn'; simp at hn'
        · intro p hp; simp at hp; have := h1 hn; simp; omega
    | extra => simp [clauseLoop] at h
    | other => simp [clauseLoop] at h

/-- `SwitchDefault.position ≤ cases.len()` for every switch body the adapter accepts -/
theorem switch_default_position_le_cases (children : List ClauseKind) (s : SwitchShape)
    (h : switchWithCursor children = .ok s) : ∀ p, s.defaultPos = some p → p ≤ s.cases := by
  unfold switchWithCursor at h
  exact clauseLoop_inv _ 0 ⟨0, none⟩ s (by intro _; rfl) (by intro p hp; cases hp) h

/-- `body_statements.insert(d.position, …)` in `walk_stmt` never panics -/
theorem switch_insert_never_panics (children : List ClauseKind) (s : SwitchShape)
    (h : switchWithCursor children = .ok s) : walkSwitchBodies s ≠ none := by
  unfold walkSwitchBodies
  cases hd : s.defaultPos with
  | none => simp
  | some p =>
    have := switch_default_position_le_cases children s h p hd
    simp [vecInsertLen, this]

/-- `case_body_start_refs.remove(p)` in `visit_switch_statement` never panics -/
theorem switch_remove_never_panics (children : List ClauseKind) (s : SwitchShape)
    (h : switchWithCursor children = .ok s) : visitSwitchStarts s ≠ none := by
  unfold visitSwitchStarts
  cases hd : s.defaultPos with
  | none => simp
  | some p =>
    have := switch_default_position_le_cases children s h p hd
    simp [vecRemoveLen]; omega

/-- comments do not change what the adapter returns (they are extras): the trivia oracle of the c07 stream, for this adapter -/
theorem switch_comments_are_trivia (children : List ClauseKind) :
    switchWithCursor children = switchWithCursor (children.filter (· ≠ .extra)) := by
  unfold switchWithCursor
  rw [List.filter_filter]
  simp

def counting_extras_full_statement : Prop :=
  ∀ children s, switchWithCursorCountingExtras children = .ok s → walkSwitchBodies s ≠ none

/-- seeded change C07/1: `switch (x) { /* c */ case 1: …; default: … }` is accepted with position 2 > 1 = cases.len():
    `Vec::insert` panics ("insertion index (is 2) should be <= len (is 1)") -/
theorem counting_extras_refuted : ¬ counting_extras_full_statement := by
  intro h
  exact h [.extra, .case, .default] ⟨1, some 2⟩ rfl (by decide)

/-- default first / middle / last / absent, comments in between -/
example : switchWithCursor [.extra, .case, .extra, .default, .case, .extra] = .ok ⟨2, some 1⟩ := rfl
example : switchWithCursor [.default, .extra, .case] = .ok ⟨1, some 0⟩ := rfl
example : switchWithCursor [.case, .case, .extra, .default] = .ok ⟨2, some 2⟩ := rfl
example : switchWithCursor [.extra] = .ok ⟨0, none⟩ := rfl
example : switchWithCursor [.default, .default] = .error .multipleDefaultLabels := rfl
example : walkSwitchBodies ⟨1, some 2⟩ = none := by decide

/-- `shortcut: Qt.Key_A` (an enum of another type on a QKeySequence property): diagnostic, not a panic -/
example : buildExpr trivialEnv (.gadget 3) (some (.concrete (.enum 7))) (.enumSet ["Qt::Key_A"]) = .ok none := rfl
/-- `shortcut: QKeySequence.Copy` -/
example : buildExpr trivialEnv (.gadget 3) (some (.concrete (.enum 1))) (.enumSet ["QKeySequence::Copy"])
    = .ok (some (.enum_ ["QKeySequence::Copy"])) := rfl
/-- `model: []` -/
example : buildItemModel trivialEnv (some .emptyList) .emptyList = .ok (some []) := rfl
/-- without the type check the unwrap *would* panic: the contract is not vacuous -/
example : unwrapEnumSet (.integer 1) = .error .unwrapEnumSet := rfl
/-- `cursor: 1` is stopped by the check -/
example : buildExpr trivialEnv (.gadget 2) (some .constInteger) (.integer 1) = .ok none := rfl
/-- a three-parameter callback on a one-argument signal: span from the 2nd to the 3rd parameter -/
example : (callbackSpan [⟨10, 17⟩, ⟨19, 25⟩, ⟨27, 37⟩] 1 3).map RangeExpr.eval = some ⟨19, 37⟩ := by decide

end QV.Props.C07
