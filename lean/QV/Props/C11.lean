/-
  C11 — The object tree and child order of the QML document are preserved.

  Model : QV.Model.FormTree — `populate_node_rec` (post-order flattening with child indices, unresolved
          subtrees skipped) followed by the index-driven rebuild of `UiForm/UiObject/Widget/Layout::build`.
  Spec  : QV.Spec.FormTree.specForm — the same skeleton by direct recursion on the tree.
  Tie   : stream `c11`: generated trees through the real pipeline; the element skeleton of the real .ui
          (read by the harness' own XML reader) is compared with the model (kind=model), with the Lean
          specification (kind=spec) and with an independent Rust-side rendering of the generator's tree
          (kind=oracle).
-/
import QV.Proofs.FormTree

namespace QV.Props.C11
open QV.Model.FormTree QV.Spec.FormTree QV.Proofs.FormTree

/-- **Flatten/unflatten**: for every object tree, rebuilding the form from the post-order vector and the
    child index lists gives exactly the form defined by direct recursion on the tree — every resolving object
    once, inside its parent's element, siblings in source order; unresolved objects disappear with their
    subtree.  (Any fuel ≥ the tree depth; the real recursion is bounded by the same depth.) -/
theorem form_tree_preserved (root : Forest) (fuel : Nat) (hf : depth root ≤ fuel + 1) :
    buildForm fuel root = specForm root := by
  match root with
  | .nil => rfl
  | .cons info ch (.cons _ _ _) => rfl
  | .cons info ch .nil =>
    simp only [buildForm, specForm]
    split
    · have hd : depth ch ≤ fuel := by simp [depth] at hf; omega
      have := build_populate ch [] [] fuel .obj hd
      simp only [List.append_nil] at this
      simp [this]
    · rfl

/-- fuel does not matter once it covers the depth -/
theorem fuel_irrelevant (root : Forest) (f1 f2 : Nat) (h1 : depth root ≤ f1 + 1) (h2 : depth root ≤ f2 + 1) :
    buildForm f1 root = buildForm f2 root := by
  rw [form_tree_preserved root f1 h1, form_tree_preserved root f2 h2]

/-- the rebuild never gets stuck (no out-of-range index, fuel suffices): it yields a form exactly when the
    root object's type resolves -/
theorem build_total (info : Info) (ch : Forest) (fuel : Nat) (hf : depth ch ≤ fuel) (hr : info.resolves = true) :
    ∃ r, buildForm fuel (.cons info ch .nil) = some r := by
  rw [form_tree_preserved _ fuel (by simp [depth]; omega)]
  simp [specForm, hr]

/-- **Actions rule**: the `<addaction>` list of a widget is the explicit `actions` list when one is given,
    else the action-like children (actions, separators, menus) in declaration order. -/
theorem actions_rule (info : Info) (kids : List (Built × Nat)) :
    widgetOf info kids =
      XF.elem "widget" [("class", info.cls), ("name", info.name)]
        ((addActions (match info.actions with
          | some l => l
          | none => actionLike (kids.map (·.1)))).append (xmlOfBuilts (kids.map (·.1)))) := rfl

/-! ### what the specification says about names: document order = pre-order of the QML tree -/

/-- names of the object elements (`widget`, `layout`, `spacer`, `action`) in document order -/
def namesOf : XF → List Str
  | .nil => []
  | .cons tag attrs ch rest =>
    (if tag = "widget" ∨ tag = "layout" ∨ tag = "spacer" ∨ tag = "action" then
        (attrs.filter (·.1 = "name")).map (·.2) else [])
      ++ namesOf ch ++ namesOf rest

/-- pre-order names of the objects that get an element: everything that resolves, except static separators
    and whatever is (illegally) placed under an action or spacer -/
def preorder (mode : Mode) : Forest → List Str
  | .nil => []
  | .cons info ch rest =>
    (if info.resolves then
      match mode with
      | .obj =>
        if info.isAction then (if info.separator then [] else [info.name])
        else if info.isLayout then info.name :: preorder .item ch
        else info.name :: preorder .obj ch
      | .item =>
        if info.isLayout then info.name :: preorder .item ch
        else if info.isSpacer then [info.name]
        else info.name :: preorder .obj ch
    else []) ++ preorder mode rest

theorem namesOf_append (a b : XF) : namesOf (a.append b) = namesOf a ++ namesOf b := by
  induction a with
  | nil => rfl
  | cons t at' c r _ ihr => simp [XF.append, namesOf, ihr, List.append_assoc]

theorem namesOf_addActions (l : List Str) : namesOf (addActions l) = [] := by
  induction l with
  | nil => rfl
  | cons n rest ih => simp [addActions, namesOf, ih]

theorem namesOf_wrapItems (bs : List Built) : namesOf (wrapItems bs) = namesOf (xmlOfBuilts bs) := by
  induction bs with
  | nil => rfl
  | cons b rest ih => simp [wrapItems, xmlOfBuilts, namesOf, namesOf_append, ih]

/-- **Each object once, in source order**: the object elements of the specified form, read in document
    order, are exactly the pre-order traversal of the accepted QML objects. -/
theorem spec_names_preorder (F : Forest) : ∀ mode,
    namesOf (xmlOfBuilts ((specForest mode F).map (·.1))) = preorder mode F := by
  induction F with
  | nil => intro mode; rfl
  | cons info ch rest ihc ihr =>
    intro mode
    simp only [specForest, preorder]
    by_cases hres : info.resolves = true
    · simp only [hres, if_true]
      obtain ⟨b, hb⟩ := assemble_some mode info (hasResolving ch) (fun m => some (specForest m ch))
        (fun m' => ⟨_, rfl⟩)
      rw [hb]
      simp only [List.map_cons, xmlOfBuilts, namesOf_append, ihr]
      congr 1
      -- the element(s) of this object
      cases mode <;> simp only [assemble] at hb <;> (repeat' split at hb) <;>
        simp only [Option.map_some, Option.some.injEq] at hb <;> subst hb <;>
        simp_all [Built.xml, XF.elem, namesOf, widgetOf, layoutOf, namesOf_append, namesOf_addActions,
          namesOf_wrapItems, ihc]
    · have : info.resolves = false := by simpa using hres
      simp [this, ihr]

/-! ### non-vacuity -/

private def w (n : String) (ch rest : Forest) : Forest :=
  .cons { cls := "QWidget".toList, name := n.toList, isWidget := true } ch rest
private def a (n : String) (rest : Forest) : Forest :=
  .cons { cls := "QAction".toList, name := n.toList, isAction := true } .nil rest
private def l (n : String) (ch rest : Forest) : Forest :=
  .cons { cls := "QVBoxLayout".toList, name := n.toList, isLayout := true } ch rest

example : (buildForm 5 (w "root" (l "lay" (w "x" .nil (w "y" .nil .nil)) (a "act" .nil)) .nil)).map
    (fun r => (namesOf r.1, r.2)) = some (["root", "lay", "x", "y", "act"].map String.toList, 0) := by decide

example : buildForm 5 (w "root" (.cons { cls := "Nope".toList, name := "n".toList, resolves := false }
    (w "gone" .nil .nil) (w "kept" .nil .nil)) .nil) = buildForm 5 (w "root" (w "kept" .nil .nil) .nil) := by decide

end QV.Props.C11
