/-
  C06 — Generated function bodies have sound control flow and define before use.

  Model : QV.Model.{Builder,Walk,Finalize} (the IR builder; tied by the exact-IR stream `ir`),
          QV.Model.Cfg.checkCfg (a certificate checker for one function body).
  Tie   : every IR observed in the REAL pipeline (hook) is (a) compared with the model's IR exactly and (b) run
          through `QV.Model.Cfg.check` by the Lean driver (kind=pred `cfgcheck`): a failing check on a real IR is a
          violation with the program as replay.
  Theorems here: soundness of the checker — if it accepts a body then, for EVERY path from the entry (not a bound
  on length, not a sample of paths): every jump target exists, control never reaches a block without terminator or
  the `unreachable` marker, and every read of a local (compiler temporary or declared variable) is preceded on that
  path by an assignment (parameters count as assigned).  What is NOT yet proved is that the builder's output passes
  the checker for all programs (`build_passes_check_full_statement` below): that clause is decided per output.
-/
import QV.Proofs.Cfg
import QV.Model.Finalize

namespace QV.Props.C06
open QV.Model QV.Model.Cfg QV.Proofs.Cfg

theorem targets_exist {c : CodeBody} {reach : List Bool} {ins : List (List Nat)} (h : checkCfg c reach ins = true) :
    ∀ (i : Nat) (b : BasicBlock), c.blocks[i]? = some b → ∀ j ∈ successors b.terminator, j < c.blocks.length := by
  simp only [checkCfg, Bool.and_eq_true] at h
  have ht := h.1.2
  intro i b hb j hj
  simp only [targetsOk, List.all_eq_true] at ht
  have := ht b (List.mem_of_getElem? hb) j hj
  simpa using this

theorem reaches_lt {c : CodeBody} {reach : List Bool} {ins : List (List Nat)} (h : checkCfg c reach ins = true) :
    ∀ {i : Nat} {A : List Nat}, Reaches c i A → i < c.blocks.length := by
  intro i A hr
  induction hr with
  | entry =>
    simp only [checkCfg, Bool.and_eq_true, decide_eq_true_eq] at h
    exact h.1.1.1.1
  | step _ hb hj _ => exact targets_exist h _ _ hb _ hj

/-- **Soundness of the CFG check, for every path.** -/
theorem checkCfg_sound {c : CodeBody} {reach : List Bool} {ins : List (List Nat)} (h : checkCfg c reach ins = true) :
    ∀ (i : Nat) (A : List Nat), Reaches c i A →
      ∃ (b : BasicBlock) (t : Terminator), c.blocks[i]? = some b ∧ b.terminator = some t ∧
        t ≠ Terminator.unreachable ∧
        (∀ j ∈ successors b.terminator, j < c.blocks.length) ∧
        (∀ (k : Nat) (s : Statement), b.statements[k]? = some s →
          ∀ x ∈ stmtReads s, x ∈ defsOf (b.statements.take k) ++ A) ∧
        (∀ x ∈ termReads t, x ∈ defsOf b.statements ++ A) := by
  intro i A hr
  have hlt := reaches_lt h hr
  obtain ⟨hri, hsub⟩ := reaches_inv h hr
  have hb : c.blocks[i]? = some c.blocks[i] := List.getElem?_eq_getElem hlt
  have hh := h
  simp only [checkCfg, Bool.and_eq_true] at hh
  have hbo := blocksOk_get c.blocks 0 hh.2 i _ hb
  simp only [Nat.zero_add, blockOk, hri, if_true] at hbo
  cases ht : (c.blocks[i]).terminator with
  | none => simp [ht] at hbo
  | some t =>
    have hne : t ≠ Terminator.unreachable := by
      intro he; subst he; simp [ht] at hbo
    have hbo' : stmtsOk (c.blocks[i]).statements (ins.getD i [] ++ List.range c.parameterCount) = true ∧
        (termReads t).all ((defsOf (c.blocks[i]).statements ++ (ins.getD i [] ++ List.range c.parameterCount)).contains ·) = true := by
      cases t with
      | unreachable => exact absurd rfl hne
      | br l => simp only [ht, Bool.and_eq_true] at hbo; exact ⟨hbo.1.1, hbo.1.2⟩
      | brCond cnd x y => simp only [ht, Bool.and_eq_true] at hbo; exact ⟨hbo.1.1, hbo.1.2⟩
      | ret a => simp only [ht, Bool.and_eq_true] at hbo; exact ⟨hbo.1.1, hbo.1.2⟩
    refine ⟨c.blocks[i], t, hb, ht, hne, ?_, ?_, ?_⟩
    · intro j hj
      exact targets_exist h i _ hb j hj
    · intro k s hk x hx
      have hmono := stmtsOk_mono _ _ A hsub hbo'.1
      exact stmtsOk_reads _ A hmono k s hk x hx
    · intro x hx
      have := hbo'.2
      simp only [List.all_eq_true, List.contains_iff_mem] at this
      have hx' := this x hx
      simp only [List.mem_append] at hx' ⊢
      rcases hx' with h1 | h1
      · exact Or.inl h1
      · exact Or.inr (hsub x (List.mem_append.mpr h1))

/-- the convenience form used by the driver: certificates computed by the untrusted producers -/
theorem check_sound {c : CodeBody} (h : check c = true) :
    ∀ (i : Nat) (A : List Nat), Reaches c i A →
      ∃ (b : BasicBlock) (t : Terminator), c.blocks[i]? = some b ∧ b.terminator = some t ∧
        t ≠ Terminator.unreachable ∧ (∀ j ∈ successors b.terminator, j < c.blocks.length) :=
  fun i A hr =>
    let ⟨b, t, h1, h2, h3, h4, _, _⟩ := checkCfg_sound (c := c) h i A hr
    ⟨b, t, h1, h2, h3, h4⟩

/-- **A value-returning body returns a value on every reachable path**: a body that passes `checkFn true` has no
    `return` without a value in any block that some execution path reaches. -/
theorem returns_value_on_every_path {c : CodeBody} (h : checkFn true c = true) :
    ∀ (i : Nat) (A : List Nat), Reaches c i A → ∀ b, c.blocks[i]? = some b → b.terminator ≠ some (.ret .void) := by
  intro i A hr b hb
  simp only [checkFn, Bool.and_eq_true, Bool.not_true, Bool.false_or] at h
  have hri := (reaches_inv h.1 hr).1
  have := retsOk_get c.blocks 0 h.2 i b hb (by simpa using hri)
  exact this

/-- … and satisfies everything `check_sound` gives -/
theorem checkFn_check {v : Bool} {c : CodeBody} (h : checkFn v c = true) : check c = true := by
  simp only [checkFn, Bool.and_eq_true] at h
  exact h.1

/-- The full statement about the builder (for ALL programs): not proved; decided per output by `check`. -/
def build_passes_check_full_statement : Prop :=
  ∀ (ctx : Ctx) (callback : Bool) (p : Program) (code : CodeBody),
    (build ctx callback p).code = some code → (build ctx callback p).panic = none → check code = true

/-! ### non-vacuity: a ternary-shaped body passes; the F1 shape (non-empty tail block marked unreachable
    although it is branched to) and a read of an unassigned temporary are rejected -/

private def ternaryBody : CodeBody :=
  { blocks := [
      { statements := [.assign 0 (.readProperty (.namedObject "a" "VBase") default)],
        terminator := some (.brCond (.local 0 .bool) 1 2) },
      { statements := [.assign 1 (.copy (.const (.integer 1)))], terminator := some (.br 3) },
      { statements := [.assign 1 (.copy (.const (.integer 2)))], terminator := some (.br 3) },
      { statements := [], terminator := some (.ret (.local 1 .int)) }],
    locals := [.bool, .int] }

example : check ternaryBody = true := by decide

private def f1Body : CodeBody :=
  { blocks := [
      { statements := [], terminator := some (.brCond (.const (.bool true)) 1 2) },
      { statements := [], terminator := some (.br 3) },
      { statements := [], terminator := some (.br 3) },
      { statements := [.assign 0 (.copy (.const (.integer 1)))], terminator := some .unreachable }],
    locals := [.int] }

example : check f1Body = false := by decide

private def undefinedRead : CodeBody :=
  { blocks := [
      { statements := [], terminator := some (.brCond (.const (.bool true)) 1 2) },
      { statements := [.assign 0 (.copy (.const (.integer 1)))], terminator := some (.br 2) },
      { statements := [], terminator := some (.ret (.local 0 .int)) }],
    locals := [.int] }

example : check undefinedRead = false := by decide

end QV.Props.C06
