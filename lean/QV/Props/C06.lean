/-
  C06 — Generated function bodies have sound control flow and define before use.

  Model : QV.Model.{Builder,Walk,Finalize} (the IR builder; tied by the exact-IR stream `ir`),
          QV.Model.Cfg.checkCfg (a certificate checker for one function body).
  Tie   : every IR observed in the REAL pipeline (hook) is (a) compared with the model's IR exactly and (b) run
          through `QV.Model.Cfg.check` by the Lean driver (kind=pred `cfgcheck`): a failing check on a real IR is a
          violation with the program as replay.
  Theorems here: soundness of the checker — if it accepts a body then, for EVERY path from the entry (not a bound
  on length, not a sample of paths): every jump target exists, control never reaches a block without terminator or
  the `unreachable` marker, and every read of a local (compiler temporary or declared variable) is preceded on that
  path by an assignment (parameters count as assigned).  What is NOT yet proved is that the builder's output passes
  the checker for all programs (`build_passes_check_full_statement` below): that clause is decided per output.
  (Added later, see the APPENDED SECTION at the end: the builder IS now proved, for all programs, in the semantic
  form — `build_passes_check_semantic`.)
-/
import QV.Proofs.Cfg
import QV.Model.Finalize
import QV.Proofs.BuilderInvBuild
import QV.Proofs.BuilderInvDefBuild
import QV.Proofs.PropDepBuild

namespace QV.Props.C06
open QV.Model QV.Model.Cfg QV.Proofs.Cfg

theorem targets_exist {c : CodeBody} {reach : List Bool} {ins : List (List Nat)} (h : checkCfg c reach ins = true) :
    ∀ (i : Nat) (b : BasicBlock), c.blocks[i]? = some b → ∀ j ∈ successors b.terminator, j < c.blocks.length := by
  simp only [checkCfg, Bool.and_eq_true] at h
  have ht := h.1.2
  intro i b hb j hj
  simp only [targetsOk, List.all_eq_true] at ht
  have := ht b (List.mem_of_getElem? hb) j hj
  simpa using this

theorem reaches_lt {c : CodeBody} {reach : List Bool} {ins : List (List Nat)} (h : checkCfg c reach ins = true) :
    ∀ {i : Nat} {A : List Nat}, Reaches c i A → i < c.blocks.length := by
  intro i A hr
  induction hr with
  | entry =>
    simp only [checkCfg, Bool.and_eq_true, decide_eq_true_eq] at h
    exact h.1.1.1.1
  | step _ hb hj _ => exact targets_exist h _ _ hb _ hj

/-- **Soundness of the CFG check, for every path.** -/
theorem checkCfg_sound {c : CodeBody} {reach : List Bool} {ins : List (List Nat)} (h : checkCfg c reach ins = true) :
    ∀ (i : Nat) (A : List Nat), Reaches c i A →
      ∃ (b : BasicBlock) (t : Terminator), c.blocks[i]? = some b ∧ b.terminator = some t ∧
        t ≠ Terminator.unreachable ∧
        (∀ j ∈ successors b.terminator, j < c.blocks.length) ∧
        (∀ (k : Nat) (s : Statement), b.statements[k]? = some s →
          ∀ x ∈ stmtReads s, x ∈ defsOf (b.statements.take k) ++ A) ∧
        (∀ x ∈ termReads t, x ∈ defsOf b.statements ++ A) := by
  intro i A hr
  have hlt := reaches_lt h hr
  obtain ⟨hri, hsub⟩ := reaches_inv h hr
  have hb : c.blocks[i]? = some c.blocks[i] := List.getElem?_eq_getElem hlt
  have hh := h
  simp only [checkCfg, Bool.and_eq_true] at hh
  have hbo := blocksOk_get c.blocks 0 hh.2 i _ hb
  simp only [Nat.zero_add, blockOk, hri, if_true] at hbo
  cases ht : (c.blocks[i]).terminator with
  | none => simp [ht] at hbo
  | some t =>
    have hne : t ≠ Terminator.unreachable := by
      intro he; subst he; simp [ht] at hbo
    have hbo' : stmtsOk (c.blocks[i]).statements (ins.getD i [] ++ List.range c.parameterCount) = true ∧
        (termReads t).all ((defsOf (c.blocks[i]).statements ++ (ins.getD i [] ++ List.range c.parameterCount)).contains ·) = true := by
      cases t with
      | unreachable => exact absurd rfl hne
      | br l => simp only [ht, Bool.and_eq_true] at hbo; exact ⟨hbo.1.1, hbo.1.2⟩
      | brCond cnd x y => simp only [ht, Bool.and_eq_true] at hbo; exact ⟨hbo.1.1, hbo.1.2⟩
      | ret a => simp only [ht, Bool.and_eq_true] at hbo; exact ⟨hbo.1.1, hbo.1.2⟩
    refine ⟨c.blocks[i], t, hb, ht, hne, ?_, ?_, ?_⟩
    · intro j hj
      exact targets_exist h i _ hb j hj
    · intro k s hk x hx
      have hmono := stmtsOk_mono _ _ A hsub hbo'.1
      exact stmtsOk_reads _ A hmono k s hk x hx
    · intro x hx
      have := hbo'.2
      simp only [List.all_eq_true, List.contains_iff_mem] at this
      have hx' := this x hx
      simp only [List.mem_append] at hx' ⊢
      rcases hx' with h1 | h1
      · exact Or.inl h1
      · exact Or.inr (hsub x (List.mem_append.mpr h1))

/-- the convenience form used by the driver: certificates computed by the untrusted producers -/
theorem check_sound {c : CodeBody} (h : check c = true) :
    ∀ (i : Nat) (A : List Nat), Reaches c i A →
      ∃ (b : BasicBlock) (t : Terminator), c.blocks[i]? = some b ∧ b.terminator = some t ∧
        t ≠ Terminator.unreachable ∧ (∀ j ∈ successors b.terminator, j < c.blocks.length) :=
  fun i A hr =>
    let ⟨b, t, h1, h2, h3, h4, _, _⟩ := checkCfg_sound (c := c) h i A hr
    ⟨b, t, h1, h2, h3, h4⟩

/-- **A value-returning body returns a value on every reachable path**: a body that passes `checkFn true` has no
    `return` without a value in any block that some execution path reaches. -/
theorem returns_value_on_every_path {c : CodeBody} (h : checkFn true c = true) :
    ∀ (i : Nat) (A : List Nat), Reaches c i A → ∀ b, c.blocks[i]? = some b → b.terminator ≠ some (.ret .void) := by
  intro i A hr b hb
  simp only [checkFn, Bool.and_eq_true, Bool.not_true, Bool.false_or] at h
  have hri := (reaches_inv h.1 hr).1
  have := retsOk_get c.blocks 0 h.2 i b hb (by simpa using hri)
  exact this

/-- … and satisfies everything `check_sound` gives -/
theorem checkFn_check {v : Bool} {c : CodeBody} (h : checkFn v c = true) : check c = true := by
  simp only [checkFn, Bool.and_eq_true] at h
  exact h.1

/-- The full statement about the builder (for ALL programs): not proved; decided per output by `check`. -/
def build_passes_check_full_statement : Prop :=
  ∀ (ctx : Ctx) (callback : Bool) (p : Program) (code : CodeBody),
    (build ctx callback p).code = some code → (build ctx callback p).panic = none → check code = true

/-! ### non-vacuity: a ternary-shaped body passes; the F1 shape (non-empty tail block marked unreachable
    although it is branched to) and a read of an unassigned temporary are rejected -/

private def ternaryBody : CodeBody :=
  { blocks := [
      { statements := [.assign 0 (.readProperty (.namedObject "a" "VBase") default)],
        terminator := some (.brCond (.local 0 .bool) 1 2) },
      { statements := [.assign 1 (.copy (.const (.integer 1)))], terminator := some (.br 3) },
      { statements := [.assign 1 (.copy (.const (.integer 2)))], terminator := some (.br 3) },
      { statements := [], terminator := some (.ret (.local 1 .int)) }],
    locals := [.bool, .int] }

example : check ternaryBody = true := by decide

private def f1Body : CodeBody :=
  { blocks := [
      { statements := [], terminator := some (.brCond (.const (.bool true)) 1 2) },
      { statements := [], terminator := some (.br 3) },
      { statements := [], terminator := some (.br 3) },
      { statements := [.assign 0 (.copy (.const (.integer 1)))], terminator := some .unreachable }],
    locals := [.int] }

example : check f1Body = false := by decide

private def undefinedRead : CodeBody :=
  { blocks := [
      { statements := [], terminator := some (.brCond (.const (.bool true)) 1 2) },
      { statements := [.assign 0 (.copy (.const (.integer 1)))], terminator := some (.br 2) },
      { statements := [], terminator := some (.ret (.local 0 .int)) }],
    locals := [.int] }

example : check undefinedRead = false := by decide

end QV.Props.C06

/-! ## APPENDED SECTION — the builder itself, for ALL programs

  The theorems above speak about the CHECKER.  The theorems below speak about the model COMPILER
  `QV.Model.build` (= `tir::build` / `tir::build_callback`, tied to the real code by the exact-IR stream): they hold
  for every context, every program (all expression and statement forms, bindings and callback functions, accepted
  or not, any nesting depth) — no fragment restriction, no generator.  Proofs: `QV.Proofs.BuilderInv{Base,Visit,
  Walk,Stmt,Finalize,Build}` (an invariant of the walk over the control-flow skeleton "number of blocks +
  terminator of every block": every terminator set so far targets existing blocks and is never the marker; every
  block except the current one is closed or is a pending branch point that the enclosing visitor closes; then the
  graph invariant of `finalize_completion_values`' reverse walk: a block left as `unreachable` is never the target
  of an edge and never the entry, unless the pass reported its "unreachable code" panic).

  Form: the SEMANTIC form — the conjuncts of `checkCfg_sound`'s conclusion, for every `Reaches` path — not
  `check code = true` (which would in addition depend on the untrusted certificate producers computeReach /
  computeIns being complete).

  Proved: (1) jump targets, (2) terminators / the unreachable marker, (3) define-before-use, and their combination
  (4) = the WHOLE conclusion of `checkCfg_sound`, for every output of the builder and every path
  (`build_passes_check_semantic`), reads of the variables the user declared without initialiser exempted as in the
  driver's `checkExempting`.  (1), (2a) and (3) need no hypothesis at all; (2b), (2c) and (4) need `panic = none`.

  (3) is proved in `QV.Proofs.BuilderInvDef{Base,Visit,Ctl,Walk,Stmt,Build}` by constructing, along the walk, a
  certificate `ins` ("assigned whenever control arrives at block i") that is consistent with everything built so
  far: a block that starts a branch claims what its branching block knows, a join block claims what was known
  before the construct plus the construct's result temporary, the block after `break`/`return` (dead code) what was
  known there; the name map only holds variables that are assigned at the current point or were declared without
  initialiser; `finalize_completion_values` keeps statements and only installs `return`s of completion values that
  were covered when they were set.
  The first attempt at that invariant FAILED at `walkBodies`: all clauses of a `switch` shared one name map, but
  a clause is entered by a jump from the switch head, so a variable declared WITH initialiser in an earlier clause
  could be read in a later clause without having been assigned.  Running the real compiler at that point confirmed
  the defect (finding F100: `switch (a.value) { case 1: let v = a.value + 10; case 2: return v; }` was accepted,
  exit status 0, and the emitted C++ reached `return a5;` from the head with `a5` never assigned); repaired in
  /repo by 0aff63c (every clause starts from the name map before the switch) and in the model; `f100BodyOld` below
  is the pre-repair output, with the kernel-checked witness `f100_defines_before_use_old_refuted`.  The theorem
  holds for the repaired compiler.
  The pre-existing `build_passes_check_full_statement` (`check code = true`) stays a definition: it is not the
  statement to prove — it lacks the exemption (the accepted program `{ let v: int; return v }` reads `v`
  unassigned, which is the user's error) and it would depend on the untrusted certificate producers. -/

namespace QV.Props.C06
open QV.Model QV.Model.Cfg QV.Proofs.Cfg

/-- **(1) Every jump of a built body targets an existing block** — all blocks, reachable or not; no hypothesis
    on diagnostics or panics. -/
theorem build_targets_exist (ctx : Ctx) (callback : Bool) (p : Program) (code : CodeBody)
    (h : (build ctx callback p).code = some code) :
    ∀ (i : Nat) (b : BasicBlock), code.blocks[i]? = some b →
      ∀ j ∈ successors b.terminator, j < code.blocks.length :=
  QV.Proofs.BuilderInv.build_targets_exist ctx callback p code h

/-- **(2a) A built body has an entry block and every block has a terminator** (possibly the marker). -/
theorem build_blocks_terminated (ctx : Ctx) (callback : Bool) (p : Program) (code : CodeBody)
    (h : (build ctx callback p).code = some code) :
    0 < code.blocks.length ∧ ∀ (i : Nat) (b : BasicBlock), code.blocks[i]? = some b → b.terminator.isSome = true :=
  QV.Proofs.BuilderInv.build_blocks_terminated ctx callback p code h

/-- **(2b) The exact invariant behind "no reachable block is `unreachable`"**: if `build` reports no panic, a
    block carrying the marker is not the entry and NO block at all (reachable or not) jumps to it. -/
theorem build_unreachable_isolated (ctx : Ctx) (callback : Bool) (p : Program) (code : CodeBody)
    (h : (build ctx callback p).code = some code) (hp : (build ctx callback p).panic = none) :
    ∀ (i : Nat) (b : BasicBlock), code.blocks[i]? = some b → b.terminator = some .unreachable →
      i ≠ 0 ∧ ∀ (j : Nat) (bj : BasicBlock), code.blocks[j]? = some bj → i ∉ successors bj.terminator :=
  QV.Proofs.BuilderInv.build_unreachable_isolated ctx callback p code h hp

/-- **(2c)** … hence no execution path arrives at such a block. -/
theorem build_no_reachable_unreachable (ctx : Ctx) (callback : Bool) (p : Program) (code : CodeBody)
    (h : (build ctx callback p).code = some code) (hp : (build ctx callback p).panic = none) :
    ∀ (i : Nat) (A : List Nat), Reaches code i A →
      ∀ b, code.blocks[i]? = some b → b.terminator ≠ some .unreachable :=
  QV.Proofs.BuilderInv.build_no_reachable_unreachable ctx callback p code h hp

/-- **(4, control-flow half) The first four conjuncts of `checkCfg_sound`'s conclusion hold for every output of
    the builder, on every path** — exactly the conclusion of `check_sound`, without running any check. -/
theorem build_control_flow_sound (ctx : Ctx) (callback : Bool) (p : Program) (code : CodeBody)
    (h : (build ctx callback p).code = some code) (hp : (build ctx callback p).panic = none) :
    ∀ (i : Nat) (A : List Nat), Reaches code i A →
      ∃ (b : BasicBlock) (t : Terminator), code.blocks[i]? = some b ∧ b.terminator = some t ∧
        t ≠ Terminator.unreachable ∧ (∀ j ∈ successors b.terminator, j < code.blocks.length) :=
  QV.Proofs.BuilderInv.build_control_flow_sound ctx callback p code h hp

/-- the statement of (3): on every path, every read of a local that the user did not declare without initialiser
    is preceded by an assignment (it was false before the repair 0aff63c, see `f100BodyOld`) -/
def build_defines_before_use_full_statement : Prop :=
  ∀ (ctx : Ctx) (callback : Bool) (p : Program) (code : CodeBody),
    (build ctx callback p).code = some code → (build ctx callback p).panic = none →
    ∀ (i : Nat) (A : List Nat), Reaches code i A → ∀ b, code.blocks[i]? = some b →
      (∀ (k : Nat) (s : Statement), b.statements[k]? = some s →
        ∀ x ∈ stmtReads s, x ∉ (build ctx callback p).userUninit → x ∈ defsOf (b.statements.take k) ++ A) ∧
      (∀ t, b.terminator = some t →
        ∀ x ∈ termReads t, x ∉ (build ctx callback p).userUninit → x ∈ defsOf b.statements ++ A)

/-- the statement of (4), the whole of it in the semantic form -/
def build_passes_check_semantic_full_statement : Prop :=
  ∀ (ctx : Ctx) (callback : Bool) (p : Program) (code : CodeBody),
    (build ctx callback p).code = some code → (build ctx callback p).panic = none →
    ∀ (i : Nat) (A : List Nat), Reaches code i A →
      ∃ (b : BasicBlock) (t : Terminator), code.blocks[i]? = some b ∧ b.terminator = some t ∧
        t ≠ Terminator.unreachable ∧
        (∀ j ∈ successors b.terminator, j < code.blocks.length) ∧
        (∀ (k : Nat) (s : Statement), b.statements[k]? = some s →
          ∀ x ∈ stmtReads s, x ∉ (build ctx callback p).userUninit → x ∈ defsOf (b.statements.take k) ++ A) ∧
        (∀ x ∈ termReads t, x ∉ (build ctx callback p).userUninit → x ∈ defsOf b.statements ++ A)

/-- **(3) Define before use, for every output of the builder and every path** — no hypothesis on diagnostics or
    panics: a read of a local (compiler temporary or variable declared with initialiser) is preceded, on the path,
    by an assignment; parameters count as assigned; variables declared without initialiser are exempt. -/
theorem build_defines_before_use (ctx : Ctx) (callback : Bool) (p : Program) (code : CodeBody)
    (h : (build ctx callback p).code = some code) :
    ∀ (i : Nat) (A : List Nat), Reaches code i A → ∀ b, code.blocks[i]? = some b →
      (∀ (k : Nat) (s : Statement), b.statements[k]? = some s →
        ∀ x ∈ stmtReads s, x ∉ (build ctx callback p).userUninit → x ∈ defsOf (b.statements.take k) ++ A) ∧
      (∀ t, b.terminator = some t →
        ∀ x ∈ termReads t, x ∉ (build ctx callback p).userUninit → x ∈ defsOf b.statements ++ A) :=
  QV.Proofs.BuilderInv.build_defines_before_use ctx callback p code h

theorem build_defines_before_use_full : build_defines_before_use_full_statement :=
  fun ctx callback p code h _ => build_defines_before_use ctx callback p code h

/-- **(4) Every output of the builder satisfies the whole conclusion of `checkCfg_sound`, on every path** (semantic
    form; reads of user-uninitialised variables exempt) -/
theorem build_passes_check_semantic : build_passes_check_semantic_full_statement := by
  intro ctx callback p code h hp i A hr
  obtain ⟨b, t, hb, ht, hne, htg⟩ := build_control_flow_sound ctx callback p code h hp i A hr
  obtain ⟨h1, h2⟩ := build_defines_before_use ctx callback p code h i A hr b hb
  exact ⟨b, t, hb, ht, hne, htg, h1, h2 t ht⟩

/-- the (pre-analysis) body the REAL compiler emitted BEFORE the repair 0aff63c for
    `switch (b.i) { case 1: let v = b.j; case 2: return v; } return 0` (finding F100; blocks, terminators, locals
    and the assigned/read locals as emitted; the two property reads abbreviated to the default property record):
    block 5 (`case 2`) is entered from block 1 and returns local 4, which only block 4 (`case 1`) assigns. -/
def f100BodyOld : CodeBody :=
  { blocks := [
      { statements := [.assign 0 (.readProperty (.namedObject "b" "VBase") default),
                       .assign 1 (.binary (.cmp .eq) (.local 0 .int) (.const (.integer 1)))],
        terminator := some (.brCond (.local 1 .bool) 4 1) },
      { statements := [.assign 2 (.binary (.cmp .eq) (.local 0 .int) (.const (.integer 2)))],
        terminator := some (.brCond (.local 2 .bool) 5 7) },
      { statements := [], terminator := some (.br 4) },
      { statements := [], terminator := some (.br 7) },
      { statements := [.assign 3 (.readProperty (.namedObject "b" "VBase") default),
                       .assign 4 (.copy (.local 3 .int))],
        terminator := some (.br 5) },
      { statements := [], terminator := some (.ret (.local 4 .int)) },
      { statements := [], terminator := some (.br 7) },
      { statements := [], terminator := some (.ret (.const (.integer 0))) },
      { statements := [], terminator := some .unreachable }],
    locals := [.int, .bool, .bool, .int, .int] }

/-- the pre-repair output is rejected by the check, and rightly so: a path entry → block 1 → block 5 exists on
    which local 4, which block 5 returns, has not been assigned -/
theorem f100_defines_before_use_old_refuted :
    check f100BodyOld = false ∧
    ∃ A, Reaches f100BodyOld 5 A ∧ f100BodyOld.blocks[5]?.bind (·.terminator) = some (.ret (.local 4 .int)) ∧ 4 ∉ A :=
  ⟨by decide,
   _, .step (j := 5) (b := f100BodyOld.blocks[1])
        (.step (j := 1) (b := f100BodyOld.blocks[0]) .entry rfl (by decide)) rfl (by decide),
   by decide, by decide⟩

end QV.Props.C06

/-! ## APPENDED SECTION 2 — after `analyze_code_property_dependency` (tir/propdep.rs), for ALL programs

  `tir::build` is followed, for property bindings, by the pass that inserts the `observeProperty` statements
  (`QV.Model.analyzePropertyDependency`, the model of propdep.rs used by C02 and compared with the real IR by the
  exact-IR stream).  The pass keeps every block's terminator and inserts only observe statements, each directly
  before a statement that reads the observed local itself (`QV.Proofs.PropDepShape`).  Hence, for EVERY body, the
  whole conclusion of `checkCfg_sound` carries over from the body the pass is given to the body it returns — on
  every path, including the reads of the inserted statements (the sender local of an observe statement is assigned
  on every path before it).  Composed with `build_passes_check_semantic`: the body that the C++ emitter receives
  satisfies the C06 conclusion, for all programs. -/

namespace QV.Props.C06
open QV.Model QV.Model.Cfg QV.Proofs.Cfg QV.Proofs.PropDepShape

/-- the pass changes neither the number of blocks nor any terminator, and defines no local -/
theorem analysis_keeps_skeleton (code : CodeBody) :
    (analyzePropertyDependency code).1.blocks.length = code.blocks.length ∧
    (analyzePropertyDependency code).1.parameterCount = code.parameterCount ∧
    ∀ (i : Nat) (b' : BasicBlock), (analyzePropertyDependency code).1.blocks[i]? = some b' →
      ∃ b, code.blocks[i]? = some b ∧ b'.terminator = b.terminator ∧ defsOf b'.statements = defsOf b.statements := by
  obtain ⟨hrel, hnp⟩ := analyze_blocks code
  refine ⟨hrel.1, hnp, fun i b' hb' => ?_⟩
  obtain ⟨b, hb, hann⟩ := hrel.2 i b' hb'
  exact ⟨b, hb, hann.term, hann.defs⟩

/-- **The pass preserves the C06 conclusion, for every body and every path** (`SemOk U c` = the conclusion of
    `checkCfg_sound` for `c` with the reads of the locals in `U` exempt) -/
theorem analysis_preserves_cfg_conclusion (U : Nat → Prop) (code : CodeBody) (h : SemOk U code) :
    SemOk U (analyzePropertyDependency code).1 :=
  analyze_keeps_semOk U code h

/-- **The analysed body of every program satisfies the whole conclusion of `checkCfg_sound` on every path** -/
theorem build_analyze_passes_check_semantic (ctx : Ctx) (callback : Bool) (p : Program) (code : CodeBody)
    (h : (build ctx callback p).code = some code) (hp : (build ctx callback p).panic = none) :
    ∀ (i : Nat) (A : List Nat), Reaches (analyzePropertyDependency code).1 i A →
      ∃ (b : BasicBlock) (t : Terminator), (analyzePropertyDependency code).1.blocks[i]? = some b ∧ b.terminator = some t ∧
        t ≠ Terminator.unreachable ∧
        (∀ j ∈ successors b.terminator, j < (analyzePropertyDependency code).1.blocks.length) ∧
        (∀ (k : Nat) (s : Statement), b.statements[k]? = some s →
          ∀ x ∈ stmtReads s, x ∉ (build ctx callback p).userUninit → x ∈ defsOf (b.statements.take k) ++ A) ∧
        (∀ x ∈ termReads t, x ∉ (build ctx callback p).userUninit → x ∈ defsOf b.statements ++ A) :=
  analyze_keeps_semOk (fun x => x ∈ (build ctx callback p).userUninit) code
    (build_passes_check_semantic ctx callback p code h hp)

/-- in particular: **the sender local of every inserted observe statement is assigned on every path before it** -/
theorem build_analyze_observe_sender_assigned (ctx : Ctx) (callback : Bool) (p : Program) (code : CodeBody)
    (h : (build ctx callback p).code = some code) (hp : (build ctx callback p).panic = none)
    (i : Nat) (A : List Nat) (hr : Reaches (analyzePropertyDependency code).1 i A) (b : BasicBlock)
    (hb : (analyzePropertyDependency code).1.blocks[i]? = some b) (k : Nat) (o l : Nat) (sig : MethodInfo)
    (hk : b.statements[k]? = some (.observeProperty o l sig)) (hu : l ∉ (build ctx callback p).userUninit) :
    l ∈ defsOf (b.statements.take k) ++ A := by
  obtain ⟨b0, t, hb0, _, _, _, hst, _⟩ := build_analyze_passes_check_semantic ctx callback p code h hp i A hr
  rw [hb] at hb0
  cases hb0
  exact hst k _ hk l (by simp [stmtReads]) hu

end QV.Props.C06
