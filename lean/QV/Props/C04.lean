/-
  C04 — Every binding is embedded, generated, or diagnosed; errors write nothing.

  Model : QV.Model.Passes — the pass structure of `uigen::build` at the level of binding fates (code maps, constant
          pass with the lazily initialised evaluation cells, left-over attached check, mode switch) and
          `generate_ui_file`.
  Tables: QV.Gen.PseudoProps — the exclude lists and special look-ups, regenerated from the source on every run.
  Tie   : stream `c04` (per-binding fate, diagnostics and evaluated-constant flags of the real pipeline vs the model;
          ledger oracle on the real .ui and header; CLI runs for the error clause).
-/
import QV.Proofs.Passes
import QV.Proofs.PassesOwnership
import QV.Gen.PseudoProps

namespace QV.Props.C04
open QV.Model.Passes QV.Proofs.Passes

/-! ### the regenerated tables -/

/-- the exclude lists the model uses are the ones written in the source today -/
theorem pseudo_tables_agree :
    QV.Gen.PseudoProps.widgetPseudo.map String.toList = widgetPseudo
    ∧ QV.Gen.PseudoProps.tableViewPseudo.map String.toList = tableViewPseudo
    ∧ QV.Gen.PseudoProps.treeViewPseudo.map String.toList = treeViewPseudo
    ∧ QV.Gen.PseudoProps.actionPseudo.map String.toList = actionPseudo
    ∧ QV.Gen.PseudoProps.gridLayoutPseudo.map String.toList = gridLayoutPseudo
    ∧ QV.Gen.PseudoProps.otherLayoutPseudo = []
    ∧ QV.Gen.PseudoProps.spacerPseudo = []
    ∧ QV.Gen.PseudoProps.genericGadgetExcludes = []
    ∧ QV.Gen.PseudoProps.sizePolicyKnown.map String.toList = sizePolicyKnown
    ∧ QV.Gen.PseudoProps.brushExcludes.map String.toList = brushExcludes
    ∧ QV.Gen.PseudoProps.iconExcludes.map String.toList = iconExcludes := by
  decide

/-- every name excluded from the generic pass of a widget / grid layout is looked up by a special consumer -/
theorem excluded_names_are_looked_up :
    (∀ n ∈ QV.Gen.PseudoProps.widgetPseudo, n ∈ QV.Gen.PseudoProps.widgetLookups)
    ∧ (∀ n ∈ QV.Gen.PseudoProps.tableViewPseudo ++ QV.Gen.PseudoProps.treeViewPseudo, n ∈ QV.Gen.PseudoProps.headerLookups)
    ∧ (∀ n ∈ QV.Gen.PseudoProps.gridLayoutPseudo, n ∈ QV.Gen.PseudoProps.layoutFlowLookups) := by
  decide

/-- the routing of the model excludes exactly the listed names from the generic pass of a widget -/
theorem widget_route_excludes (o : Obj) (sole : Bool) (l : Leaf) :
    propLeafRoute .widget o sole l ≠ .ser ↔
      (l.name ∈ widgetPseudo ∨ (o.tableView = true ∧ l.name ∈ tableViewPseudo) ∨ (o.treeView = true ∧ l.name ∈ treeViewPseudo)) := by
  rcases tagOf_spec l.name with ⟨hn, _⟩ | ⟨hn, _⟩ | ⟨hn, _⟩ | ⟨hn, _⟩ | ⟨hn, _⟩ | ⟨hn, _⟩ | ⟨hn, _⟩ | ⟨hn, _⟩ |
    ⟨hn, _⟩ | ⟨ht, h1, h2, _, _, _, _, h7, h8, h9⟩
  case inr.inr.inr.inr.inr.inr.inr.inr.inr =>
    simp only [propLeafRoute, ht, widgetPseudo, tableViewPseudo, treeViewPseudo, List.mem_cons, List.not_mem_nil,
      or_false]
    constructor
    · intro h; exact absurd rfl h
    · rintro ((h | h) | ⟨_, h | h⟩ | ⟨_, h⟩) <;> contradiction
  all_goals
    simp only [propLeafRoute, hn]
    cases o.tableView <;> cases o.treeView <;> cases o.comboOrList <;> decide

/-! ### the evaluation cache partitions the top-level bindings -/

/-- the cached evaluation flag partitions the top-level property bindings: the C++ pass and the reject pass take
    exactly the ones that are not evaluated constants, and every one they take yields a binding or a diagnostic -/
theorem cache_partitions (e : EntryOut) :
    (e.evalConst = true → cxxEntry e = {}) ∧
    (e.evalConst = false → (cxxEntry e).bindings ≠ [] ∨ (cxxEntry e).diags ≠ []) ∧
    (rejectEntry e = [] ↔ e.evalConst = true) := by
  refine ⟨?_, ?_, ?_⟩
  · intro h; simp [cxxEntry, h]
  · intro h
    unfold cxxEntry
    rw [if_neg (by simp [h])]
    cases e with
    | leaf l o ex =>
      simp only []
      split <;> simp
    | group g o =>
      simp only []
      split
      · simp
      · split
        · simp
        · split <;> simp
  · unfold rejectEntry
    cases e <;> cases h : EntryOut.evalConst _ <;> simp

/-! ### every binding is embedded, generated, or diagnosed -/

/-- the two places where the constant pass evaluates a constant, converts it, and then uses it nowhere without a
    diagnostic: `QAction { separator: false }` as the action's only binding, and an `actions` value that is not an
    object list -/
def NoSilentDrop (doc : Forest) : Prop :=
  ∀ o ∈ objs doc, ∀ l, Entry.leaf l ∈ o.entries →
    ¬ (o.isAction = true ∧ tagOf l.name = .separator ∧ l.const = some (.ok 0)) ∧
    ¬ (tagOf l.name = .actions ∧ l.shapeOk = false)

/-- generate-mode results with objects, taken apart -/
theorem run_generate_parts (doc : Forest) (s : Support) (hs : (run .generate doc).support = some s)
    (hne : (run .generate doc).objects ≠ [] ∨ (run .generate doc).built = true) :
    (run .generate doc).objects = (place .root doc).1
    ∧ (run .generate doc).panic = anyPanic (place .root doc).1
    ∧ (run .generate doc).diags
        = commonDiags (place .root doc).1 (place .root doc).2 ++ (cxxAll (place .root doc).1).diags
    ∧ s.generated = (cxxAll (place .root doc).1).generated
    ∧ s.repeated = (cxxAll (place .root doc).1).repeated := by
  have hshape := run_generate_shape doc hne
  rw [hshape] at hs
  simp only [Option.some.injEq] at hs
  subst hs
  rw [hshape]
  exact ⟨rfl, rfl, rfl, rfl, rfl⟩

/-- in generate mode every scalar binding that entered a code map is embedded in the form, or has update code in the
    header, or has an error diagnostic attributed to it or to its enclosing group (or the run panics) -/
theorem diagnosed_not_silently_dropped (doc : Forest) (hd : NoSilentDrop doc) (s : Support)
    (hs : (run .generate doc).support = some s) :
    ∀ p ∈ (run .generate doc).objects,
      (∀ e ∈ p.props, ∀ x ∈ e.leafOuts,
          x.2.panic = true ∨ x.2.emb.isSome = true ∨ x ∈ s.generated ∨
          ∃ d ∈ (run .generate doc).diags, d.subj = x.1.id ∨ d.subj = entryId e)
      ∧ (∀ e ∈ p.attached.flatten, ∀ x ∈ e.leafOuts,
          x.2.panic = true ∨ x.2.emb.isSome = true ∨
          ∃ d ∈ (run .generate doc).diags, d.subj = x.1.id ∨ d.subj = entryId e) := by
  intro p hp
  obtain ⟨hobj, _, hdiags, hgen, _⟩ := run_generate_parts doc s hs (Or.inl (List.ne_nil_of_mem hp))
  rw [hobj] at hp
  rw [hdiags, hgen]
  obtain ⟨reach', hc, o, ho, hpe⟩ := place_mem doc .root p hp
  constructor
  · intro e he x hx
    have hfate : Fate e x := by
      rw [hpe] at he
      exact placeOne_props_fate reach' o hc (hd o ho) e he x hx
    rcases hfate with h | h | ⟨d, hd', hsub⟩ | ⟨hec, hxc⟩
    · exact Or.inl h
    · exact Or.inr (Or.inl h)
    · refine Or.inr (Or.inr (Or.inr ⟨d, List.mem_append_left _ ?_, hsub⟩))
      exact mem_commonDiags_of_entry _ _ p hp e (by simp [Placed.allOuts, he]) d hd'
    · rcases cxxEntry_fate e hec x hx hxc with h | ⟨d, hd', hsub⟩
      · exact Or.inr (Or.inr (Or.inl ((mem_cxxAll_generated _ _).2 ⟨p, hp, e, he, h⟩)))
      · exact Or.inr (Or.inr (Or.inr ⟨d, List.mem_append_right _ ((mem_cxxAll_diags _ _).2 ⟨p, hp, e, he, hd'⟩), hsub⟩))
  · intro e he x hx
    have hfate : Fate e x := by
      rw [hpe] at he
      exact placeOne_attached_fate reach' o hc e he x hx
    rcases hfate with h | h | ⟨d, hd', hsub⟩ | ⟨hec, _⟩
    · exact Or.inl h
    · exact Or.inr (Or.inl h)
    · refine Or.inr (Or.inr ⟨d, List.mem_append_left _ ?_, hsub⟩)
      exact mem_commonDiags_of_entry _ _ p hp e (by simp [Placed.allOuts, he]) d hd'
    · exact Or.inr (Or.inr ⟨⟨entryId e, .leftover⟩,
        List.mem_append_left _ (mem_commonDiags_of_leftover _ _ p hp e he hec), Or.inr rfl⟩)

/-! ### ownership: embedded or generated, in exactly one place -/

theorem accepted_parts (r : Result) (h : r.accepted = true) : r.built = true ∧ r.panic = false ∧ r.diags = [] := by
  simpa [Result.accepted, and_assoc] using h

/-- a constant member is repeated in the header only with the value that is embedded in the form, and only when its
    group has a dynamic member that has update code -/
theorem repeated_sound (doc : Forest) (s : Support) (hs : (run .generate doc).support = some s)
    (hacc : (run .generate doc).accepted = true) :
    ∀ x ∈ s.repeated,
      x.2.emb.isSome = true ∧ (∃ v, x.1.const = some (.ok v) ∧ x.2.emb = some v) ∧
      ∃ p' ∈ (run .generate doc).objects, ∃ e ∈ p'.props, x ∈ e.leafOuts ∧
        ∃ y ∈ e.leafOuts, y ∈ s.generated ∧ y.1.const = none := by
  intro x hx
  obtain ⟨hb, hpan, hdg⟩ := accepted_parts _ hacc
  obtain ⟨hobj, hpanic, hdiags, hgen, hrep⟩ := run_generate_parts doc s hs (Or.inr hb)
  rw [hrep] at hx
  rw [hobj, hgen]
  obtain ⟨p', hp', e, he, hxe⟩ := (mem_cxxAll_repeated _ _).1 hx
  obtain ⟨hec, hxl, hxc⟩ := mem_cxxEntry_repeated e x hxe
  obtain ⟨reach', hc, o, ho, hpe⟩ := place_mem doc .root p' hp'
  have hprod : Produced e := placeOne_props_produced reach' o hc e (hpe ▸ he)
  have heo : e ∈ p'.allOuts := by simp [Placed.allOuts, he]
  have hnod : ∀ d, d ∉ commonDiags (place .root doc).1 (place .root doc).2 ++ (cxxAll (place .root doc).1).diags := by
    rw [← hdiags, hdg]; simp
  have hed : ∀ d, d ∉ e.diags := fun d hd' =>
    hnod d (List.mem_append_left _ (mem_commonDiags_of_entry _ _ p' hp' e heo d hd'))
  have hcd : ∀ d, d ∉ (cxxEntry e).diags := fun d hd' =>
    hnod d (List.mem_append_right _ ((mem_cxxAll_diags _ _).2 ⟨p', hp', e, he, hd'⟩))
  have hnp : ∀ y ∈ e.leafOuts, y.2.panic = false := fun y hy =>
    anyPanic_false _ (hpanic ▸ hpan) p' hp' e heo y hy
  cases hprod with
  | leaf r l extra =>
    simp only [EntryOut.leafOuts, List.mem_singleton] at hxl
    subst hxl
    simp only [EntryOut.evalConst] at hec
    rw [hec] at hxc; cases hxc
  | group gr g =>
    have hemb : x.2.emb.isSome = true := by
      rcases group_fate gr g x hxl with h | h | ⟨d, hd', _⟩ | ⟨_, h⟩
      · rw [hnp x hxl] at h; cases h
      · exact h
      · exact absurd hd' (hed d)
      · rw [hxc] at h; cases h
    obtain ⟨v, hv⟩ := Option.isSome_iff_exists.1 hemb
    obtain ⟨hxev, hxconst⟩ := Produced.emb (.group gr g) hxl v hv
    refine ⟨hemb, ⟨v, hxconst, hv⟩, p', hp', _, he, hxl, ?_⟩
    have hy : ∃ y ∈ (EntryOut.group g (constGroup gr g)).leafOuts, y.2.evalConst y.1 = false := by
      simpa [EntryOut.evalConst, EntryOut.leafOuts] using hec
    obtain ⟨y, hyl, hyc⟩ := hy
    refine ⟨y, hyl, ?_, ?_⟩
    · rcases cxxEntry_fate _ hec y hyl hyc with h | ⟨d, hd', _⟩
      · exact (mem_cxxAll_generated _ _).2 ⟨p', hp', _, he, h⟩
      · exact absurd hd' (hcd d)
    · have hu := group_uniform gr g (List.eq_nil_iff_forall_not_mem.2 hed) x hxl y hyl
      rw [hxev] at hu
      simp only [LeafOut.evalConst, ← hu, Bool.true_and, Leaf.isConst] at hyc
      cases hcst : y.1.const with
      | none => rfl
      | some c => rw [hcst] at hyc; cases hyc

/-- a scalar binding is never both embedded and generated (no hypothesis on the document or on the outcome) -/
theorem embedded_generated_exclusive (doc : Forest) (s : Support) (hs : (run .generate doc).support = some s) :
    ∀ p ∈ (run .generate doc).objects, ∀ e ∈ p.allOuts, ∀ x ∈ e.leafOuts,
      ¬ (x.2.emb.isSome = true ∧ x ∈ s.generated) := by
  intro p hp e he x hx ⟨hemb, hg⟩
  obtain ⟨hobj, _, _, hgen, _⟩ := run_generate_parts doc s hs (Or.inl (List.ne_nil_of_mem hp))
  rw [hobj] at hp
  rw [hgen] at hg
  obtain ⟨reach', hc, o, ho, hpe⟩ := place_mem doc .root p hp
  have hprod : Produced e := placeOne_produced reach' o hc e (hpe ▸ he)
  obtain ⟨v, hv⟩ := Option.isSome_iff_exists.1 hemb
  obtain ⟨h1, h2⟩ := hprod.emb hx v hv
  obtain ⟨p', _, e', _, hxe'⟩ := (mem_cxxAll_generated _ _).1 hg
  have := (mem_cxxEntry_generated e' x hxe').2
  simp [LeafOut.evalConst, Leaf.isConst, h1, h2] at this

/-- **ownership, total on documents without the two silent drops**: in an accepted generate-mode run every scalar
    binding of a top-level property is in exactly one place — embedded in the form or generated in the header, never in
    neither and never in both; a constant is repeated in the header only next to a dynamic member of its group and with
    the embedded value; every attached binding is embedded -/
theorem ownership_total_partial (doc : Forest) (hd : NoSilentDrop doc) (s : Support)
    (hs : (run .generate doc).support = some s) (hacc : (run .generate doc).accepted = true) :
    ∀ p ∈ (run .generate doc).objects,
      (∀ e ∈ p.props, ∀ x ∈ e.leafOuts,
          (x.2.emb.isSome = true ∨ x ∈ s.generated) ∧ ¬ (x.2.emb.isSome = true ∧ x ∈ s.generated))
      ∧ (∀ e ∈ p.props, ∀ x ∈ e.leafOuts, x ∈ s.repeated →
          x.2.emb.isSome = true ∧ (∃ v, x.1.const = some (.ok v) ∧ x.2.emb = some v) ∧
          ∃ p' ∈ (run .generate doc).objects, ∃ e' ∈ p'.props, x ∈ e'.leafOuts ∧
            ∃ y ∈ e'.leafOuts, y ∈ s.generated ∧ y.1.const = none)
      ∧ (∀ e ∈ p.attached.flatten, ∀ x ∈ e.leafOuts, x.2.emb.isSome = true) := by
  intro p hp
  obtain ⟨hb, hpan, hdg⟩ := accepted_parts _ hacc
  obtain ⟨hobj, hpanic, _, _, _⟩ := run_generate_parts doc s hs (Or.inr hb)
  obtain ⟨h3a, h3c⟩ := diagnosed_not_silently_dropped doc hd s hs p hp
  have hnp : ∀ e ∈ p.allOuts, ∀ x ∈ e.leafOuts, x.2.panic = false := fun e he x hx =>
    anyPanic_false _ (hpanic ▸ hpan) p (hobj ▸ hp) e he x hx
  refine ⟨?_, ?_, ?_⟩
  · intro e he x hx
    have heo : e ∈ p.allOuts := by simp [Placed.allOuts, he]
    refine ⟨?_, embedded_generated_exclusive doc s hs p hp e heo x hx⟩
    rcases h3a e he x hx with h | h | h | ⟨d, hd', _⟩
    · rw [hnp e heo x hx] at h; cases h
    · exact Or.inl h
    · exact Or.inr h
    · rw [hdg] at hd'; cases hd'
  · intro e _ x _ hr
    exact repeated_sound doc s hs hacc x hr
  · intro e he x hx
    have heo : e ∈ p.allOuts := by simp [Placed.allOuts, he]
    rcases h3c e he x hx with h | h | ⟨d, hd', _⟩
    · rw [hnp e heo x hx] at h; cases h
    · exact h
    · rw [hdg] at hd'; cases hd'

/-- statement (a) of `ownership_total_partial` without the hypothesis `NoSilentDrop` -/
def ownership_full_statement : Prop :=
  ∀ (doc : Forest) (s : Support), (run .generate doc).support = some s → (run .generate doc).accepted = true →
    ∀ p ∈ (run .generate doc).objects, ∀ e ∈ p.props, ∀ x ∈ e.leafOuts,
      (x.2.emb.isSome = true ∨ x ∈ s.generated) ∧ ¬ (x.2.emb.isSome = true ∧ x ∈ s.generated)

/-- `QWidget { QAction { separator: false } }` -/
def separatorFalseDoc : Forest :=
  .cons { oid := 0, isWidget := true }
    (.cons { oid := 1, isAction := true,
             entries := [.leaf { id := 10, name := "separator".toList, const := some (.ok 0) }] } .nil .nil)
    .nil

/-- the witness is accepted, its binding is evaluated, not embedded, and nothing is generated -/
theorem separatorFalse_facts :
    (run .generate separatorFalseDoc).accepted = true
    ∧ (run .generate separatorFalseDoc).support = some ⟨[], [], [], []⟩
    ∧ (run .generate separatorFalseDoc).objects.map (fun p => p.props.flatMap (·.leafOuts))
        = [[], [({ id := 10, name := "separator".toList, const := some (.ok 0) },
                 { id := 10, evaluated := true, emb := none, diags := [], panic := false })]] := by
  decide

/-- the ownership statement is false without `NoSilentDrop` (finding F18): `separator: false` as the sole binding of
    an action is evaluated, not embedded, not generated and not diagnosed -/
theorem ownership_full_refuted : ¬ ownership_full_statement := by
  intro h
  have h' := h separatorFalseDoc ⟨[], [], [], []⟩ (by decide) (by decide)
    (placeOne .obj { oid := 1, isAction := true,
                     entries := [.leaf { id := 10, name := "separator".toList, const := some (.ok 0) }] } false)
    (by decide)
    (.leaf { id := 10, name := "separator".toList, const := some (.ok 0) }
           { id := 10, evaluated := true, emb := none, diags := [], panic := false } [])
    (by decide)
    ({ id := 10, name := "separator".toList, const := some (.ok 0) },
     { id := 10, evaluated := true, emb := none, diags := [], panic := false })
    (by decide)
  exact absurd h'.1 (by decide)

/-- `QWidget { actions: 1 }`: a constant `actions` value that is not an object list -/
def actionsNotListDoc : Forest :=
  .cons { oid := 0, isWidget := true,
          entries := [.leaf { id := 10, name := "actions".toList, const := some (.ok 1), shapeOk := false }] }
        .nil .nil

/-- the second silent drop is real as well: the document is accepted, its binding is evaluated, not embedded, not
    generated and not diagnosed — both clauses of `NoSilentDrop` are needed -/
theorem actionsNotList_facts :
    (run .generate actionsNotListDoc).accepted = true
    ∧ (run .generate actionsNotListDoc).support = some ⟨[], [], [], []⟩
    ∧ (run .generate actionsNotListDoc).objects.map
          (fun p => (leafOutsOf p).map fun x => (x.1.id, x.2.evaluated, x.2.emb))
        = [[(10, true, none)]] := by
  decide

/-! ### non-vacuity -/

/-- a constant, a dynamic binding and a font group with one dynamic and one constant member -/
def mixedDoc : Forest :=
  .cons { oid := 0, isWidget := true,
          entries := [ .leaf { id := 10, name := "windowTitle".toList, const := some (.ok 7) },
                       .leaf { id := 11, name := "enabled".toList },
                       .group { id := 12, name := "font".toList, kind := .generic,
                                members := [ { id := 13, name := "pointSize".toList },
                                             { id := 14, name := "bold".toList, const := some (.ok 1) } ] } ] }
        .nil .nil

example : NoSilentDrop mixedDoc := by
  intro o ho l hl
  simp only [mixedDoc, objs, List.append_nil, List.mem_singleton] at ho
  subst ho
  simp only [List.mem_cons, List.not_mem_nil, or_false, Entry.leaf.injEq, reduceCtorEq] at hl
  rcases hl with rfl | rfl <;> decide

/-- accepted; the constant is embedded, the dynamic binding and the dynamic member are generated, the constant member is
    both embedded and repeated -/
example :
    (run .generate mixedDoc).accepted = true
    ∧ (run .generate mixedDoc).objects.map (fun p => (leafOutsOf p).map fun x => (x.1.id, x.2.emb))
        = [[(10, some 7), (11, none), (13, none), (14, some 1)]]
    ∧ (run .generate mixedDoc).support.map (fun s => (s.bindings, s.generated.map (·.1.id), s.repeated.map (·.1.id)))
        = some ([11, 12], [11, 13], [14]) := by
  decide

/-- a constant whose conversion fails: diagnosed, not accepted, nothing written -/
def failDoc : Forest :=
  .cons { oid := 0, isWidget := true,
          entries := [ .leaf { id := 10, name := "windowTitle".toList, const := some .fail } ] } .nil .nil

example :
    (run .generate failDoc).accepted = false ∧ (run .generate failDoc).diags = [⟨10, .convert⟩]
    ∧ generateUiFile 0 (run .generate failDoc) = ([], false) := by
  decide

/-- a dynamic binding in reject mode -/
example :
    (run .reject (.cons { oid := 0, isWidget := true, entries := [.leaf { id := 10, name := "enabled".toList }] }
        .nil .nil)).accepted = false := by
  decide

/-! ### errors write nothing -/

theorem error_writes_nothing (source : Nat) (r : Result) (h : r.diags ≠ []) : generateUiFile source r = ([], false) := by
  simp [generateUiFile, h]

theorem generateUi_writes_only_accepted (srcs : List (Nat × Result)) :
    ∀ op ∈ (generateUi srcs).1, ∃ sr ∈ srcs, sr.2.accepted = true ∧ (op = .ui sr.1 ∨ op = .header sr.1) := by
  induction srcs with
  | nil => simp [generateUi]
  | cons sr rest ih =>
    obtain ⟨s, r⟩ := sr
    intro op hop
    unfold generateUi at hop
    split at hop
    · simp at hop
    · simp only [List.mem_append] at hop
      rcases hop with hop | hop
      · refine ⟨(s, r), by simp, ?_⟩
        unfold generateUiFile at hop
        split at hop
        · rename_i hc
          refine ⟨by simpa [Result.accepted] using hc, ?_⟩
          simp only [List.mem_cons] at hop
          rcases hop with hop | hop
          · exact Or.inl hop
          · split at hop <;> simp at hop
            exact Or.inr hop
        · simp at hop
      · obtain ⟨sr, hsr, h⟩ := ih op hop
        exact ⟨sr, by simp [hsr], h⟩

theorem generateUi_exit_status (srcs : List (Nat × Result)) :
    (∃ sr ∈ srcs, sr.2.accepted = false) → (generateUi srcs).2 = false := by
  induction srcs with
  | nil => simp
  | cons sr rest ih =>
    obtain ⟨s, r⟩ := sr
    rintro ⟨sr, hsr, hacc⟩
    unfold generateUi
    split
    · rfl
    · simp only [List.mem_cons] at hsr
      rcases hsr with rfl | hsr
      · have : (generateUiFile s r).2 = false := by
          unfold generateUiFile
          simp only [Result.accepted] at hacc
          simp [hacc]
        simp [this]
      · simp [ih ⟨sr, hsr, hacc⟩]

#print axioms widget_route_excludes
#print axioms cache_partitions
#print axioms diagnosed_not_silently_dropped
#print axioms repeated_sound
#print axioms embedded_generated_exclusive
#print axioms ownership_total_partial
#print axioms ownership_full_refuted
#print axioms error_writes_nothing
#print axioms generateUi_writes_only_accepted
#print axioms generateUi_exit_status

end QV.Props.C04
