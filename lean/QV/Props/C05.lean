/-
  C05 — static typing discipline: ill-typed programs are rejected, valid ones accepted.

  The specification is `QV.Spec.Typing` (the rules of docs/language.md as a declarative checker; its header lists the
  20 decisions D1–D20 taken where the documentation is silent) and `QV.Spec.IrTyping` (typing of the IR).

  (a) PER-RULE CHARACTERISATIONS of the checker's model (QV.Model.Types/Builder/Ceval = typeutil.rs, tir/builder.rs,
      tir/ceval.rs; QV.Model.TypeCheck = the checks of uigen after tir::build), for all inputs:
      * `is_assignable_iff`, `is_assignable_never_converts`   identity, object upcast, enum/flags alias, literal adoption —
                                                              never a static cast, never int↔double, int↔uint, bool↔int …
      * `deduce_type_iff`, `deduce_concrete_type_iff`         "one common type", no upcast to a common base
      * `pick_type_cast_is_the_cast_table`                    `as` = the documented table and nothing else
      * `operator_tokens`                                      which JS operators exist
      * `dynamic_unary_iff`/`dynamic_unary_type`, `dynamic_binary_iff`/`dynamic_binary_type`
                                                              emit_unary/binary_expression accept ↔ the table admits, same type
      * `constant_unary_iff`/`constant_unary_type`, `constant_binary_iff`/`constant_binary_type`
                                                              the same for the constant folder (value errors are not type errors)
      * `const_dyn_consistent`, `const_dyn_consistent_unary`  CONSISTENCY of the two paths, with the exact exceptions:
        `qstring_constants_overrejected` (finding F33, known), `i64min_rem_overrejected` (a value), `null_eq_null_paths`
        (`null == null` exists on the constant path only).  The former fourth exception, `null < null` folded although
        pointers are not ordered (finding F30), was repaired by 9ae7b5c: `null_ordering_rejected`
      * `verify_code_return_type_iff`, `verify_callback_parameter_type_iff`   rules D16 and D18
  (b) SOUNDNESS of the model w.r.t. the specification (accepted ⇒ typed), for all inputs, no exclusion:
      * `model_sound_expr`, `model_sound_expr_list`: EVERY expression the walk accepts is typed by the specification with
        exactly the type of the operand the walk produced (all expression forms; since the repair of F30 without the
        former `null < null` exclusion; the assignment case follows the repaired order 5ccd31a: left-hand side first)
      * `model_sound_stmt`, `model_sound_stmts`: EVERY statement (list) the walk accepts is accepted by the specification's
        statement checker — expressions typed, `let`/`const` per D14 with the declared or deduced type and an assignable
        initial value, conditions bool, `case` values comparable with the discriminant, `break` only in a switch — and
        afterwards the walk's map of local names agrees with the specification's scope: JavaScript block scoping (D15),
        which holds since the repairs a011e08 (finding F32, `if` branches) and 2a702d4 (finding F40, `switch` clauses):
        `declared_in_block_branch_or_clause_not_visible_after`
      * from the top: `binding_expression_sound`, `program_statements_sound` (tir::build / build_callback produce code ⇒
        statement checker accepts), `callback_statement_sound` (accepted callback statement ⇒ `wellTyped`),
        `binding_sound_up_to_result_clause` (accepted binding ⇒ the specification finds no error except possibly in the
        RESULT clause D16)
      `model_sound_full_statement` (accepted ⇒ not ill-typed, for whole bindings and callbacks) is neither refuted any more
      (its F30 and F32/F40 witnesses are repaired) nor proved completely: open are (i) the result clause of a binding — the
      checker decides it on the return terminators of the IR after finalize_completion_values (`verify_code_return_type_iff`),
      the specification on the `return`s and tail expressions of the source; no theorem connects the two — and (ii) the
      parameters of a callback FUNCTION against the signal (D18: needs the invariant that the body leaves
      `parameter_count` alone).  Both are covered by the c05 stream (spec verdict vs real compiler on ~6 650 programs per
      quick run, model verdict vs real compiler on all of them).
  (c) non-vacuity: examples at the end.
-/
import QV.Proofs.TypingRules
import QV.Proofs.TypingConst
import QV.Proofs.TypingChecks
import QV.Proofs.TypingSound2
import QV.Proofs.TypingStmt

set_option linter.unusedSimpArgs false

namespace QV.Props.C05
open QV.Model QV.Spec.Typing QV.Proofs.TypingRules QV.Proofs.TypingConst QV.Proofs.TypingChecks QV.Proofs.TypingSound

/-! ## (a) per-rule characterisations -/

/-- `is_assignable` admits exactly: the same type; a pointer to a derived class where a pointer to a base is expected;
    an enum and its QFlags alias; an integer literal for int/uint; a string literal for QString; `null` for a pointer;
    `[]` for a list -/
theorem is_assignable_iff (env : Env) (e : TypeKind) (a : TypeDesc) :
    isAssignable env e a = true ↔
      a = .concrete e ∨
      (∃ d b, a = .concrete (.pointer (.cls d)) ∧ e = .pointer (.cls b) ∧ env.derives d b = true) ∨
      (∃ x y, a = .concrete (.just (.enum x)) ∧ e = .just (.enum y) ∧ env.enumCompat x y = true) ∨
      (a = .constInteger ∧ (e = .int ∨ e = .uint)) ∨
      (a = .constString ∧ e = .string) ∨
      (a = .nullPointer ∧ ∃ n, e = .pointer n) ∨
      (a = .emptyList ∧ ∃ t, e = .list t) :=
  isAssignable_iff env e a

theorem is_assignable_eq_spec (env : Env) (e : TypeKind) (a : TypeDesc) : isAssignable env e a = assignable env e a :=
  isAssignable_eq env e a

/-- no implicit conversion between distinct primitive types, in particular int and double are never mixed; an
    assignable value never needs a static cast or a QVariant extraction -/
theorem is_assignable_never_converts (env : Env) :
    isAssignable env .double .int = false ∧ isAssignable env .int .double = false ∧
    isAssignable env .uint .int = false ∧ isAssignable env .int .uint = false ∧
    isAssignable env .int .bool = false ∧ isAssignable env .bool .int = false ∧
    isAssignable env .string .int = false ∧ isAssignable env .double .constInteger = false ∧
    isAssignable env .bool .constInteger = false ∧ isAssignable env .int (.concrete .variant) = false ∧
    (∀ e a, isAssignable env e a = true → castKind env e a = some .assign) := by
  refine ⟨?_, ?_, ?_, ?_, ?_, ?_, ?_, ?_, ?_, ?_, ?_⟩
  all_goals first
    | (simp [isAssignable_eq, assignable, litFits, intK, TypeDesc.int, TypeDesc.double, TypeDesc.uint, TypeDesc.bool,
        TypeKind.int, TypeKind.uint, TypeKind.double, TypeKind.bool, TypeKind.string, TypeKind.variant]; done)
    | (intro e a h; rw [isAssignable_eq] at h; simp [castKind, h])

/-- `deduce_type` succeeds exactly on pairs with one common type (D1, D3, D4: no upcast to a common base) -/
theorem deduce_type_iff (env : Env) (l r t : TypeDesc) : deduceType env l r = .ok t ↔ common env l r = some t := by
  rw [deduceType_eq]
  cases common env l r <;> simp

theorem deduce_concrete_type_iff (env : Env) (l r : TypeDesc) (k : TypeKind) :
    deduceConcreteType env l r = .ok k ↔ commonConcrete env l r = some k :=
  deduceConcreteType_ok_iff env l r k

/-- `VDerived*` and `VBase*` have no common type, in either order, even when one derives from the other -/
theorem no_common_base (env : Env) (d b : String) (h : d ≠ b) :
    common env (.concrete (.pointer (.cls d))) (.concrete (.pointer (.cls b))) = none := by
  simp [common, h]

/-- `pick_type_cast` realises exactly the specification's cast table: `noop`/`implicit` for what is assignable,
    `static_cast` for the numeric casts (int/uint/double, enum → integer, bool → integer, integer literal → double)
    and for `as void`, `QVariant::value` for a QVariant source, and `invalid` for everything else -/
theorem pick_type_cast_is_the_cast_table (env : Env) (e : TypeKind) (a : TypeDesc) :
    realises (castKind env e a) (pickTypeCast env e a) :=
  pickTypeCast_table env e a

theorem pick_type_cast_invalid_iff (env : Env) (e : TypeKind) (a : TypeDesc) :
    pickTypeCast env e a = .invalid ↔ castable env e a = false :=
  pickTypeCast_invalid_iff env e a

/-- casts that do NOT exist: integer → bool, integer → enum, double ↔ enum, bool → double, QString ↔ number,
    pointer downcast and cross cast -/
theorem casts_that_do_not_exist (env : Env) (x : String) (d b : String) (h : env.derives b d = false) (hne : d ≠ b) :
    castable env .bool .int = false ∧ castable env (.just (.enum x)) .int = false ∧
    castable env (.just (.enum x)) .double = false ∧ castable env .double (.concrete (.just (.enum x))) = false ∧
    castable env .double .bool = false ∧ castable env .int .string = false ∧ castable env .string .int = false ∧
    castable env (.pointer (.cls d)) (.concrete (.pointer (.cls b))) = false := by
  refine ⟨?_, ?_, ?_, ?_, ?_, ?_, ?_, ?_⟩
  all_goals
    simp [castable, castKind, assignable, numK, intK, enumK, subclass_eq, h, hne, Ne.symm hne, TypeDesc.int, TypeDesc.double,
      TypeDesc.bool, TypeDesc.string, TypeKind.int, TypeKind.uint, TypeKind.double, TypeKind.bool, TypeKind.string,
      TypeKind.void, TypeKind.variant]

/-- which operator tokens exist: the tables of opcode.rs are the specification's -/
theorem operator_tokens : (∀ t, UnaryToken.toOp t = unaryOf t) ∧ (∀ t, BinaryToken.toOp t = binaryOf t) :=
  ⟨fun t => (unaryOf_eq t).symm, fun t => (binaryOf_eq t).symm⟩

/-- dynamic path, unary: accepted ↔ the specification's table admits the operand type -/
theorem dynamic_unary_iff (b : Builder) (op : UnaryOp) (a : Operand) :
    okB (emitUnaryExpression b op a) = (unaryType op a.typeDesc).isSome :=
  emitUnary_okB b op a

theorem dynamic_unary_type (b : Builder) (op : UnaryOp) (a res : Operand) (b' : Builder)
    (h : emitUnaryExpression b op a = .ok (res, b')) :
    ∃ t k, unaryType op a.typeDesc = some t ∧ concreteOf t = some k ∧ res.typeDesc = .concrete k :=
  emitUnary_type b op a res b' h

/-- dynamic path, binary (`&&`/`||` are lowered elsewhere; two `null` literals are constants): accepted ↔ the table
    admits the pair of operand types -/
theorem dynamic_binary_iff (env : Env) (b : Builder) (op : BinaryOp) (l r : Operand) (hlog : ∀ o, op ≠ .logical o)
    (hnn : ¬ (l.typeDesc = .nullPointer ∧ r.typeDesc = .nullPointer)) :
    okB (emitBinaryExpression env b op l r) = (binaryType env op l.typeDesc r.typeDesc).isSome :=
  emitBinary_okB env b op l r hlog hnn

theorem dynamic_binary_type (env : Env) (b : Builder) (op : BinaryOp) (l r : Operand) (hlog : ∀ o, op ≠ .logical o)
    (hnn : ¬ (l.typeDesc = .nullPointer ∧ r.typeDesc = .nullPointer)) (res : Operand) (b' : Builder)
    (h : emitBinaryExpression env b op l r = .ok (res, b')) :
    ∃ t k, binaryType env op l.typeDesc r.typeDesc = some t ∧ concreteOf t = some k ∧ res.typeDesc = .concrete k :=
  emitBinary_type env b op l r hlog hnn res b' h

/-- constant path, unary: no type error ↔ the table admits; and the folded constant has the table's type -/
theorem constant_unary_iff (F : FloatOps) (op : UnaryOp) (a : ConstantValue) :
    typeOkB (cevalUnary F op a) = (unaryType op a.typeDesc).isSome :=
  cevalUnary_okB F op a

theorem constant_unary_type (F : FloatOps) (op : UnaryOp) (a c : ConstantValue) (h : cevalUnary F op a = .ok c) :
    unaryType op a.typeDesc = some c.typeDesc :=
  cevalUnary_type F op a c h

/-- constant path, binary: apart from `QString`-typed constants (over-rejected, F33) the folder raises a type error
    exactly where the table has no entry -/
theorem constant_binary_iff (F : FloatOps) (env : Env) (op : BinaryOp) (l r : ConstantValue) (hlog : ∀ o, op ≠ .logical o)
    (hq : isQString l = false ∧ isQString r = false) :
    typeOkB (cevalBinary F op l r) = (binaryType env op l.typeDesc r.typeDesc).isSome :=
  cevalBinary_okB F env op l r hlog hq

theorem constant_binary_type (F : FloatOps) (env : Env) (op : BinaryOp) (l r c : ConstantValue) (hlog : ∀ o, op ≠ .logical o)
    (h : cevalBinary F op l r = .ok c) :
    binaryType env op l.typeDesc r.typeDesc = some c.typeDesc :=
  cevalBinary_type F env op l r c hlog h

/-- the folder IS what `visit_*_expression` runs on constant operands, the emitter on all others -/
theorem paths (F : FloatOps) (env : Env) (b : Builder) :
    (∀ op l r, (∀ o, op ≠ .logical o) → visitBinaryExpression F env b op (.const l) (.const r) =
      (match cevalBinary F op l r with | .ok v => .ok (.const v, b) | .error e => .error e)) ∧
    (∀ op l r, ¬ ((∃ x, l = .const x) ∧ (∃ y, r = .const y)) →
      visitBinaryExpression F env b op l r = emitBinaryExpression env b op l r) ∧
    (∀ op a, visitUnaryExpression F b op (.const a) =
      (match cevalUnary F op a with | .ok v => .ok (.const v, b) | .error e => .error e)) ∧
    (∀ op a, (¬ ∃ x, a = .const x) → visitUnaryExpression F b op a = emitUnaryExpression b op a) :=
  ⟨fun op l r h => visitBinary_const F env b op l r h, fun op l r h => visitBinary_dynamic F env b op l r h,
   fun op a => visitUnary_const F b op a, fun op a h => visitUnary_dynamic F b op a h⟩

/-- CONSISTENCY: on constant operands the two paths accept the same operator/type combinations … -/
theorem const_dyn_consistent (F : FloatOps) (env : Env) (b : Builder) (op : BinaryOp) (l r : ConstantValue)
    (hlog : ∀ o, op ≠ .logical o) (hq : isQString l = false ∧ isQString r = false)
    (hnn : ¬ (l = .nullPointer ∧ r = .nullPointer)) :
    typeOkB (cevalBinary F op l r) = okB (emitBinaryExpression env b op (.const l) (.const r)) :=
  QV.Proofs.TypingConst.const_dyn_consistent F env b op l r hlog hq hnn

theorem const_dyn_consistent_unary (F : FloatOps) (b : Builder) (op : UnaryOp) (a : ConstantValue) :
    typeOkB (cevalUnary F op a) = okB (emitUnaryExpression b op (.const a)) :=
  QV.Proofs.TypingConst.const_dyn_consistent_unary F b op a

/-- … EXCEPT (1) `QString`-typed constants (`"a" as QString`): `+` and mixed comparisons are refused by the folder
    though the table and the emitter accept them (over-rejection) -/
theorem qstring_constants_overrejected (F : FloatOps) (env : Env) (b : Builder) (x y : List Char) :
    typeOkB (cevalBinary F (.arith .add) (.qstring x) (.qstring y)) = false ∧
    okB (emitBinaryExpression env b (.arith .add) (.const (.qstring x)) (.const (.qstring y))) = true ∧
    typeOkB (cevalBinary F (.cmp .eq) (.qstring x) (.cstring y)) = false ∧
    binaryType env (.cmp .eq) (ConstantValue.qstring x).typeDesc (ConstantValue.cstring y).typeDesc = some .bool :=
  ⟨(qstring_add_overrejected F env b x y).1, (qstring_add_overrejected F env b x y).2.2,
   (qstring_cstring_overrejected F env x y).1, (qstring_cstring_overrejected F env x y).2.2.1⟩

/-- (2) a VALUE, not a type: `i64::MIN % -1` -/
theorem i64min_rem_overrejected (F : FloatOps) :
    cevalBinary F (.arith .rem) (.integer i64Min) (.integer (-1)) = .error .integerOverflow :=
  QV.Proofs.TypingConst.i64min_rem_overrejected F

/-- (3) `null == null`: constant path true, the table admits it, the emitter would say "undetermined type" (never reached) -/
theorem null_eq_null_paths (F : FloatOps) (env : Env) (b : Builder) :
    cevalBinary F (.cmp .eq) .nullPointer .nullPointer = .ok (.bool true) ∧
    binaryType env (.cmp .eq) .nullPointer .nullPointer = some .bool ∧
    okB (emitBinaryExpression env b (.cmp .eq) (.const .nullPointer) (.const .nullPointer)) = false :=
  null_eq_null F env b

/-- finding F30 (repaired by 9ae7b5c; before it `null < null` was folded to `false`, `null <= null` to `true`): an
    ordering comparison of two `null` literals is a type error on the constant path, as the table says … -/
theorem null_ordering_rejected (F : FloatOps) (env : Env) (c : CmpOp) (hc : isOrdering c = true) :
    typeOkB (cevalBinary F (.cmp c) .nullPointer .nullPointer) = false ∧
    binaryType env (.cmp c) .nullPointer .nullPointer = none :=
  null_ordering_rejected_by_const_path F env c hc

/-- … and as the dynamic path says for every pair of pointer operands -/
theorem pointer_ordering_rejected (env : Env) (b : Builder) (c : CmpOp) (hc : isOrdering c = true)
    (l r : Operand) (k : TypeKind) (hk : ptrK k = true) (hl : l.typeDesc = .concrete k ∨ l.typeDesc = .nullPointer)
    (hr : r.typeDesc = .concrete k ∨ r.typeDesc = .nullPointer) (hnn : ¬ (l.typeDesc = .nullPointer ∧ r.typeDesc = .nullPointer)) :
    okB (emitBinaryExpression env b (.cmp c) l r) = false :=
  pointer_ordering_rejected_by_dynamic_path env b c hc l r k hk hl hr hnn

/-- `verify_code_return_type` = rule D16: the returned operands have ONE common type and it is assignable to the property -/
theorem verify_code_return_type_iff (env : Env) (code : CodeBody) (p : TypeKind) :
    verifyCodeReturnType env code p =
      (match resultType env (QV.Spec.IrTyping.returnTypes code) with
       | .ok t => assignable env p t
       | .error _ => false) :=
  verifyCodeReturnType_eq env code p

/-- `verify_callback_parameter_type` = rule D18 -/
theorem verify_callback_parameter_type_iff (env : Env) (desc : MethodInfo) (code : CodeBody) :
    verifyCallbackParameterType env desc code =
      (!(code.parameterCount > desc.args.length) &&
        (desc.args.zip (code.locals.take code.parameterCount)).all fun (a, p) => assignable env p (.concrete a)) :=
  verifyCallbackParameterType_eq env desc code

/-! ## (b) soundness of the checker's model w.r.t. the specification -/

/-- FULL statement: whatever the checker accepts is not ill-typed for the specification (see the header for what of it is
    proved below and what is left to the c05 stream) -/
def model_sound_full_statement : Prop :=
  (∀ (c : Ctx) (propTy : TypeKind) (p : Program) (e : Err),
      acceptsBinding c propTy p = true → checkBinding (worldOf c) propTy p ≠ .illTyped e) ∧
  (∀ (c : Ctx) (desc : MethodInfo) (p : Program) (e : Err),
      acceptsCallback c desc p = true → checkCallback (worldOf c) desc.args p ≠ .illTyped e)

def noFloat : FloatOps :=
  { neg := id, add := fun a _ => a, sub := fun a _ => a, mul := fun a _ => a, div := fun a _ => a, rem := fun a _ => a,
    eq := fun a b => a == b, lt := fun a b => a < b, le := fun a b => a ≤ b }

/-- EXPRESSIONS, all forms, no exclusion: if the walk accepts an expression in a state whose local names agree with a
    scope, the specification types it in that scope with EXACTLY the type of the operand the walk produced; the walk
    leaves the name map alone and only appends temporaries -/
theorem model_sound_expr (c : Ctx) (e : Expr) (s s' : WState) (sc : Scope) (a : Operand)
    (hinv : Inv s sc) (h : run (walkRvalue c e) s = (some a, s')) :
    typeOf (worldOf c) sc e = .ok a.typeDesc ∧ s'.locals = s.locals ∧ Inv s' sc := by
  obtain ⟨hext, ht⟩ := rvalue_of_expr (sound_expr c e) s s' sc a hinv h
  exact ⟨ht, hext.locals, hinv.ext hext⟩

/-- the same for lists of arguments / array elements -/
theorem model_sound_expr_list (c : Ctx) (es : List Expr) (s s' : WState) (sc : Scope)
    (as : List Operand) (hinv : Inv s sc) (h : run (walkRvalues c es) s = (some as, s')) :
    typeOfList (worldOf c) sc es = .ok (as.map (·.typeDesc)) :=
  (sound_rvalues c es s s' sc as hinv h).2

/-- STATEMENTS, all forms (`let`/`const`, blocks, `if`/`else`, `switch`/`case`/`default`/`break`, `return`, expression
    statements), inside or outside a switch: if the walk accepts the statement, the specification's statement checker
    accepts it — for either setting of the flags that only steer the collection of result types — and the walk's name
    map afterwards agrees with the scope the specification computes -/
theorem model_sound_stmt (c : Ctx) (bl : Option Nat) (st : Stmt) (s s' : WState) (sc : Scope)
    (hinv : Inv s sc) (h : run (walkStmt c bl st) s = (some (), s')) (last prev : Bool) :
    ∃ o, checkStmt (worldOf c) bl.isSome last prev sc st = .ok o ∧ Inv s' o.scope :=
  (sound_stmt c bl st s s' sc hinv h).2 last prev

theorem model_sound_stmts (c : Ctx) (bl : Option Nat) (ss : List Stmt) (s s' : WState) (sc : Scope)
    (hinv : Inv s sc) (h : run (walkStmts c bl ss) s = (some true, s')) (last prev : Bool) :
    ∃ o, checkStmts (worldOf c) bl.isSome last prev sc ss = .ok o ∧ Inv s' o.scope :=
  (sound_stmts c bl ss s s' sc hinv h).2 last prev

/-- SCOPING (D15; findings F32, F40 and F100, repaired by a011e08, 2a702d4 and 0aff63c): after a block, an `if` or a `switch` the visible
    names are exactly those visible before it — a name declared in the block, in a branch (braced or not) or in a `case`
    clause is not visible afterwards -/
theorem declared_in_block_branch_or_clause_not_visible_after (c : Ctx) (bl : Option Nat) (st : Stmt)
    (hst : (∃ ss, st = .block ss) ∨ (∃ cnd a b, st = .if_ cnd a b) ∨ (∃ v cl, st = .switch v cl))
    (s s' : WState) (sc : Scope) (hinv : Inv s sc) (h : run (walkStmt c bl st) s = (some (), s')) (n : String) :
    (s'.locals.get? n).isSome = (s.locals.get? n).isSome := by
  have h' := compound_scope_restored c bl st hst s s' sc hinv h
  rw [h'.visible_iff, hinv.visible_iff]

/-- from the top: a one-expression binding or callback for which `tir::build` produces code is typed by the specification -/
theorem binding_expression_sound (c : Ctx) (callback : Bool) (e : Expr)
    (h : (build c callback (.stmt (.expr e))).code.isSome = true) : ∃ t, typeOf (worldOf c) [] e = .ok t :=
  build_expr_sound c callback e h

/-- from the top: any statement program for which `tir::build` / `build_callback` produce code passes the statement checker -/
theorem program_statements_sound (c : Ctx) (callback : Bool) (st : Stmt)
    (h : (build c callback (.stmt st)).code.isSome = true) (last prev : Bool) :
    ∃ o, checkStmt (worldOf c) false last prev [] st = .ok o :=
  build_stmt_sound c callback st h last prev

/-- the second half of `model_sound_full_statement` for callbacks given as statements -/
theorem callback_statement_sound (c : Ctx) (desc : MethodInfo) (st : Stmt) (h : acceptsCallback c desc (.stmt st) = true) :
    checkCallback (worldOf c) desc.args (.stmt st) = .wellTyped :=
  callback_stmt_sound c desc st h desc.args

/-- the first half of `model_sound_full_statement` up to the result clause D16 -/
theorem binding_sound_up_to_result_clause (c : Ctx) (propTy : TypeKind) (st : Stmt)
    (h : acceptsBinding c propTy (.stmt st) = true) :
    checkBinding (worldOf c) propTy (.stmt st) = .wellTyped ∨ checkBinding (worldOf c) propTy (.stmt st) = .unspecified ∨
    checkBinding (worldOf c) propTy (.stmt st) = .illTyped .resultsDisagree ∨
    checkBinding (worldOf c) propTy (.stmt st) = .illTyped .resultMismatch :=
  binding_stmt_sound c propTy st h

/-! ## (c) non-vacuity -/

/-- a small world: class `A` (a QObject) with `int i`, `double d`, a read-only `int ro`, a method `f(int) : QString`,
    and class `B` deriving from `A` -/
def exEnv : Env :=
  let prop (n : String) (t : TypeKind) (w : Bool) : PropInfo :=
    { cls := "A", name := n, ty := t, readable := true, writable := w, constant := false, notify := none, readFn := n, writeFn := "" }
  let a : ClassInfo :=
    { name := "A", isObject := true, ancestors := ["A"], props := [prop "i" .int true, prop "d" .double true, prop "ro" .int false],
      methods := [("f", [{ cls := "A", name := "f", args := [.int], ret := .string, kind := .method }])], variants := [], nested := [] }
  let b : ClassInfo := { a with name := "B", ancestors := ["B", "A"] }
  { classes := [a, b], enums := [], types := [("int", .prim .int), ("double", .prim .double), ("A", .cls "A"), ("B", .cls "B")] }

def exWorld : World := { env := exEnv, objects := [("x", "A"), ("y", "B")], thisObj := some ("A", "x") }

-- well-typed: `i: x.i + 1`, `d: x.d * 2.0`, upcast on assignment `let p: A = y`, `x.f(1)`
example : checkBinding exWorld .int (.stmt (.expr (.binary .add (.member (.ident "x") "i") (.integer 1)))) = .wellTyped := by
  decide +kernel
example : checkBinding exWorld .string (.stmt (.block [.lexical .let_ [{ name := "p", ty := some ["A"], value := some (.ident "y") }],
    .return_ (some (.call (.member (.ident "p") "f") [.integer 1]))])) = .wellTyped := by decide +kernel
-- ill-typed: int and double mixed; int result for a double property; assignment to a read-only property; downcast
example : checkBinding exWorld .int (.stmt (.expr (.binary .add (.member (.ident "x") "i") (.member (.ident "x") "d")))) =
    .illTyped .operandType := by decide +kernel
example : checkBinding exWorld .double (.stmt (.expr (.member (.ident "x") "i"))) = .illTyped .resultMismatch := by decide +kernel
example : checkCallback exWorld [] (.stmt (.expr (.assign (.member (.ident "x") "ro") (.integer 1)))) =
    .illTyped .readOnlyProperty := by decide +kernel
example : checkCallback exWorld [] (.stmt (.lexical .let_ [{ name := "q", ty := some ["B"], value := some (.ident "x") }])) =
    .illTyped .assignMismatch := by decide +kernel
-- the hypotheses of model_sound_expr / model_sound_stmt are satisfiable: the initial state agrees with the empty scope
example : Inv {} [] := inv_init
-- scoping (D15): a name declared directly in an `if` branch or in a `case` clause is out of scope afterwards
example : checkBinding exWorld .int (.stmt (.block [.if_ (.binary .equal (.member (.ident "x") "i") (.integer 1))
    (.lexical .let_ [{ name := "v", ty := none, value := some (.integer 2) }]) none, .return_ (some (.ident "v"))])) =
    .illTyped .undefinedName := by decide +kernel
example : checkBinding exWorld .int (.stmt (.block [.switch (.member (.ident "x") "i")
    [(some (.integer 1), [.lexical .let_ [{ name := "v", ty := none, value := some (.integer 2) }], .break_ false])],
    .return_ (some (.ident "v"))])) = .illTyped .undefinedName := by decide +kernel
example : checkBinding exWorld .int (.stmt (.block [.switch (.member (.ident "x") "i")
    [(some (.integer 1), [.lexical .let_ [{ name := "v", ty := none, value := some (.integer 2) }]]),
     (some (.integer 2), [.return_ (some (.ident "v"))])], .return_ (some (.integer 0))])) = .illTyped .undefinedName := by
  decide +kernel  -- … nor in the FOLLOWING clause (F100, repaired by 0aff63c): the head may jump there directly
-- the tables are not empty and not full
example : binaryType exEnv (.arith .add) .int .constInteger = some .int := by decide +kernel
example : binaryType exEnv (.arith .add) .int .double = none := by decide +kernel
example : castKind exEnv .int .double = some .numeric ∧ castKind exEnv .bool .int = none := by decide +kernel

end QV.Props.C05
