/-
  C05 — static typing discipline: ill-typed programs are rejected, valid ones accepted.

  The specification is `QV.Spec.Typing` (the rules of docs/language.md as a declarative checker; its header lists the
  20 decisions D1–D20 taken where the documentation is silent) and `QV.Spec.IrTyping` (typing of the IR).

  (a) PER-RULE CHARACTERISATIONS of the checker's model (QV.Model.Types/Builder/Ceval = typeutil.rs, tir/builder.rs,
      tir/ceval.rs; QV.Model.TypeCheck = the checks of uigen after tir::build), for all inputs:
      * `is_assignable_iff`, `is_assignable_never_converts`   identity, object upcast, enum/flags alias, literal adoption —
                                                              never a static cast, never int↔double, int↔uint, bool↔int …
      * `deduce_type_iff`, `deduce_concrete_type_iff`         "one common type", no upcast to a common base
      * `pick_type_cast_is_the_cast_table`                    `as` = the documented table and nothing else
      * `operator_tokens`                                      which JS operators exist
      * `dynamic_unary_iff`/`dynamic_unary_type`, `dynamic_binary_iff`/`dynamic_binary_type`
                                                              emit_unary/binary_expression accept ↔ the table admits, same type
      * `constant_unary_iff`/`constant_unary_type`, `constant_binary_iff`/`constant_binary_type`
                                                              the same for the constant folder (value errors are not type errors)
      * `const_dyn_consistent`, `const_dyn_consistent_unary`  CONSISTENCY of the two paths, with the exact exceptions:
        `qstring_constants_overrejected`, `i64min_rem_overrejected` (a value), `null_eq_null_paths`, and the
        OVER-ACCEPTANCE `null_ordering_accepted` (finding F30)
      * `verify_code_return_type_iff`, `verify_callback_parameter_type_iff`   rules D16 and D18
  (b) SOUNDNESS of the model w.r.t. the specification: `model_sound_full_statement` is FALSE for the code as it is
      (`model_sound_full_statement_false`: witness `b: null < null`, finding F30; a second witness is the scope leak of
      finding F32/F40, exercised by the c05 stream).  What holds, for ALL expressions (every expression form of the
      language: identifiers, literals, arrays, member access, subscripts, calls of methods and builtins, assignments,
      unary/binary/logical operators, `as`, `?:`) that contain no ordering comparison of two `null` literals:
      `model_sound_partial` — if the walk accepts the expression then the specification types it, with exactly the type
      of the operand the walk produced; `binding_expression_sound` — the same from `tir::build` for a one-expression
      binding or callback.  NOT covered by a theorem: statements (`let`/`if`/`switch`/`return`; the result type of a
      block body); they are covered by the c05 stream (spec verdict vs the real compiler, model verdict vs the real
      compiler, IR re-check).
  (c) non-vacuity: examples at the end.
-/
import QV.Proofs.TypingRules
import QV.Proofs.TypingConst
import QV.Proofs.TypingChecks
import QV.Proofs.TypingSound2

set_option linter.unusedSimpArgs false

namespace QV.Props.C05
open QV.Model QV.Spec.Typing QV.Proofs.TypingRules QV.Proofs.TypingConst QV.Proofs.TypingChecks QV.Proofs.TypingSound

/-! ## (a) per-rule characterisations -/

/-- `is_assignable` admits exactly: the same type; a pointer to a derived class where a pointer to a base is expected;
    an enum and its QFlags alias; an integer literal for int/uint; a string literal for QString; `null` for a pointer;
    `[]` for a list -/
theorem is_assignable_iff (env : Env) (e : TypeKind) (a : TypeDesc) :
    isAssignable env e a = true ↔
      a = .concrete e ∨
      (∃ d b, a = .concrete (.pointer (.cls d)) ∧ e = .pointer (.cls b) ∧ env.derives d b = true) ∨
      (∃ x y, a = .concrete (.just (.enum x)) ∧ e = .just (.enum y) ∧ env.enumCompat x y = true) ∨
      (a = .constInteger ∧ (e = .int ∨ e = .uint)) ∨
      (a = .constString ∧ e = .string) ∨
      (a = .nullPointer ∧ ∃ n, e = .pointer n) ∨
      (a = .emptyList ∧ ∃ t, e = .list t) :=
  isAssignable_iff env e a

theorem is_assignable_eq_spec (env : Env) (e : TypeKind) (a : TypeDesc) : isAssignable env e a = assignable env e a :=
  isAssignable_eq env e a

/-- no implicit conversion between distinct primitive types, in particular int and double are never mixed; an
    assignable value never needs a static cast or a QVariant extraction -/
theorem is_assignable_never_converts (env : Env) :
    isAssignable env .double .int = false ∧ isAssignable env .int .double = false ∧
    isAssignable env .uint .int = false ∧ isAssignable env .int .uint = false ∧
    isAssignable env .int .bool = false ∧ isAssignable env .bool .int = false ∧
    isAssignable env .string .int = false ∧ isAssignable env .double .constInteger = false ∧
    isAssignable env .bool .constInteger = false ∧ isAssignable env .int (.concrete .variant) = false ∧
    (∀ e a, isAssignable env e a = true → castKind env e a = some .assign) := by
  refine ⟨?_, ?_, ?_, ?_, ?_, ?_, ?_, ?_, ?_, ?_, ?_⟩
  all_goals first
    | (simp [isAssignable_eq, assignable, litFits, intK, TypeDesc.int, TypeDesc.double, TypeDesc.uint, TypeDesc.bool,
        TypeKind.int, TypeKind.uint, TypeKind.double, TypeKind.bool, TypeKind.string, TypeKind.variant]; done)
    | (intro e a h; rw [isAssignable_eq] at h; simp [castKind, h])

/-- `deduce_type` succeeds exactly on pairs with one common type (D1, D3, D4: no upcast to a common base) -/
theorem deduce_type_iff (env : Env) (l r t : TypeDesc) : deduceType env l r = .ok t ↔ common env l r = some t := by
  rw [deduceType_eq]
  cases common env l r <;> simp

theorem deduce_concrete_type_iff (env : Env) (l r : TypeDesc) (k : TypeKind) :
    deduceConcreteType env l r = .ok k ↔ commonConcrete env l r = some k :=
  deduceConcreteType_ok_iff env l r k

/-- `VDerived*` and `VBase*` have no common type, in either order, even when one derives from the other -/
theorem no_common_base (env : Env) (d b : String) (h : d ≠ b) :
    common env (.concrete (.pointer (.cls d))) (.concrete (.pointer (.cls b))) = none := by
  simp [common, h]

/-- `pick_type_cast` realises exactly the specification's cast table: `noop`/`implicit` for what is assignable,
    `static_cast` for the numeric casts (int/uint/double, enum → integer, bool → integer, integer literal → double)
    and for `as void`, `QVariant::value` for a QVariant source, and `invalid` for everything else -/
theorem pick_type_cast_is_the_cast_table (env : Env) (e : TypeKind) (a : TypeDesc) :
    realises (castKind env e a) (pickTypeCast env e a) :=
  pickTypeCast_table env e a

theorem pick_type_cast_invalid_iff (env : Env) (e : TypeKind) (a : TypeDesc) :
    pickTypeCast env e a = .invalid ↔ castable env e a = false :=
  pickTypeCast_invalid_iff env e a

/-- casts that do NOT exist: integer → bool, integer → enum, double ↔ enum, bool → double, QString ↔ number,
    pointer downcast and cross cast -/
theorem casts_that_do_not_exist (env : Env) (x : String) (d b : String) (h : env.derives b d = false) (hne : d ≠ b) :
    castable env .bool .int = false ∧ castable env (.just (.enum x)) .int = false ∧
    castable env (.just (.enum x)) .double = false ∧ castable env .double (.concrete (.just (.enum x))) = false ∧
    castable env .double .bool = false ∧ castable env .int .string = false ∧ castable env .string .int = false ∧
    castable env (.pointer (.cls d)) (.concrete (.pointer (.cls b))) = false := by
  refine ⟨?_, ?_, ?_, ?_, ?_, ?_, ?_, ?_⟩
  all_goals
    simp [castable, castKind, assignable, numK, intK, enumK, subclass_eq, h, hne, Ne.symm hne, TypeDesc.int, TypeDesc.double,
      TypeDesc.bool, TypeDesc.string, TypeKind.int, TypeKind.uint, TypeKind.double, TypeKind.bool, TypeKind.string,
      TypeKind.void, TypeKind.variant]

/-- which operator tokens exist: the tables of opcode.rs are the specification's -/
theorem operator_tokens : (∀ t, UnaryToken.toOp t = unaryOf t) ∧ (∀ t, BinaryToken.toOp t = binaryOf t) :=
  ⟨fun t => (unaryOf_eq t).symm, fun t => (binaryOf_eq t).symm⟩

/-- dynamic path, unary: accepted ↔ the specification's table admits the operand type -/
theorem dynamic_unary_iff (b : Builder) (op : UnaryOp) (a : Operand) :
    okB (emitUnaryExpression b op a) = (unaryType op a.typeDesc).isSome :=
  emitUnary_okB b op a

theorem dynamic_unary_type (b : Builder) (op : UnaryOp) (a res : Operand) (b' : Builder)
    (h : emitUnaryExpression b op a = .ok (res, b')) :
    ∃ t k, unaryType op a.typeDesc = some t ∧ concreteOf t = some k ∧ res.typeDesc = .concrete k :=
  emitUnary_type b op a res b' h

/-- dynamic path, binary (`&&`/`||` are lowered elsewhere; two `null` literals are constants): accepted ↔ the table
    admits the pair of operand types -/
theorem dynamic_binary_iff (env : Env) (b : Builder) (op : BinaryOp) (l r : Operand) (hlog : ∀ o, op ≠ .logical o)
    (hnn : ¬ (l.typeDesc = .nullPointer ∧ r.typeDesc = .nullPointer)) :
    okB (emitBinaryExpression env b op l r) = (binaryType env op l.typeDesc r.typeDesc).isSome :=
  emitBinary_okB env b op l r hlog hnn

theorem dynamic_binary_type (env : Env) (b : Builder) (op : BinaryOp) (l r : Operand) (hlog : ∀ o, op ≠ .logical o)
    (hnn : ¬ (l.typeDesc = .nullPointer ∧ r.typeDesc = .nullPointer)) (res : Operand) (b' : Builder)
    (h : emitBinaryExpression env b op l r = .ok (res, b')) :
    ∃ t k, binaryType env op l.typeDesc r.typeDesc = some t ∧ concreteOf t = some k ∧ res.typeDesc = .concrete k :=
  emitBinary_type env b op l r hlog hnn res b' h

/-- constant path, unary: no type error ↔ the table admits; and the folded constant has the table's type -/
theorem constant_unary_iff (F : FloatOps) (op : UnaryOp) (a : ConstantValue) :
    typeOkB (cevalUnary F op a) = (unaryType op a.typeDesc).isSome :=
  cevalUnary_okB F op a

theorem constant_unary_type (F : FloatOps) (op : UnaryOp) (a c : ConstantValue) (h : cevalUnary F op a = .ok c) :
    unaryType op a.typeDesc = some c.typeDesc :=
  cevalUnary_type F op a c h

/-- constant path, binary: apart from `QString`-typed constants (over-rejected) and `null < null` (over-accepted) the
    folder raises a type error exactly where the table has no entry -/
theorem constant_binary_iff (F : FloatOps) (env : Env) (op : BinaryOp) (l r : ConstantValue) (hlog : ∀ o, op ≠ .logical o)
    (hq : isQString l = false ∧ isQString r = false) (hn : nullOrdering op l r = false) :
    typeOkB (cevalBinary F op l r) = (binaryType env op l.typeDesc r.typeDesc).isSome :=
  cevalBinary_okB F env op l r hlog hq hn

theorem constant_binary_type (F : FloatOps) (env : Env) (op : BinaryOp) (l r c : ConstantValue) (hlog : ∀ o, op ≠ .logical o)
    (hn : nullOrdering op l r = false) (h : cevalBinary F op l r = .ok c) :
    binaryType env op l.typeDesc r.typeDesc = some c.typeDesc :=
  cevalBinary_type F env op l r c hlog hn h

/-- the folder IS what `visit_*_expression` runs on constant operands, the emitter on all others -/
theorem paths (F : FloatOps) (env : Env) (b : Builder) :
    (∀ op l r, (∀ o, op ≠ .logical o) → visitBinaryExpression F env b op (.const l) (.const r) =
      (match cevalBinary F op l r with | .ok v => .ok (.const v, b) | .error e => .error e)) ∧
    (∀ op l r, ¬ ((∃ x, l = .const x) ∧ (∃ y, r = .const y)) →
      visitBinaryExpression F env b op l r = emitBinaryExpression env b op l r) ∧
    (∀ op a, visitUnaryExpression F b op (.const a) =
      (match cevalUnary F op a with | .ok v => .ok (.const v, b) | .error e => .error e)) ∧
    (∀ op a, (¬ ∃ x, a = .const x) → visitUnaryExpression F b op a = emitUnaryExpression b op a) :=
  ⟨fun op l r h => visitBinary_const F env b op l r h, fun op l r h => visitBinary_dynamic F env b op l r h,
   fun op a => visitUnary_const F b op a, fun op a h => visitUnary_dynamic F b op a h⟩

/-- CONSISTENCY: on constant operands the two paths accept the same operator/type combinations … -/
theorem const_dyn_consistent (F : FloatOps) (env : Env) (b : Builder) (op : BinaryOp) (l r : ConstantValue)
    (hlog : ∀ o, op ≠ .logical o) (hq : isQString l = false ∧ isQString r = false)
    (hnn : ¬ (l = .nullPointer ∧ r = .nullPointer)) :
    typeOkB (cevalBinary F op l r) = okB (emitBinaryExpression env b op (.const l) (.const r)) :=
  QV.Proofs.TypingConst.const_dyn_consistent F env b op l r hlog hq hnn

theorem const_dyn_consistent_unary (F : FloatOps) (b : Builder) (op : UnaryOp) (a : ConstantValue) :
    typeOkB (cevalUnary F op a) = okB (emitUnaryExpression b op (.const a)) :=
  QV.Proofs.TypingConst.const_dyn_consistent_unary F b op a

/-- … EXCEPT (1) `QString`-typed constants (`"a" as QString`): `+` and mixed comparisons are refused by the folder
    though the table and the emitter accept them (over-rejection) -/
theorem qstring_constants_overrejected (F : FloatOps) (env : Env) (b : Builder) (x y : List Char) :
    typeOkB (cevalBinary F (.arith .add) (.qstring x) (.qstring y)) = false ∧
    okB (emitBinaryExpression env b (.arith .add) (.const (.qstring x)) (.const (.qstring y))) = true ∧
    typeOkB (cevalBinary F (.cmp .eq) (.qstring x) (.cstring y)) = false ∧
    binaryType env (.cmp .eq) (ConstantValue.qstring x).typeDesc (ConstantValue.cstring y).typeDesc = some .bool :=
  ⟨(qstring_add_overrejected F env b x y).1, (qstring_add_overrejected F env b x y).2.2,
   (qstring_cstring_overrejected F env x y).1, (qstring_cstring_overrejected F env x y).2.2.1⟩

/-- (2) a VALUE, not a type: `i64::MIN % -1` -/
theorem i64min_rem_overrejected (F : FloatOps) :
    cevalBinary F (.arith .rem) (.integer i64Min) (.integer (-1)) = .error .integerOverflow :=
  QV.Proofs.TypingConst.i64min_rem_overrejected F

/-- (3) `null == null`: constant path true, the table admits it, the emitter would say "undetermined type" (never reached) -/
theorem null_eq_null_paths (F : FloatOps) (env : Env) (b : Builder) :
    cevalBinary F (.cmp .eq) .nullPointer .nullPointer = .ok (.bool true) ∧
    binaryType env (.cmp .eq) .nullPointer .nullPointer = some .bool ∧
    okB (emitBinaryExpression env b (.cmp .eq) (.const .nullPointer) (.const .nullPointer)) = false :=
  null_eq_null F env b

/-- (4) FINDING F30, over-ACCEPTANCE: `null < null`, `<=`, `>`, `>=` are folded although pointers are not ordered — the
    table has no entry, and the emitter refuses an ordering comparison for every pair of pointer operands -/
theorem null_ordering_accepted (F : FloatOps) (env : Env) :
    cevalBinary F (.cmp .lt) .nullPointer .nullPointer = .ok (.bool false) ∧
    cevalBinary F (.cmp .le) .nullPointer .nullPointer = .ok (.bool true) ∧
    binaryType env (.cmp .lt) .nullPointer .nullPointer = none ∧
    binaryType env (.cmp .le) .nullPointer .nullPointer = none :=
  null_ordering_accepted_by_const_path F env

theorem pointer_ordering_rejected (env : Env) (b : Builder) (c : CmpOp) (hc : isOrdering c = true)
    (l r : Operand) (k : TypeKind) (hk : ptrK k = true) (hl : l.typeDesc = .concrete k ∨ l.typeDesc = .nullPointer)
    (hr : r.typeDesc = .concrete k ∨ r.typeDesc = .nullPointer) (hnn : ¬ (l.typeDesc = .nullPointer ∧ r.typeDesc = .nullPointer)) :
    okB (emitBinaryExpression env b (.cmp c) l r) = false :=
  pointer_ordering_rejected_by_dynamic_path env b c hc l r k hk hl hr hnn

/-- `verify_code_return_type` = rule D16: the returned operands have ONE common type and it is assignable to the property -/
theorem verify_code_return_type_iff (env : Env) (code : CodeBody) (p : TypeKind) :
    verifyCodeReturnType env code p =
      (match resultType env (QV.Spec.IrTyping.returnTypes code) with
       | .ok t => assignable env p t
       | .error _ => false) :=
  verifyCodeReturnType_eq env code p

/-- `verify_callback_parameter_type` = rule D18 -/
theorem verify_callback_parameter_type_iff (env : Env) (desc : MethodInfo) (code : CodeBody) :
    verifyCallbackParameterType env desc code =
      (!(code.parameterCount > desc.args.length) &&
        (desc.args.zip (code.locals.take code.parameterCount)).all fun (a, p) => assignable env p (.concrete a)) :=
  verifyCallbackParameterType_eq env desc code

/-! ## (b) soundness of the checker's model w.r.t. the specification -/

/-- FULL statement: whatever the checker accepts is not ill-typed for the specification -/
def model_sound_full_statement : Prop :=
  (∀ (c : Ctx) (propTy : TypeKind) (p : Program) (e : Err),
      acceptsBinding c propTy p = true → checkBinding (worldOf c) propTy p ≠ .illTyped e) ∧
  (∀ (c : Ctx) (desc : MethodInfo) (p : Program) (e : Err),
      acceptsCallback c desc p = true → checkCallback (worldOf c) desc.args p ≠ .illTyped e)

def noFloat : FloatOps :=
  { neg := id, add := fun a _ => a, sub := fun a _ => a, mul := fun a _ => a, div := fun a _ => a, rem := fun a _ => a,
    eq := fun a b => a == b, lt := fun a b => a < b, le := fun a b => a ≤ b }

/-- the witness of finding F30: `b: null < null` -/
def f30Ctx : Ctx := { env := { classes := [], enums := [], types := [] }, F := noFloat, objects := [], thisObj := none }
def f30Program : Program := .stmt (.expr (.binary .lessThan .null .null))

/-- the walk of the witness: the comparison is folded to the constant `false` -/
theorem f30_walk : (walkProgram f30Ctx false f30Program).run {} =
    (some (), { b := visitExpressionStatement {} (.const (.bool false)) }) := by
  simp only [f30Program, walkProgram, walkStmt, walkRvalue, walkExpr, BinaryToken.toOp]
  rfl

theorem f30_accepted_by_the_checker : acceptsBinding f30Ctx .bool f30Program = true := by
  unfold acceptsBinding build
  rw [f30_walk]
  decide +kernel
theorem f30_ill_typed : checkBinding (worldOf f30Ctx) .bool f30Program = .illTyped .operandType := by decide +kernel

/-- the full statement does NOT hold for the code as it is (finding F30) -/
theorem model_sound_full_statement_false : ¬ model_sound_full_statement := by
  intro h
  exact h.1 f30Ctx .bool f30Program .operandType f30_accepted_by_the_checker f30_ill_typed

/-- PARTIAL (all expression forms; only `null < null` excluded): if the walk accepts an expression in a state whose
    local names agree with a scope, the specification types it in that scope with EXACTLY the type of the operand
    the walk produced; and the walk leaves the name map alone and only appends temporaries -/
theorem model_sound_partial (c : Ctx) (e : Expr) (hn : nno e = true) (s s' : WState) (sc : Scope) (a : Operand)
    (hinv : Inv s sc) (h : run (walkRvalue c e) s = (some a, s')) :
    typeOf (worldOf c) sc e = .ok a.typeDesc ∧ s'.locals = s.locals ∧ Inv s' sc := by
  obtain ⟨hext, ht⟩ := rvalue_of_expr (sound_expr c e hn) s s' sc a hinv h
  exact ⟨ht, hext.locals, hinv.ext hext⟩

/-- the same for lists of arguments / array elements -/
theorem model_sound_partial_list (c : Ctx) (es : List Expr) (hn : nnoList es = true) (s s' : WState) (sc : Scope)
    (as : List Operand) (hinv : Inv s sc) (h : run (walkRvalues c es) s = (some as, s')) :
    typeOfList (worldOf c) sc es = .ok (as.map (·.typeDesc)) :=
  (sound_rvalues c es hn s s' sc as hinv h).2

/-- from the top: a one-expression binding or callback for which `tir::build` produces code is typed by the specification -/
theorem binding_expression_sound (c : Ctx) (callback : Bool) (e : Expr) (hn : nno e = true)
    (h : (build c callback (.stmt (.expr e))).code.isSome = true) : ∃ t, typeOf (worldOf c) [] e = .ok t :=
  build_expr_sound c callback e hn h

/-- the fragment condition is only about the literal `null`: an expression without `null` is in the fragment -/
theorem fragment_excludes_only_null_ordering (tok : BinaryToken) (l r : Expr) (hl : nno l = true) (hr : nno r = true)
    (h : ¬ (isOrderingTok tok = true ∧ l = .null ∧ r = .null)) : nno (.binary tok l r) = true := by
  simp only [nno, hl, hr, Bool.and_true, Bool.not_eq_true', Bool.and_eq_false_iff]
  by_cases h1 : isOrderingTok tok = true
  · by_cases h2 : l = .null
    · by_cases h3 : r = .null
      · exact absurd ⟨h1, h2, h3⟩ h
      · right; cases r <;> simp_all [isNullLit]
    · left; right; cases l <;> simp_all [isNullLit]
  · left; left; simpa using h1

/-! ## (c) non-vacuity -/

/-- a small world: class `A` (a QObject) with `int i`, `double d`, a read-only `int ro`, a method `f(int) : QString`,
    and class `B` deriving from `A` -/
def exEnv : Env :=
  let prop (n : String) (t : TypeKind) (w : Bool) : PropInfo :=
    { cls := "A", name := n, ty := t, readable := true, writable := w, constant := false, notify := none, readFn := n, writeFn := "" }
  let a : ClassInfo :=
    { name := "A", isObject := true, ancestors := ["A"], props := [prop "i" .int true, prop "d" .double true, prop "ro" .int false],
      methods := [("f", [{ cls := "A", name := "f", args := [.int], ret := .string, kind := .method }])], variants := [], nested := [] }
  let b : ClassInfo := { a with name := "B", ancestors := ["B", "A"] }
  { classes := [a, b], enums := [], types := [("int", .prim .int), ("double", .prim .double), ("A", .cls "A"), ("B", .cls "B")] }

def exWorld : World := { env := exEnv, objects := [("x", "A"), ("y", "B")], thisObj := some ("A", "x") }

-- well-typed: `i: x.i + 1`, `d: x.d * 2.0`, upcast on assignment `let p: A = y`, `x.f(1)`
example : checkBinding exWorld .int (.stmt (.expr (.binary .add (.member (.ident "x") "i") (.integer 1)))) = .wellTyped := by
  decide +kernel
example : checkBinding exWorld .string (.stmt (.block [.lexical .let_ [{ name := "p", ty := some ["A"], value := some (.ident "y") }],
    .return_ (some (.call (.member (.ident "p") "f") [.integer 1]))])) = .wellTyped := by decide +kernel
-- ill-typed: int and double mixed; int result for a double property; assignment to a read-only property; downcast
example : checkBinding exWorld .int (.stmt (.expr (.binary .add (.member (.ident "x") "i") (.member (.ident "x") "d")))) =
    .illTyped .operandType := by decide +kernel
example : checkBinding exWorld .double (.stmt (.expr (.member (.ident "x") "i"))) = .illTyped .resultMismatch := by decide +kernel
example : checkCallback exWorld [] (.stmt (.expr (.assign (.member (.ident "x") "ro") (.integer 1)))) =
    .illTyped .readOnlyProperty := by decide +kernel
example : checkCallback exWorld [] (.stmt (.lexical .let_ [{ name := "q", ty := some ["B"], value := some (.ident "x") }])) =
    .illTyped .assignMismatch := by decide +kernel
-- the hypotheses of model_sound_partial are satisfiable: the initial state agrees with the empty scope
example : Inv {} [] := inv_init
example : nno (.binary .add (.member (.ident "x") "i") (.integer 1)) = true := by decide
-- the tables are not empty and not full
example : binaryType exEnv (.arith .add) .int .constInteger = some .int := by decide +kernel
example : binaryType exEnv (.arith .add) .int .double = none := by decide +kernel
example : castKind exEnv .int .double = some .numeric ∧ castKind exEnv .bool .int = none := by decide +kernel

end QV.Props.C05
