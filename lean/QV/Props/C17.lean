/-
  C17 — Type lookups agree with the class graph and always terminate.

  Model : QV.Model.ClassGraph (mirrors lib/src/typemap/{class,namespace,function,enum_,core,module}.rs:
          resolve_class_scoped, BaseClasses (BFS + visited set), find_map_self_and_base_classes,
          is_derived_from(_pedantic), common_base_class, get_property, get_public_method, get_type,
          get_enum_by_variant, MethodDataTable, Property::new / Method::new type resolution)
  Spec  : QV.Spec.Graph (reflexive–transitive closure `Derives` of "public super class that denotes a class";
          `Declares…`; `Inherits`; `DanglingFrom`), on the graph reading `toGraph` of a table
  Tie   : harness stream `c17` — generated class tables (DAGs, diamonds, cycles, self-loops, unknown and
          non-class super names, private supers, duplicate names, shadowed members) loaded through the real
          `ModuleData::extend`/`TypeMap`, every query kind for every class (pair) through the public API;
          compared with the model (kind=model, exact answers incl. BFS-order dependent owners and errors) and
          with the specification (kind=spec).
  Members with types (section "which declaration decides", model QV.Model.ClassGraph.Typed, specification
  QV.Spec.GraphMembers): the same name declared at several levels, each declaration resolvable or not — the
  unhidden declaration decides (`…_decided`), the class's own declaration first (`own_…_declaration_decides`),
  an unresolvable declaration is an error and never falls through to an ancestor
  (`unresolvable_own_…_is_error`), on a chain the nearest declaring class decides (`unique_decider_decides`).

  For every table: all queries terminate; a positive "derives from", a member that is found, a common base
  and an enum found by variant are always *right* (sound).  For tables in which no unresolved super-class
  reference is reachable from the queried class the answers are also *complete* — the full property.
  With a reachable unresolved reference the code gives up (finding F10): the complete statements are kept
  as `…_full_statement`, refuted by kernel-checked witnesses, and the behaviour is characterised exactly
  (`…_with_dangling`).
-/
import QV.Proofs.ClassGraph
import QV.Proofs.ClassGraphRepaired
import QV.Proofs.ClassGraphTyped

namespace QV.Props.C17
open QV.Model.ClassGraph QV.Spec.Graph QV.Proofs.ClassGraph

/-! ### termination -/

/-- **Every walk terminates**, from every iterator state and on every table (cycles, self-loops, dangling
    names included): the loop of `BaseClasses::next`, written as a relation without fuel, has a result, it
    is unique, and it is what the model computes. -/
theorem base_classes_terminates (t : Table) (pending : List (List Name)) (visited : List Name) :
    ∃ items, Run t pending visited items ∧ (∀ items', Run t pending visited items' → items' = items) ∧
      ∀ fuel, bfsFuel t pending visited ≤ fuel → bfsAux t fuel pending visited = items :=
  ⟨_, bfsAux_run t _ pending visited (Nat.le_refl _),
    fun _ h => Run.functional h (bfsAux_run t _ pending visited (Nat.le_refl _)),
    fun fuel h => bfsAux_fuel_irrelevant t fuel pending visited h⟩

/-- **What the walk enumerates (all tables)**: exactly the proper public ancestors — the classes reached from a
    public super class that resolves — each exactly once. -/
theorem base_classes_spec {t : Table} {c : Name} {self : ClassDecl} (hc : lookupClass t.classes c = some self)
    (b : ClassDecl) :
    .ok b ∈ baseClasses t self ↔
      lookupClass t.classes b.name = some b ∧ ∃ s, Edge (toGraph t) c s ∧ Derives (toGraph t) s b.name := by
  have hself := lookupClass_self hc
  have hname := lookupClass_name hc
  rw [baseClasses_ok_iff]
  constructor
  · rintro ⟨n, hn, c', hc', hr⟩
    have h' := lookupClass_self hc'
    refine ⟨reach_handle hr h', n, ⟨nodeOf self, ?_, hn, isClass_iff.mpr ⟨c', hc'⟩⟩, ?_⟩
    · rw [classOf_toGraph, hc]; rfl
    · have := reach_derives hr h'
      rwa [lookupClass_name hc'] at this
  · rintro ⟨hb, s, ⟨d, hd, hs, hcs⟩, hder⟩
    rw [classOf_toGraph, hc] at hd
    cases hd
    obtain ⟨c', hc'⟩ := isClass_iff.mp hcs
    obtain ⟨b', hb', hr⟩ := derives_reach hder c' hc'
    rw [hb] at hb'; cases hb'
    exact ⟨s, hs, c', hc', hr⟩

theorem base_classes_each_once (t : Table) (self : ClassDecl) :
    ((baseClasses t self).filterMap fun | .ok c => some c.name | .err _ => none).Nodup :=
  (run_ok_fresh (baseClasses_run t self)).2

/-- the errors the walk yields are exactly the unresolved public super-class names of the class and of its
    ancestors -/
theorem base_classes_errors {t : Table} {c : Name} {self : ClassDecl} (hc : lookupClass t.classes c = some self) :
    (∃ e, .err e ∈ baseClasses t self) ↔ DanglingFrom (toGraph t) c := by
  have hself := lookupClass_self hc
  have := clean_iff_not_dangling hself
  rw [lookupClass_name hc] at this
  constructor
  · rintro ⟨e, he⟩
    apply Classical.byContradiction
    intro hnd
    exact this.mpr hnd e he
  · intro hd
    apply Classical.byContradiction
    intro hne
    exact this.mp (fun e he => hne ⟨e, he⟩) hd

private theorem clean_of {t : Table} {c : Name} {self : ClassDecl} (hc : lookupClass t.classes c = some self)
    (hnd : ¬ DanglingFrom (toGraph t) c) : Clean t self := by
  have := clean_iff_not_dangling (lookupClass_self hc)
  rw [lookupClass_name hc] at this
  exact this.mpr hnd

private theorem dangling_of {t : Table} {c : Name} {self : ClassDecl} (hc : lookupClass t.classes c = some self)
    (h : ¬ Clean t self) : DanglingFrom (toGraph t) c := by
  apply Classical.byContradiction
  intro hnd
  exact h (clean_of hc hnd)

private theorem derives_of_reach {t : Table} {c : Name} {self d : ClassDecl}
    (hc : lookupClass t.classes c = some self) (h : Reach t self d) : Derives (toGraph t) c d.name := by
  have := reach_derives h (lookupClass_self hc)
  rwa [lookupClass_name hc] at this

/-! ### "derives from" -/

/-- all tables: a positive answer is reflexive–transitive public inheritance -/
theorem derives_sound {t : Table} {a b : Name} {x y : ClassDecl}
    (ha : lookupClass t.classes a = some x) (hb : lookupClass t.classes b = some y)
    (h : isDerivedFrom t x y = true) : Derives (toGraph t) a b := by
  have := derives_of_reach ha (isDerivedFrom_sound (lookupClass_self hb) (lookupClass_self ha) h)
  rwa [lookupClass_name hb] at this

/-- **'derives from' holds exactly for reflexive–transitive public inheritance** — whenever no unresolved
    super-class reference is reachable from the class (in particular for every table without dangling
    references, with or without cycles). -/
theorem derives_iff_reachable {t : Table} {a b : Name} {x y : ClassDecl}
    (ha : lookupClass t.classes a = some x) (hb : lookupClass t.classes b = some y)
    (hnd : ¬ DanglingFrom (toGraph t) a) :
    isDerivedFrom t x y = true ↔ Derives (toGraph t) a b := by
  refine ⟨derives_sound ha hb, fun h => ?_⟩
  obtain ⟨y', hy', hr⟩ := derives_reach h x ha
  rw [hb] at hy'; cases hy'
  exact isDerivedFrom_complete (clean_of ha hnd) hr

/-- all tables, exact characterisation of a negative answer -/
theorem derives_with_dangling {t : Table} {a b : Name} {x y : ClassDecl}
    (ha : lookupClass t.classes a = some x) (hb : lookupClass t.classes b = some y)
    (h : isDerivedFrom t x y = false) : ¬ Derives (toGraph t) a b ∨ DanglingFrom (toGraph t) a := by
  rcases isDerivedFrom_false h with h | h
  · refine .inl fun hd => h ?_
    obtain ⟨y', hy', hr⟩ := derives_reach hd x ha
    rw [hb] at hy'; cases hy'; exact hr
  · exact .inr (dangling_of ha h)

/-- the property's clause for all tables, dangling references included -/
def derives_iff_reachable_full_statement : Prop :=
  ∀ (t : Table) (a b : Name) (x y : ClassDecl), lookupClass t.classes a = some x → lookupClass t.classes b = some y →
    (isDerivedFrom t x y = true ↔ Derives (toGraph t) a b)

def baseF10 : ClassDecl := { name := "Base", props := ["p"] }
def cF10 : ClassDecl := { name := "C", supers := [("Dangling", true), ("Base", true)] }
/-- F10: class `C : Dangling, Base` where `Dangling` is not loaded and `Base` declares `p` -/
def tableF10 : Table := { classes := [baseF10, cF10] }

private theorem f10_derives : Derives (toGraph tableF10) "C" "Base" :=
  .step ⟨nodeOf cF10, rfl, by decide, ⟨nodeOf baseF10, rfl⟩⟩ (.refl _)

/-- F10: `C` publicly inherits `Base`, yet `C.is_derived_from(Base)` is false because the unresolved
    `Dangling` is met first. -/
theorem derives_iff_reachable_refuted : ¬ derives_iff_reachable_full_statement := by
  intro h
  have h1 := (h tableF10 "C" "Base" cF10 baseF10 (by decide) (by decide)).mpr f10_derives
  revert h1
  decide

/-! ### properties, methods, nested enums, enum variants -/

/-- Everything the property says about one member lookup `res` made on class `c` (handle `cls`), where `Q a`
    says that class `a` declares the member and `owner` extracts the class the answer belongs to. -/
structure LookupSpec {α : Type} (t : Table) (c : Name) (cls : ClassDecl) (res : Lookup α)
    (owner : α → ClassDecl) (Q : String → Prop) : Prop where
  /-- all tables: what is found is declared by the class or a public ancestor -/
  found_sound : ∀ x, res = .found x → Derives (toGraph t) c (owner x).name ∧ Q (owner x).name
  /-- all tables: "not found" means nobody declares it (and nothing was unresolved) -/
  notFound_sound : res = .notFound → ¬ Inherits (toGraph t) Q c ∧ ¬ DanglingFrom (toGraph t) c
  /-- all tables: an error means an unresolved reference is reachable -/
  error_dangling : ∀ e, res = .error e → DanglingFrom (toGraph t) c
  /-- no reachable unresolved reference: found exactly when declared by the class or a public ancestor -/
  found_iff : ¬ DanglingFrom (toGraph t) c → ((∃ x, res = .found x) ↔ Inherits (toGraph t) Q c)
  /-- … with the class's own declaration taking precedence -/
  own_first : ¬ DanglingFrom (toGraph t) c → Q c → ∃ x, res = .found x ∧ owner x = cls

theorem member_lookup_spec {α : Type} {t : Table} {f : ClassDecl → Lookup α} {P : ClassDecl → Prop}
    {owner : α → ClassDecl} (m : MemberLookup t f P owner) (Q : String → Prop)
    (hPQ : ∀ d, lookupClass t.classes d.name = some d → (P d ↔ Q d.name))
    {c : Name} {self : ClassDecl} (hc : lookupClass t.classes c = some self) :
    LookupSpec t c self (findMapSelfAndBaseClasses t self f) owner Q := by
  have hself := lookupClass_self hc
  have hname := lookupClass_name hc
  have inh : ∀ {d}, Reach t self d → P d → Inherits (toGraph t) Q c := fun {d} hr hp =>
    ⟨d.name, derives_of_reach hc hr, (hPQ d (reach_handle hr hself)).mp hp⟩
  have uninh : Inherits (toGraph t) Q c → ∃ d, Reach t self d ∧ P d := by
    rintro ⟨a, hd, hq⟩
    obtain ⟨d, hd', hr⟩ := derives_reach hd self hc
    refine ⟨d, hr, (hPQ d (lookupClass_self hd')).mpr ?_⟩
    rwa [lookupClass_name hd']
  refine ⟨fun x h => ?_, fun h => ?_, fun e h => ?_, fun hnd => ⟨?_, ?_⟩, fun hnd hq => ?_⟩
  · obtain ⟨hr, hp⟩ := m.sound h
    exact ⟨derives_of_reach hc hr, (hPQ _ (reach_handle hr hself)).mp hp⟩
  · obtain ⟨hcl, hn⟩ := m.none h
    refine ⟨fun hi => ?_, fun hd => ?_⟩
    · obtain ⟨d, hr, hp⟩ := uninh hi
      exact hn d hr hp
    · have := (clean_iff_not_dangling hself).mp hcl
      rw [hname] at this; exact this hd
  · exact dangling_of hc (m.err h)
  · rintro ⟨x, h⟩
    obtain ⟨hr, hp⟩ := m.sound h
    exact inh hr hp
  · intro hi
    obtain ⟨d, hr, hp⟩ := uninh hi
    exact m.complete (clean_of hc hnd) hr hp
  · refine m.own_first (clean_of hc hnd) ((hPQ self hself).mpr ?_)
    rwa [hname]

private theorem declaresProp_iff {t : Table} (p : Name) (d : ClassDecl)
    (h : lookupClass t.classes d.name = some d) : p ∈ d.props ↔ DeclaresProp (toGraph t) d.name p := by
  unfold DeclaresProp
  rw [classOf_handle h]
  constructor
  · intro hp; exact ⟨_, rfl, hp⟩
  · rintro ⟨_, hd, hp⟩; cases hd; exact hp

/-- **Properties**: all five clauses for `get_property`. -/
theorem property_lookup_spec {t : Table} {c : Name} {self : ClassDecl} (hc : lookupClass t.classes c = some self)
    (p : Name) :
    LookupSpec t c self (getProperty t self p) id (fun a => DeclaresProp (toGraph t) a p) :=
  member_lookup_spec (getProperty_member t p) (fun a => DeclaresProp (toGraph t) a p) (declaresProp_iff p) hc

/-- **A property is found exactly when the class or one of its public ancestors declares it** (no reachable
    unresolved reference). -/
theorem lookup_iff_declared {t : Table} {c : Name} {self : ClassDecl} (hc : lookupClass t.classes c = some self)
    (hnd : ¬ DanglingFrom (toGraph t) c) (p : Name) :
    (∃ o, getProperty t self p = .found o) ↔ Inherits (toGraph t) (fun a => DeclaresProp (toGraph t) a p) c :=
  (property_lookup_spec hc p).found_iff hnd

/-- **… with the class's own declaration taking precedence.** -/
theorem lookup_own_first {t : Table} {c : Name} {self : ClassDecl} (hc : lookupClass t.classes c = some self)
    (hnd : ¬ DanglingFrom (toGraph t) c) (p : Name) (hp : DeclaresProp (toGraph t) c p) :
    getProperty t self p = .found self := by
  obtain ⟨x, hx, ho⟩ := (property_lookup_spec hc p).own_first hnd hp
  rw [hx]; exact congrArg _ ho

/-- **All tables (dangling references included)**: exact meaning of the three possible outcomes. -/
theorem lookup_with_dangling {t : Table} {c : Name} {self : ClassDecl} (hc : lookupClass t.classes c = some self)
    (p : Name) :
    (∀ o, getProperty t self p = .found o →
        Derives (toGraph t) c o.name ∧ DeclaresProp (toGraph t) o.name p) ∧
    (getProperty t self p = .notFound →
        ¬ Inherits (toGraph t) (fun a => DeclaresProp (toGraph t) a p) c ∧ ¬ DanglingFrom (toGraph t) c) ∧
    (∀ e, getProperty t self p = .error e → DanglingFrom (toGraph t) c) :=
  let h := property_lookup_spec hc p
  ⟨h.found_sound, h.notFound_sound, h.error_dangling⟩

def lookup_iff_declared_full_statement : Prop :=
  ∀ (t : Table) (c p : Name) (self : ClassDecl), lookupClass t.classes c = some self →
    ((∃ o, getProperty t self p = .found o) ↔ Inherits (toGraph t) (fun a => DeclaresProp (toGraph t) a p) c)

/-- F10: `Base` declares `p` and `C` publicly inherits `Base`, yet `C.get_property("p")` is
    `Err(InvalidTypeRef("Dangling"))`. -/
theorem lookup_iff_declared_refuted : ¬ lookup_iff_declared_full_statement := by
  intro h
  have hi : Inherits (toGraph tableF10) (fun a => DeclaresProp (toGraph tableF10) a "p") "C" :=
    ⟨"Base", f10_derives, nodeOf baseF10, rfl, by decide⟩
  obtain ⟨o, ho⟩ := (h tableF10 "C" "p" cF10 (by decide)).mpr hi
  have : getProperty tableF10 cF10 "p" = .error (.invalidTypeRef "Dangling") := by decide
  rw [this] at ho; cases ho

def own_declaration_first_full_statement : Prop :=
  ∀ (t : Table) (c p : Name) (self : ClassDecl), lookupClass t.classes c = some self →
    DeclaresProp (toGraph t) c p → getProperty t self p = .found self

def ownF10 : ClassDecl := { name := "C", supers := [("Dangling", true)], props := ["p"] }

/-- F10, second face: a class that declares `p` itself but lists an unresolved super class does not find its
    own property (`Property::new` resolves the type `int` through the class scope, which walks the bases). -/
theorem own_declaration_first_refuted : ¬ own_declaration_first_full_statement := by
  intro h
  have := h { classes := [ownF10] } "C" "p" ownF10 (by decide) ⟨nodeOf ownF10, rfl, by decide⟩
  revert this
  decide

/-- the same supers in the other order: both queries succeed — the outcome depends on the order in which
    the super classes are listed -/
example :
    let c : ClassDecl := { name := "C", supers := [("Base", true), ("Dangling", true)] }
    let t : Table := { classes := [baseF10, c] }
    isDerivedFrom t c baseF10 = true ∧ getProperty t c "p" = .found baseF10 := by decide

/-! methods -/

private theorem publicNames_eq (k : MethodKind) (l : List MethodDecl) :
    (l.filterMap fun m => if m.isPublic then some ({ name := m.name, kind := k, nargs := m.nargs } : MethodData) else none).map
      (·.name) = l.filterMap fun m => if m.isPublic then some m.name else none := by
  induction l with
  | nil => rfl
  | cons x xs ih =>
    by_cases hx : x.isPublic <;> simp [hx, ih]

private theorem publicMethods_names (d : ClassDecl) : (publicMethods d).map (·.name) = (nodeOf d).methods := by
  simp only [publicMethods, nodeOf, List.map_append, List.filterMap_append, publicNames_eq]

private theorem declaresMethod_iff {t : Table} (m : Name) (d : ClassDecl)
    (h : lookupClass t.classes d.name = some d) :
    methodSlice (methodTable d) m ≠ [] ↔ DeclaresMethod (toGraph t) d.name m := by
  unfold DeclaresMethod
  rw [classOf_handle h, methodSlice_methodTable]
  have key : (publicMethods d).filter (fun x => x.name = m) ≠ [] ↔ m ∈ (nodeOf d).methods := by
    rw [← publicMethods_names, List.mem_map, Ne, List.filter_eq_nil_iff]
    constructor
    · intro hne
      apply Classical.byContradiction
      intro hno
      apply hne
      intro x hx hxm
      exact hno ⟨x, hx, by simpa using hxm⟩
    · rintro ⟨x, hx, hxm⟩ hall
      exact hall x hx (by simpa using hxm)
  rw [key]
  constructor
  · intro hp; exact ⟨_, rfl, hp⟩
  · rintro ⟨_, hd, hp⟩; cases hd; exact hp

/-- **Methods**: all five clauses of `member_lookup_spec` for `get_public_method`. -/
theorem method_lookup_spec {t : Table} {c : Name} {self : ClassDecl} (hc : lookupClass t.classes c = some self)
    (m : Name) :
    LookupSpec t c self (getPublicMethod t self m) (·.1) (fun a => DeclaresMethod (toGraph t) a m) :=
  member_lookup_spec (getPublicMethod_member t m) (fun a => DeclaresMethod (toGraph t) a m) (declaresMethod_iff m) hc

theorem method_iff_declared {t : Table} {c : Name} {self : ClassDecl} (hc : lookupClass t.classes c = some self)
    (hnd : ¬ DanglingFrom (toGraph t) c) (m : Name) :
    (∃ r, getPublicMethod t self m = .found r) ↔ Inherits (toGraph t) (fun a => DeclaresMethod (toGraph t) a m) c :=
  (method_lookup_spec hc m).found_iff hnd

/-- **Method table**: what is found is the owner's public methods of that name — all of them, in declaration
    order (signals, slots, methods) — i.e. the binary search on the sorted table loses and adds nothing. -/
theorem method_table_lookup {t : Table} {self : ClassDecl} {m : Name} {r : ClassDecl × List MethodData}
    (h : getPublicMethod t self m = .found r) :
    r.2 = (publicMethods r.1).filter (fun x => x.name = m) ∧ r.2 ≠ [] := by
  have hs := getPublicMethod_found_slice h
  obtain ⟨d, _, hfd⟩ := fmsb_found h
  have := ((getPublicMethod_member t m).found d r hfd)
  rw [← this.1] at this
  rw [hs, ← methodSlice_methodTable]
  exact ⟨rfl, this.2⟩

/-! nested enums and enum variants -/

private theorem declaresEnum_iff {t : Table} (n : Name) (d : ClassDecl)
    (h : lookupClass t.classes d.name = some d) :
    (∃ e ∈ d.enums, e.name = n) ↔ DeclaresEnum (toGraph t) d.name n := by
  unfold DeclaresEnum
  rw [classOf_handle h]
  constructor
  · rintro ⟨e, he, hn⟩
    exact ⟨_, rfl, (e.name, e.isScoped, e.variants), List.mem_map.mpr ⟨e, he, rfl⟩, hn⟩
  · rintro ⟨_, hd, x, hx, hn⟩
    cases hd
    obtain ⟨e, he, rfl⟩ := List.mem_map.mp hx
    exact ⟨e, he, hn⟩

private theorem listsVariant_iff {t : Table} (v : Name) (d : ClassDecl)
    (h : lookupClass t.classes d.name = some d) :
    (∃ e ∈ d.enums, e.isScoped = false ∧ v ∈ e.variants) ↔ ListsVariant (toGraph t) d.name v := by
  unfold ListsVariant
  rw [classOf_handle h]
  constructor
  · rintro ⟨e, he, hs, hv⟩
    exact ⟨_, rfl, (e.name, e.isScoped, e.variants), List.mem_map.mpr ⟨e, he, rfl⟩, hs, hv⟩
  · rintro ⟨_, hd, x, hx, hs, hv⟩
    cases hd
    obtain ⟨e, he, rfl⟩ := List.mem_map.mp hx
    exact ⟨e, he, hs, hv⟩

/-- **Nested enums**: all five clauses for `Class::get_type`. -/
theorem nested_enum_lookup_spec {t : Table} {c : Name} {self : ClassDecl}
    (hc : lookupClass t.classes c = some self) (n : Name) :
    LookupSpec t c self (getType t self n) (·.1) (fun a => DeclaresEnum (toGraph t) a n) :=
  member_lookup_spec (getType_member t n) (fun a => DeclaresEnum (toGraph t) a n) (declaresEnum_iff n) hc

/-- **Enum variants**: all five clauses for `get_enum_by_variant`. -/
theorem variant_lookup_spec {t : Table} {c : Name} {self : ClassDecl}
    (hc : lookupClass t.classes c = some self) (v : Name) :
    LookupSpec t c self (getEnumByVariant t self v) (·.1) (fun a => ListsVariant (toGraph t) a v) :=
  member_lookup_spec (getEnumByVariant_member t v) (fun a => ListsVariant (toGraph t) a v) (listsVariant_iff v) hc

/-- **An enum variant resolves to the enum that lists it** (all tables): the enum returned is an unscoped
    nested enum of the class or of a public ancestor, and it lists the variant. -/
theorem variant_resolves_to_listing_enum {t : Table} {c : Name} {self : ClassDecl}
    (hc : lookupClass t.classes c = some self) {v : Name} {r : ClassDecl × EnumDecl}
    (h : getEnumByVariant t self v = .found r) :
    Derives (toGraph t) c r.1.name ∧ r.2 ∈ r.1.enums ∧ r.2.isScoped = false ∧ v ∈ r.2.variants :=
  ⟨((variant_lookup_spec hc v).found_sound r h).1, getEnumByVariant_found_enum h⟩

/-- a nested enum found by name is an enum of that name of the class or of a public ancestor (all tables) -/
theorem nested_enum_resolves {t : Table} {c : Name} {self : ClassDecl}
    (hc : lookupClass t.classes c = some self) {n : Name} {r : ClassDecl × EnumDecl}
    (h : getType t self n = .found r) :
    Derives (toGraph t) c r.1.name ∧ r.2 ∈ r.1.enums ∧ r.2.name = n :=
  ⟨((nested_enum_lookup_spec hc n).found_sound r h).1, getType_found_enum h⟩

/-! ### common base -/

/-- **A common base of two classes is an ancestor-or-self of both** (all tables). -/
theorem common_base_is_ancestor_of_both {t : Table} {a b : Name} {x y z : ClassDecl}
    (ha : lookupClass t.classes a = some x) (hb : lookupClass t.classes b = some y)
    (h : commonBaseClass t x y = .found z) :
    Derives (toGraph t) a z.name ∧ Derives (toGraph t) b z.name := by
  obtain ⟨h1, h2⟩ := commonBaseClass_found (lookupClass_self ha) (lookupClass_self hb) h
  exact ⟨derives_of_reach ha h1, derives_of_reach hb h2⟩

/-- … and one is found exactly when one exists (no reachable unresolved reference); "none" is right on all tables. -/
theorem common_base_exists_iff {t : Table} {a b : Name} {x y : ClassDecl}
    (ha : lookupClass t.classes a = some x) (hb : lookupClass t.classes b = some y)
    (hna : ¬ DanglingFrom (toGraph t) a) (hnb : ¬ DanglingFrom (toGraph t) b) :
    (∃ z, commonBaseClass t x y = .found z) ↔ ∃ n, Derives (toGraph t) a n ∧ Derives (toGraph t) b n := by
  constructor
  · rintro ⟨z, hz⟩
    exact ⟨z.name, common_base_is_ancestor_of_both ha hb hz⟩
  · rintro ⟨n, h1, h2⟩
    obtain ⟨z1, hz1, hr1⟩ := derives_reach h1 x ha
    obtain ⟨z2, hz2, hr2⟩ := derives_reach h2 y hb
    rw [hz1] at hz2; cases hz2
    exact commonBaseClass_complete (clean_of ha hna) (clean_of hb hnb) hr1 hr2

theorem common_base_with_dangling {t : Table} {a b : Name} {x y : ClassDecl}
    (ha : lookupClass t.classes a = some x) (hb : lookupClass t.classes b = some y) :
    (commonBaseClass t x y = .notFound → ¬ ∃ n, Derives (toGraph t) a n ∧ Derives (toGraph t) b n) ∧
    (∀ e, commonBaseClass t x y = .error e → DanglingFrom (toGraph t) a ∨ DanglingFrom (toGraph t) b) := by
  refine ⟨fun h => ?_, fun e h => ?_⟩
  · rintro ⟨n, h1, h2⟩
    obtain ⟨z1, hz1, hr1⟩ := derives_reach h1 x ha
    obtain ⟨z2, hz2, hr2⟩ := derives_reach h2 y hb
    rw [hz1] at hz2; cases hz2
    exact commonBaseClass_notFound h z1 hr1 hr2
  · rcases commonBaseClass_error h with h | h
    · exact .inl (dangling_of ha h)
    · exact .inr (dangling_of hb h)

/-! ### the specification's executable oracle (what kind=spec cases are compared with) -/

theorem spec_oracle_is_reachability {g : Graph} {a : String} {s : List String} (h : ancestors? g a = some s)
    (b : String) : b ∈ s ↔ Derives g a b := ancestors?_spec h b

/-! ### non-vacuity: a diamond, a cycle, a self-loop, private supers -/

def root : ClassDecl := { name := "Root", props := ["r"], enums := [{ name := "E", variants := ["V"] }] }
def mid1 : ClassDecl := { name := "Mid1", supers := [("Root", true)], props := ["m"] }
def mid2 : ClassDecl := { name := "Mid2", supers := [("Root", true)], props := ["m"], slots := [{ name := "s" }] }
def leaf : ClassDecl := { name := "Leaf", supers := [("Mid1", true), ("Mid2", true)] }
def diamond : Table := { classes := [root, mid1, mid2, leaf] }

example : baseClasses diamond leaf = [.ok mid1, .ok mid2, .ok root] := by decide
example : isDerivedFrom diamond leaf root = true ∧ isDerivedFrom diamond root leaf = false := by decide
example : getProperty diamond leaf "r" = .found root ∧ getProperty diamond leaf "m" = .found mid1 ∧
    getProperty diamond leaf "zz" = .notFound := by decide
example : getEnumByVariant diamond leaf "V" = .found (root, { name := "E", variants := ["V"] }) := by decide
example : getPublicMethod diamond leaf "s" = .found (mid2, [{ name := "s", kind := .slot, nargs := 0 }]) := by decide
example : commonBaseClass diamond mid1 mid2 = .found root := by decide
/-- the hypothesis "no reachable unresolved reference" is satisfiable -/
example : ¬ DanglingFrom (toGraph diamond) "Leaf" := by
  have h : Clean diamond leaf := by
    intro e he
    rw [show baseClasses diamond leaf = [.ok mid1, .ok mid2, .ok root] by decide] at he
    simp at he
  exact (clean_iff_not_dangling (t := diamond) (self := leaf) (by decide)).mp h

def cycA : ClassDecl := { name := "A", supers := [("B", true)], props := ["a"] }
def cycB : ClassDecl := { name := "B", supers := [("A", true), ("B", true)], props := ["b"] }
def cycP : ClassDecl := { name := "P", supers := [("A", false)] }
def cyclic : Table := { classes := [cycA, cycB, cycP] }

example : baseClasses cyclic cycA = [.ok cycB, .ok cycA] := by decide
example : baseClasses cyclic cycB = [.ok cycA, .ok cycB] := by decide
example : isDerivedFrom cyclic cycA cycB = true ∧ isDerivedFrom cyclic cycB cycA = true := by decide
example : getProperty cyclic cycA "b" = .found cycB ∧ getProperty cyclic cycA "zz" = .notFound := by decide
/-- private inheritance is not inheritance -/
example : baseClasses cyclic cycP = [] ∧ isDerivedFrom cyclic cycP cycA = false := by decide

/-! ### after the proposed repair of F10

  /verif/.work/C17.fix.diff makes the search continue past an unresolved super class (the first such error is
  reported only if nothing is found; `Class::get_type` does not report it, so member types still resolve in
  the enclosing scopes).  QV.Model.ClassGraph.Repaired models that code (same walk, same per-class lookups).
  For it the completeness clauses hold on **every** table — the `…_full_statement`s above, with the repaired
  functions in place of the current ones. -/
section repaired
open QV.Proofs.ClassGraph.Repaired

/-- `derives_iff_reachable_full_statement` for the repaired code -/
theorem derives_iff_reachable_repaired {t : Table} {a b : Name} {x y : ClassDecl}
    (ha : lookupClass t.classes a = some x) (hb : lookupClass t.classes b = some y) :
    Repaired.isDerivedFrom t x y = true ↔ Derives (toGraph t) a b := by
  rw [isDerivedFrom_iff (lookupClass_self ha) (lookupClass_self hb)]
  constructor
  · intro h
    have := derives_of_reach ha h
    rwa [lookupClass_name hb] at this
  · intro h
    obtain ⟨y', hy', hr⟩ := derives_reach h x ha
    rw [hb] at hy'; cases hy'; exact hr

/-- what the property says about a member lookup, without any side condition -/
structure LookupSpecAll {α : Type} (t : Table) (c : Name) (cls : ClassDecl) (res : Lookup α)
    (owner : α → ClassDecl) (Q : String → Prop) : Prop where
  found_sound : ∀ x, res = .found x → Derives (toGraph t) c (owner x).name ∧ Q (owner x).name
  found_iff : (∃ x, res = .found x) ↔ Inherits (toGraph t) Q c
  own_first : Q c → ∃ x, res = .found x ∧ owner x = cls

theorem member_lookup_repaired {α : Type} {t : Table} {f : ClassDecl → Lookup α} {P : ClassDecl → Prop}
    {owner : α → ClassDecl} (m : TotalMemberLookup f P owner) (Q : String → Prop)
    (hPQ : ∀ d, lookupClass t.classes d.name = some d → (P d ↔ Q d.name))
    {c : Name} {self : ClassDecl} (hc : lookupClass t.classes c = some self) :
    LookupSpecAll t c self (Repaired.findMapSelfAndBaseClasses t self f) owner Q := by
  have hself := lookupClass_self hc
  have hname := lookupClass_name hc
  have snd : ∀ x, Repaired.findMapSelfAndBaseClasses t self f = .found x →
      Derives (toGraph t) c (owner x).name ∧ Q (owner x).name := fun x h => by
    obtain ⟨hr, hp⟩ := m.sound h
    exact ⟨derives_of_reach hc hr, (hPQ _ (reach_handle hr hself)).mp hp⟩
  refine ⟨snd, ⟨fun ⟨x, h⟩ => ⟨_, snd x h⟩, ?_⟩, fun hq => ?_⟩
  · rintro ⟨a, hd, hq⟩
    obtain ⟨d, hd', hr⟩ := derives_reach hd self hc
    refine m.complete hr ((hPQ d (lookupClass_self hd')).mpr ?_)
    rwa [lookupClass_name hd']
  · refine m.own_first ((hPQ self hself).mpr ?_)
    rwa [hname]

/-- `lookup_iff_declared_full_statement` and `own_declaration_first_full_statement` for the repaired code -/
theorem property_lookup_repaired {t : Table} {c : Name} {self : ClassDecl}
    (hc : lookupClass t.classes c = some self) (p : Name) :
    LookupSpecAll t c self (Repaired.getProperty t self p) id (fun a => DeclaresProp (toGraph t) a p) :=
  member_lookup_repaired (getProperty_total t p) _ (declaresProp_iff p) hc

theorem method_lookup_repaired {t : Table} {c : Name} {self : ClassDecl}
    (hc : lookupClass t.classes c = some self) (m : Name) :
    LookupSpecAll t c self (Repaired.getPublicMethod t self m) (·.1) (fun a => DeclaresMethod (toGraph t) a m) :=
  member_lookup_repaired (getPublicMethod_total t m) _ (declaresMethod_iff m) hc

theorem variant_lookup_repaired {t : Table} {c : Name} {self : ClassDecl}
    (hc : lookupClass t.classes c = some self) (v : Name) :
    LookupSpecAll t c self (Repaired.getEnumByVariant t self v) (·.1) (fun a => ListsVariant (toGraph t) a v) :=
  member_lookup_repaired (getEnumByVariant_total v) _ (listsVariant_iff v) hc

theorem nested_enum_lookup_repaired {t : Table} {c : Name} {self : ClassDecl}
    (hc : lookupClass t.classes c = some self) (n : Name) :
    LookupSpecAll t c self (Repaired.getType t self n) (·.1) (fun a => DeclaresEnum (toGraph t) a n) := by
  have h := member_lookup_repaired (t := t) (getType_total n) (fun a => DeclaresEnum (toGraph t) a n)
    (declaresEnum_iff n) hc
  have ex : (∃ x, Repaired.getType t self n = .found x) ↔
      ∃ x, Repaired.findMapSelfAndBaseClasses t self (fun cls => getTypeNoSuper cls n) = .found x :=
    ⟨fun ⟨x, hx⟩ => ⟨x, getType_eq_found.mp hx⟩, fun ⟨x, hx⟩ => ⟨x, getType_eq_found.mpr hx⟩⟩
  refine ⟨fun x hx => h.found_sound x (getType_eq_found.mp hx), ex.trans h.found_iff, fun hq => ?_⟩
  obtain ⟨x, hx, ho⟩ := h.own_first hq
  exact ⟨x, getType_eq_found.mpr hx, ho⟩

/-- a common base is an ancestor-or-self of both, and one is found exactly when one exists — all tables -/
theorem common_base_repaired {t : Table} {a b : Name} {x y : ClassDecl}
    (ha : lookupClass t.classes a = some x) (hb : lookupClass t.classes b = some y) :
    (∀ z, Repaired.commonBaseClass t x y = .found z →
        Derives (toGraph t) a z.name ∧ Derives (toGraph t) b z.name) ∧
    ((∃ z, Repaired.commonBaseClass t x y = .found z) ↔
        ∃ n, Derives (toGraph t) a n ∧ Derives (toGraph t) b n) := by
  have snd : ∀ z, Repaired.commonBaseClass t x y = .found z →
      Derives (toGraph t) a z.name ∧ Derives (toGraph t) b z.name := fun z h => by
    obtain ⟨h1, h2⟩ := Repaired.commonBaseClass_found (lookupClass_self ha) (lookupClass_self hb) h
    exact ⟨derives_of_reach ha h1, derives_of_reach hb h2⟩
  refine ⟨snd, fun ⟨z, hz⟩ => ⟨z.name, snd z hz⟩, ?_⟩
  rintro ⟨n, h1, h2⟩
  obtain ⟨z1, hz1, hr1⟩ := derives_reach h1 x ha
  obtain ⟨z2, hz2, hr2⟩ := derives_reach h2 y hb
  rw [hz1] at hz2; cases hz2
  exact Repaired.commonBaseClass_complete (lookupClass_self ha) (lookupClass_self hb) hr1 hr2

/-- the F10 witnesses under the repaired code -/
example : Repaired.isDerivedFrom tableF10 cF10 baseF10 = true ∧ Repaired.getProperty tableF10 cF10 "p" = .found baseF10 ∧
    Repaired.getProperty tableF10 cF10 "absent" = .error (.invalidTypeRef "Dangling") ∧
    Repaired.getProperty { classes := [ownF10] } ownF10 "p" = .found ownF10 := by decide

end repaired

/-! ### which declaration decides (members with types)

  QV.Model.ClassGraph.Typed adds the member types the fragment above fixes to `int`/`void`.  A declaration
  whose type names do not resolve in the scope of the declaring class is an `Err`, and the search returns the
  answer — `Ok` or `Err` — of the first class that declares the name.  Stated against the specification
  (QV.Spec.GraphMembers): the answer is that of a class that `Decides` — it declares the name and is reached
  without passing another class that declares it; if the queried class declares the name, that is the class
  itself.  An unresolvable declaration therefore never falls through to an ancestor.  (An unresolved SUPER
  CLASS is different: it is skipped, and reported only if no class declares the name — F10.) -/
section typed
open QV.Model.ClassGraph.Typed QV.Proofs.ClassGraph.Typed

/-- what the property says about the look-up of one member name; `P x`: the class named `x` declares the name,
    `f d`: what the declaration of class `d` amounts to (`found`, or the error of its types) -/
structure DecidedBy {α : Type} (t : Table) (c : Name) (cls : ClassDecl) (P : String → Bool)
    (f : ClassDecl → Lookup α) (res : Lookup α) : Prop where
  /-- the class's own declaration, resolvable or not, is the answer -/
  own_first : P c = true → res = f cls
  /-- the answer is that of a declaring class that is not hidden; if nobody declares the name: "not found", or
      the deferred error of an unresolved super class -/
  decided :
    (∃ d, lookupClass t.classes d.name = some d ∧ Decides (toGraph t) P c d.name ∧ f d ≠ .notFound ∧ res = f d) ∨
    ((∀ a, Derives (toGraph t) c a → P a = false) ∧
      (res = .notFound ∨ ∃ e, res = .error e ∧ DanglingFrom (toGraph t) c))

/-- **The unhidden declaration decides** — for every table (cycles, diamonds, dangling names included) and every
    per-class look-up `f` that answers exactly on the classes declaring the name. -/
theorem search_decided {α : Type} {t : Table} {f : ClassDecl → Lookup α} {P : String → Bool}
    (hP : ∀ x, lookupClass t.classes x.name = some x → (f x = .notFound ↔ P x.name = false))
    {c : Name} {self : ClassDecl} (hc : lookupClass t.classes c = some self) :
    DecidedBy t c self P f (Repaired.findMapSelfAndBaseClasses t self f) := by
  have hself := lookupClass_self hc
  have hname := lookupClass_name hc
  have hans : ∀ x, lookupClass t.classes x.name = some x → (f x ≠ .notFound ↔ P x.name = true) := by
    intro x hx
    have := hP x hx
    cases hpx : P x.name with
    | true => rw [hpx] at this; simp only [Bool.true_eq_false, iff_false] at this; simp [this]
    | false => rw [hpx] at this; simp [this.mpr rfl]
  refine ⟨fun hp => ?_, ?_⟩
  · apply fmsb_own
    rw [← hname] at hp
    exact (hans self hself).mpr hp
  · rcases fmsb_decider t self f with ⟨d, hu, hfd, hres⟩ | ⟨hall, hres⟩
    · have hd := reach_handle hu.reach hself
      have hder := unhidden_derives_cut (P := P) hP hself hu
      rw [hname] at hder
      exact .inl ⟨d, hd, ⟨hder, (hans d hd).mp hfd⟩, hfd, hres⟩
    · refine .inr ⟨fun a ha => ?_, ?_⟩
      · obtain ⟨b, hb, hr⟩ := derives_reach ha self hc
        have := (hP b (lookupClass_self hb)).mp (hall b hr)
        rwa [lookupClass_name hb] at this
      · rcases hres with h | ⟨e, h1, h2⟩
        · exact .inl h
        · exact .inr ⟨e, h1, (base_classes_errors hc).mp ⟨e, h2⟩⟩

/-- **On a chain the nearest declaring class decides**: when only one class can decide (single inheritance
    above the queried class, or the class declares the name itself) the answer is exactly that class's. -/
theorem unique_decider_decides {α : Type} {t : Table} {c : Name} {self : ClassDecl} {P : String → Bool}
    {f : ClassDecl → Lookup α} {res : Lookup α} (h : DecidedBy t c self P f res)
    (huniq : ∀ a b, Decides (toGraph t) P c a → Decides (toGraph t) P c b → a = b)
    {d : ClassDecl} (hd : lookupClass t.classes d.name = some d) (hdec : Decides (toGraph t) P c d.name) :
    res = f d := by
  rcases h.decided with ⟨d', hd', hdec', _, hres⟩ | ⟨hnone, _⟩
  · have := handle_eq_of_name_eq hd' hd (huniq _ _ hdec' hdec)
    rw [← this]; exact hres
  · have := hnone d.name (derives_of_cut hdec.1)
    rw [hdec.2] at this; cases this

/-- the class named `x` declares a property `p` -/
def declaresPropB (t : TableT) (p : Name) (x : String) : Bool :=
  match lookupClassT t.classes x with
  | some d => (lookupProp d.props p).isSome
  | none => false

/-- the class named `x` declares a public signal, slot or method `m` -/
def declaresMethodB (t : TableT) (m : Name) (x : String) : Bool :=
  match lookupClassT t.classes x with
  | some d => !(methodSlice (methodTableT d) m).isEmpty
  | none => false

private theorem propAt_iff {t : TableT} (p : Name) (x : ClassDecl) (hx : lookupClass t.erase.classes x.name = some x) :
    propAt t x p = .notFound ↔ declaresPropB t p x.name = false := by
  obtain ⟨d, hd, _⟩ := handle_typed hx
  unfold propAt declaresPropB
  rw [hd]
  simp only
  cases lookupProp d.props p with
  | none => simp
  | some pd =>
    simp only [Option.isSome_some, Bool.true_eq_false, iff_false]
    cases resolveTypeExpr t.erase x pd.ty <;> simp

private theorem methodAt_iff {t : TableT} (m : Name) (x : ClassDecl) (hx : lookupClass t.erase.classes x.name = some x) :
    methodAt t x m = .notFound ↔ declaresMethodB t m x.name = false := by
  obtain ⟨d, hd, _⟩ := handle_typed hx
  unfold methodAt declaresMethodB
  rw [hd]
  simp only
  cases methodSlice (methodTableT d) m with
  | nil => simp
  | cons y ys =>
    simp only [List.isEmpty_cons, Bool.not_false, Bool.true_eq_false, iff_false]
    cases resolveAll t.erase x ((y :: ys).flatMap methodTypes) <;> simp

/-- **Properties**: the look-up is decided by an unhidden declaration of the name; its answer is that class
    (`propAt_found`) or the error of the declared type. -/
theorem property_decided {t : TableT} {c : Name} {self : ClassDecl} (hc : lookupClass t.erase.classes c = some self)
    (p : Name) :
    DecidedBy t.erase c self (declaresPropB t p) (fun d => propAt t d p) (Typed.getProperty t self p) :=
  search_decided (propAt_iff p) hc

/-- **Methods** (signals, slots, invokable methods; all overloads of the name of ONE class): the look-up is decided
    by an unhidden class declaring the name; the answer is that class's overloads in declaration order
    (`methodAt_found`, `methodSlice_methodTableT`) or the first error among their types — one overload that does not
    resolve fails the name. -/
theorem method_decided {t : TableT} {c : Name} {self : ClassDecl} (hc : lookupClass t.erase.classes c = some self)
    (m : Name) :
    DecidedBy t.erase c self (declaresMethodB t m) (fun d => methodAt t d m) (Typed.getPublicMethod t self m) :=
  search_decided (methodAt_iff m) hc

/-- **Own declaration first, resolvable or not**: when the class declares the property itself, the answer is the
    class — or the error of ITS declaration's type; no ancestor is consulted. -/
theorem own_property_declaration_decides {t : TableT} {c : Name} {d : ClassDeclT} {pd : PropDecl}
    (hd : lookupClassT t.classes c = some d) (p : Name) (hp : lookupProp d.props p = some pd) :
    Typed.getProperty t d.erase p =
      (match resolveTypeExpr t.erase d.erase pd.ty with
       | .ok _ => .found d.erase
       | .error e => .error e) := by
  have hh := typed_handle hd
  have hn : d.erase.name = c := by rw [erase_name]; exact lookupClassT_name hd
  have hc : lookupClass t.erase.classes c = some d.erase := by rw [← hn]; exact hh
  have hd' : lookupClassT t.classes d.erase.name = some d := by rw [hn]; exact hd
  have hown := (property_decided hc p).own_first (by simp [declaresPropB, hd, hp])
  rw [hown]
  show propAt t d.erase p = _
  unfold propAt
  rw [hd']
  simp only [hp]
  rfl

/-- **No silent fall-through**: an own declaration whose type does not resolve is an error — whatever the base
    classes declare. -/
theorem unresolvable_own_property_is_error {t : TableT} {c : Name} {d : ClassDeclT} {pd : PropDecl} {e : TypeMapError}
    (hd : lookupClassT t.classes c = some d) (p : Name) (hp : lookupProp d.props p = some pd)
    (he : resolveTypeExpr t.erase d.erase pd.ty = .error e) :
    Typed.getProperty t d.erase p = .error e := by
  rw [own_property_declaration_decides hd p hp, he]

theorem own_method_declaration_decides {t : TableT} {c : Name} {d : ClassDeclT}
    (hd : lookupClassT t.classes c = some d) (m : Name) (hm : methodSlice (methodTableT d) m ≠ []) :
    Typed.getPublicMethod t d.erase m =
      (match resolveAll t.erase d.erase ((methodSlice (methodTableT d) m).flatMap methodTypes) with
       | .ok _ => .found (d.erase, methodSlice (methodTableT d) m)
       | .error e => .error e) := by
  have hh := typed_handle hd
  have hn : d.erase.name = c := by rw [erase_name]; exact lookupClassT_name hd
  have hc : lookupClass t.erase.classes c = some d.erase := by rw [← hn]; exact hh
  have hd' : lookupClassT t.classes d.erase.name = some d := by rw [hn]; exact hd
  have hdecl : declaresMethodB t m c = true := by
    unfold declaresMethodB
    rw [hd]
    show (!(methodSlice (methodTableT d) m).isEmpty) = true
    cases hs : methodSlice (methodTableT d) m with
    | nil => exact absurd hs hm
    | cons _ _ => rfl
  have hown := (method_decided hc m).own_first hdecl
  rw [hown]
  show methodAt t d.erase m = _
  unfold methodAt
  rw [hd']
  show (match methodSlice (methodTableT d) m with
    | [] => Lookup.notFound
    | ms => match resolveAll t.erase d.erase (ms.flatMap methodTypes) with
      | .ok _ => Lookup.found (d.erase, ms)
      | .error e => Lookup.error e) = _
  cases hs : methodSlice (methodTableT d) m with
  | nil => exact absurd hs hm
  | cons y ys => rfl

/-- one overload whose return or argument type does not resolve fails the class's own method name — the base
    classes' methods of that name are not consulted -/
theorem unresolvable_own_method_is_error {t : TableT} {c : Name} {d : ClassDeclT} {e : TypeMapError}
    (hd : lookupClassT t.classes c = some d) (m : Name) (hm : methodSlice (methodTableT d) m ≠ [])
    (he : resolveAll t.erase d.erase ((methodSlice (methodTableT d) m).flatMap methodTypes) = .error e) :
    Typed.getPublicMethod t d.erase m = .error e := by
  rw [own_method_declaration_decides hd m hm, he]

/-- **Enumerators and nested enums** never fail to resolve: the unhidden enum that lists the variant / has the name
    is found (`getEnumByVariantNoSuper`, `getTypeNoSuper` answer `found` or `notFound` only). -/
theorem variant_decided {t : Table} {c : Name} {self : ClassDecl} (hc : lookupClass t.classes c = some self) (v : Name) :
    DecidedBy t c self (fun x => match lookupClass t.classes x with
        | some d => (lookupEnumByVariant d.enums v).isSome
        | none => false)
      (fun d => getEnumByVariantNoSuper d v) (Repaired.getEnumByVariant t self v) := by
  refine search_decided (fun x hx => ?_) hc
  rw [hx]
  show _ ↔ (lookupEnumByVariant x.enums v).isSome = false
  unfold getEnumByVariantNoSuper
  cases lookupEnumByVariant x.enums v <;> simp

/-- the typed model extends the untyped one: the default member types always resolve -/
theorem default_types_resolve (t : Table) (d : ClassDecl) :
    resolveTypeExpr t d .int = .ok () ∧ resolveTypeExpr t d .void = .ok () :=
  ⟨resolve_int t d, resolve_void t d⟩

/-- **The typed model extends the untyped one**: on a table whose properties all have the default type the typed
    look-up is `Repaired.getProperty` on the table with the types forgotten — so `property_lookup_repaired` and the
    other theorems above speak about what the driver's `cg` answers (methods: tied by the stream, every untyped
    request is answered by the typed model). -/
theorem typed_property_extends_untyped {t : TableT} (hdef : DefaultPropTypes t) {c : Name} {self : ClassDecl}
    (hc : lookupClass t.erase.classes c = some self) (p : Name) :
    Typed.getProperty t self p = Repaired.getProperty t.erase self p :=
  getProperty_default hdef (lookupClass_self hc) p

/-! ### scoped names `A::B` as a query: only members, never what is merely visible -/

private theorem scopedTail_none (t : Table) (l : List Name) : scopedTail t none l = none := by
  cases l <;> rfl

/-- **`A::B…` is found only through members**: a scoped name of two or more parts looked up on the module is found
    only if it has exactly two parts, `A` is a class, and `B` is a nested enum found by the member look-up of `A` —
    the result is that enum of its declaring class.  A third part never resolves (enums have no nested types), and
    a first part that is not a class (module enum, builtin, unknown) has no members at all. -/
theorem scoped_found_only_members {t : Table} {a b : Name} {rest : List Name} {x : Named}
    (h : moduleGetTypeScoped t (a :: b :: rest) = some x) :
    rest = [] ∧ ∃ c, lookupClass t.classes a = some c ∧
      ∃ y, Repaired.getType t c b = .found y ∧ x = .nested y.1 y.2.name := by
  have h' : scopedTail t (moduleGetType t a) (b :: rest) = some x := h
  unfold moduleGetType at h'
  cases hc : lookupClass t.classes a with
  | none =>
    rw [hc] at h'
    simp only at h'
    split at h'
    · simp only [scopedTail, namedGetType, scopedTail_none] at h'; cases h'
    · simp only [scopedTail_none] at h'; cases h'
  | some c =>
    rw [hc] at h'
    simp only [scopedTail, namedGetType] at h'
    cases hg : Repaired.getType t c b with
    | notFound => rw [hg] at h'; simp only [scopedTail_none] at h'; cases h'
    | error e => rw [hg] at h'; simp only [scopedTail_none] at h'; cases h'
    | found y =>
      rw [hg] at h'
      simp only at h'
      cases rest with
      | nil => simp only [scopedTail] at h'; cases h'; exact ⟨rfl, c, rfl, y, hg, rfl⟩
      | cons r rs => simp only [scopedTail, namedGetType, scopedTail_none] at h'; cases h'

/-- **`A::B` is found exactly when `A` or a public ancestor of `A` declares the nested enum `B`** — every table; the
    enum found belongs to a class `A` derives from and that declares it (not a descendant, a sibling, a top-level
    class, a builtin, `A` itself or an enumerator). -/
theorem scoped_found_iff_member {t : Table} {a : Name} {c : ClassDecl} (hc : lookupClass t.classes a = some c) (b : Name) :
    ((∃ x, moduleGetTypeScoped t [a, b] = some x) ↔ Inherits (toGraph t) (fun z => DeclaresEnum (toGraph t) z b) a) ∧
    (∀ o n, moduleGetTypeScoped t [a, b] = some (.nested o n) →
      n = b ∧ Derives (toGraph t) a o.name ∧ DeclaresEnum (toGraph t) o.name b) := by
  have hl := nested_enum_lookup_repaired hc b
  have heq : moduleGetTypeScoped t [a, b] =
      (match Repaired.getType t c b with
       | .found y => some (.nested y.1 y.2.name)
       | _ => none) := by
    show scopedTail t (moduleGetType t a) [b] = _
    unfold moduleGetType
    rw [hc]
    simp only [scopedTail, namedGetType]
    cases Repaired.getType t c b <;> rfl
  refine ⟨?_, ?_⟩
  · rw [← hl.found_iff, heq]
    constructor
    · rintro ⟨x, hx⟩
      cases hg : Repaired.getType t c b with
      | found y => exact ⟨y, rfl⟩
      | notFound => rw [hg] at hx; cases hx
      | error e => rw [hg] at hx; cases hx
    · rintro ⟨y, hy⟩
      rw [hy]; exact ⟨_, rfl⟩
  · intro o n h
    rw [heq] at h
    cases hg : Repaired.getType t c b with
    | notFound => rw [hg] at h; cases h
    | error e => rw [hg] at h; cases h
    | found y =>
      rw [hg] at h
      simp only [Option.some.injEq, Named.nested.injEq] at h
      obtain ⟨h1, h2⟩ := h
      have hs := hl.found_sound y hg
      have hen : y.2.name = b := by
        obtain ⟨d, _, hd⟩ := Repaired.fmsb_found (Repaired.getType_eq_found.mp hg)
        unfold getTypeNoSuper at hd
        split at hd
        · next e he => cases hd; exact (lookupEnum_some he).2
        · cases hd
      rw [← h1, ← h2]
      exact ⟨hen, hs.1, hs.2⟩

example :
    moduleGetTypeScoped diamond ["Leaf", "E"] = some (.nested root "E") ∧
    moduleGetTypeScoped diamond ["Leaf", "Mid1"] = none ∧ moduleGetTypeScoped diamond ["Leaf", "Leaf"] = none ∧
    moduleGetTypeScoped diamond ["Leaf", "int"] = none ∧ moduleGetTypeScoped diamond ["Leaf", "V"] = none ∧
    moduleGetTypeScoped diamond ["Leaf", "E", "V"] = none ∧ moduleGetTypeScoped diamond ["int", "E"] = none ∧
    classResolveTypeScoped diamond leaf ["int"] = some (.prim "int") ∧
    classResolveTypeScoped diamond leaf ["Mid1", "E"] = some (.nested root "E") ∧
    classResolveTypeScoped diamond leaf ["Mid1", "Root"] = none := by decide

/-! witnesses (the shapes the seeded change C17/4 was demonstrated on) -/

def baseMeter : ClassDeclT := { name := "BaseMeter", props := [{ name := "level" }], slots := [{ name := "update" }] }
def fancyMeter : ClassDeclT :=
  { name := "FancyMeter", supers := [("BaseMeter", true)],
    props := [{ name := "level", ty := .named "LevelSpec" ["LevelSpec"] }],
    slots := [{ name := "update", args := [.named "QModelIndex" ["QModelIndex"]] }] }
def plainMeter : ClassDeclT := { name := "PlainMeter", supers := [("FancyMeter", true)] }
def meters : TableT := { classes := [baseMeter, fancyMeter, plainMeter] }

/-- own unresolvable declaration: an error, although the base class declares the same name resolvably -/
example : Typed.getProperty meters fancyMeter.erase "level" = .error (.invalidTypeRef "LevelSpec") ∧
    Typed.getPublicMethod meters fancyMeter.erase "update" = .error (.invalidTypeRef "QModelIndex") := by decide
/-- … and the nearest (unresolvable) declaration decides for a class further down -/
example : Typed.getProperty meters plainMeter.erase "level" = .error (.invalidTypeRef "LevelSpec") ∧
    Typed.getProperty meters baseMeter.erase "level" = .found baseMeter.erase := by decide
/-- a nested enum of a base class is a resolvable member type in the derived class; a scoped name must name a
    nested type of the class it is scoped by; unknown decorations are an error of their own -/
def scopeA : ClassDeclT := { name := "A", enums := [{ name := "E", variants := ["V"] }] }
def scopeB : ClassDeclT :=
  { name := "B", supers := [("A", true)],
    props := [{ name := "e", ty := .named "E" ["E"] }, { name := "q", ty := .named "A::E" ["A", "E"] },
              { name := "x", ty := .named "A::X" ["A", "X"] }, { name := "l", ty := .list (.named "B" ["B"]) },
              { name := "u", ty := .unsupported "QMap<int,int>" }] }
def scopes : TableT := { classes := [scopeA, scopeB] }
example :
    Typed.getProperty scopes scopeB.erase "e" = .found scopeB.erase ∧
    Typed.getProperty scopes scopeB.erase "q" = .found scopeB.erase ∧
    Typed.getProperty scopes scopeB.erase "x" = .error (.invalidTypeRef "A::X") ∧
    Typed.getProperty scopes scopeB.erase "l" = .found scopeB.erase ∧
    Typed.getProperty scopes scopeB.erase "u" = .error (.unsupportedDecoration "QMap<int,int>") := by decide

end typed

end QV.Props.C17
