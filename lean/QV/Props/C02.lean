/-
  C02 — Dynamic bindings stay current when any property they read changes.

  Model:  QV.Model.Finalize (`analyzeBlock`, `analyzePropertyDependency` = /repo/lib/src/tir/propdep.rs),
          QV.Model.Observe (`covered`, the abstract signal/slot world, `run`/`update`/`setup`/`Step`,
          `findNotifySignal` = typemap/class.rs `find_notify_signal`).
  Lemmas: QV.Proofs.PropDep (two-pass = one-pass `annotate`), QV.Proofs.Observe (trace, fold, frame, invariant).

  (a) `propdep_covers`        every output of the analysis without diagnostic/panic passes `covered`.
  (b) `binding_current`       covered body ⇒ after `setup` and any history of changes the target is current.
  (c) `unobservable_rejected` a read of a non-constant notify-less property through a pointer is diagnosed.
  (d) `notify_choice`         characterisation of `find_notify_signal`; `notify_choice_verifEnv`: it reproduces the
                              notify signal of every property of the regenerated verification environment.

  Fragment of (b) (`QV.Model.Observe.evalR/runFrom`): `readProperty` through a pointer reads the world (null = undefined);
  `copy` exact; every other rvalue is an arbitrary deterministic function `S.pure` of its operands' values (operators, casts,
  builtins, gadget reads, *pure* method calls — a method whose result depends on hidden object state is not a property
  and is outside the property text); `writeProperty`/`writeSubscript` inside a binding and evaluations that come back
  to a block are undefined (`none`).  The theorem speaks about histories along which every evaluation is defined
  (`Steps` exists only then).  Outside the abstract world: queued connections, threads, deletion of observed objects.
-/
import QV.Proofs.Observe
import QV.Proofs.PropDep
import QV.Gen.VerifEnv
import QV.Proofs.PropDepBuild
import QV.Proofs.InterpEntry

namespace QV.Props.C02
open QV.Model QV.Model.Observe QV.Proofs.Observe QV.Proofs.PropDep

/-- the builder never emits observe statements; the analysis is run once on such a body -/
def noObserve (c : CodeBody) : Prop := ∀ b ∈ c.blocks, ∀ s ∈ b.statements, stmtObs s = []

/-- (a) the model of propdep.rs always produces covered code (for EVERY body, any static deps / observer count it
    started with), whenever it reports no diagnostic and does not panic -/
theorem propdep_covers (c : CodeBody) (hno : noObserve c)
    (hd : (analyzePropertyDependency c).2.1 = []) (hp : (analyzePropertyDependency c).2.2 = none) :
    covered (analyzePropertyDependency c).1 = true := by
  rw [apd_eq] at hd hp ⊢
  obtain ⟨B, D, G, N, P, he, f1, f2, _⟩ :=
    fold_facts c.locals.length c.blocks [] c.staticDeps [] c.observerCount none
  simp only [he] at hd hp ⊢
  simp only [List.nil_append, Option.none_or] at hd hp ⊢
  have hobs := f2 hno
  simp only [covered, allObs, Bool.and_eq_true, List.all_eq_true, decide_eq_true_eq]
  refine ⟨⟨fun b hb => f1 hd hp _ (fun e he => List.mem_append_right _ he) b hb, ?_⟩, ?_⟩
  · exact decide_eq_true (by rw [hobs]; exact List.nodup_range' (step := 1) (by decide))
  · intro e he
    have : e.1 ∈ (B.flatMap blockObs).map (·.1) := List.mem_map_of_mem he
    rw [hobs, List.mem_range'_1] at this
    exact this.2

/-- (b) for any covered body: after `setup()` and after any finite history of property changes with notification
    (value changes, re-pointing and nulling of the pointer properties the binding reads through, changes of unrelated
    or notify-less properties), the target holds the value of the expression in the current state -/
theorem binding_current (S : Sem) (c : CodeBody) (hc : covered c = true) (s0 : Store) (W0 W : World)
    (hist : List Change) (h0 : setup S c s0 = some W0) (hs : Steps S c W0 hist W) :
    W.target = evalBody S c W.store ∧ (evalBody S c W.store).isSome = true := by
  have i0 : Inv S c W0 := (update_establishes hc (obsWf_init c) h0).1
  obtain ⟨_, v, e, hr, ht, _⟩ := steps_inv hc hs i0
  simp [evalBody, hr, ht]

/-- the invariant itself: besides being current, everything the last evaluation read is subscribed -/
theorem binding_subscribed (S : Sem) (c : CodeBody) (hc : covered c = true) (s0 : Store) (W0 W : World)
    (hist : List Change) (h0 : setup S c s0 = some W0) (hs : Steps S c W0 hist W) : Inv S c W :=
  steps_inv hc hs (update_establishes hc (obsWf_init c) h0).1

/-- the executable step (`stepFn`, used by the driver on real IR) is a step of the relation -/
theorem stepFn_step (S : Sem) (c : CodeBody) (W W' : World) (ch : Change) (hk : ch.prop.constant = false)
    (h : stepFn S c W ch = some W') : Step S c W ch W' := by
  unfold stepFn at h
  split at h
  · rename_i sig hsig
    simp only at h
    generalize hn : ((staticConns S c).eraseDups.filter (· = (ch.obj, sig))).length +
      ((List.range c.observerCount).filter fun h => decide ((W.obs h).conn = some (ch.obj, sig))).length = n at h
    cases n with
    | zero =>
      simp at h; subst h
      refine .quiet hk ?_
      intro sig' hs'
      rw [hsig] at hs'; injection hs' with hs'; injection hs' with hs'; subst hs'
      have h1 : ((staticConns S c).eraseDups.filter (· = (ch.obj, sig))).length = 0 := by omega
      have h2 : ((List.range c.observerCount).filter
          fun h => decide ((W.obs h).conn = some (ch.obj, sig))).length = 0 := by omega
      simp only [List.length_eq_zero_iff, List.filter_eq_nil_iff, List.mem_eraseDups, List.mem_range,
        decide_eq_true_eq] at h1 h2
      simp only [live, Bool.or_eq_false_iff, decide_eq_false_iff_not, List.any_eq_false, List.mem_range,
        decide_eq_true_eq]
      exact ⟨fun hm => h1 _ hm rfl, h2⟩
    | succ n =>
      refine .notify hk hsig ?_ (fold_delivered n _ _ h)
      simp only [live, Bool.or_eq_true, decide_eq_true_eq, List.any_eq_true, List.mem_range]
      by_cases h1 : ((staticConns S c).eraseDups.filter (· = (ch.obj, sig))).length = 0
      · have h2 : ((List.range c.observerCount).filter
            fun h => decide ((W.obs h).conn = some (ch.obj, sig))).length ≠ 0 := by omega
        right
        obtain ⟨x, hx⟩ := List.exists_mem_of_length_pos (Nat.pos_of_ne_zero h2)
        simp only [List.mem_filter, List.mem_range, decide_eq_true_eq] at hx
        exact ⟨x, hx.1, hx.2⟩
      · left
        obtain ⟨x, hx⟩ := List.exists_mem_of_length_pos (Nat.pos_of_ne_zero h1)
        simp only [List.mem_filter, List.mem_eraseDups, decide_eq_true_eq] at hx
        exact hx.2 ▸ hx.1
  · injection h with h; subst h
    exact .quiet hk (fun sig hs => by rename_i hne; exact absurd hs (hne sig))

/-- (c) "rejected rather than stale": a statement that reads a non-constant property without notify signal through a
    pointer makes `analyze_block` report `unobservable property: <name>` -/
theorem unobservable_rejected (stmts : List Statement) (n start : Nat) (s : Statement) (a : Operand) (p : PropInfo)
    (hs : s ∈ stmts) (hshape : (∃ l, s = .assign l (.readProperty a p)) ∨ s = .exec (.readProperty a p))
    (hptr : a.typeDesc.isPointer = true) (hconst : p.constant = false) (hnotify : p.notify = none) :
    s!"unobservable property: {p.name}" ∈ (analyzeBlock stmts n start).2.2.1 := by
  rw [analyzeBlock_eq]
  refine scan_diag stmts _ 0 s _ hs ?_
  intro locals'
  rcases hshape with ⟨l, rfl⟩ | rfl <;> simp [decision, readDecision, hptr, hconst, hnotify]

/-- … and therefore the whole analysis reports a diagnostic (the document is then not generated at all: C04) -/
theorem unobservable_body_rejected (c : CodeBody) (h : hasUnobservableRead c = true) :
    (analyzePropertyDependency c).2.1 ≠ [] := by
  rw [apd_eq]
  obtain ⟨B, D, G, N, P, he, _, _, f3⟩ :=
    fold_facts c.locals.length c.blocks [] c.staticDeps [] c.observerCount none
  simp only [he, List.nil_append]
  simp only [hasUnobservableRead, List.any_eq_true] at h
  obtain ⟨b, hb, s, hs, hu⟩ := h
  have key : ∃ a p, ((∃ l, s = .assign l (.readProperty a p)) ∨ s = .exec (.readProperty a p)) ∧
      a.typeDesc.isPointer = true ∧ p.constant = false ∧ p.notify = none := by
    unfold unobservableRead at hu
    split at hu
    · rename_i l a p
      simp only [Bool.and_eq_true, Bool.not_eq_true', Option.isNone_iff_eq_none] at hu
      exact ⟨a, p, Or.inl ⟨l, rfl⟩, hu.1.1, hu.1.2, hu.2⟩
    · rename_i a p
      simp only [Bool.and_eq_true, Bool.not_eq_true', Option.isNone_iff_eq_none] at hu
      exact ⟨a, p, Or.inr rfl, hu.1.1, hu.1.2, hu.2⟩
    · exact absurd hu (by simp)
  obtain ⟨a, p, hshape, h1, h2, h3⟩ := key
  have hm := unobservable_rejected b.statements c.locals.length 0 s a p hs hshape h1 h2 h3
  rw [analyzeBlock_eq] at hm
  intro hG
  have := f3 b hb _ hm
  rw [hG] at this; exact absurd this (by simp)

/-! ### (d) notify-signal selection -/

theorem findNotify_invariant (ty : TypeKind) : ∀ (ms pre : List MethodInfo) (best : Option MethodInfo),
    (match best with
     | none => ∀ m ∈ pre, notifyEligible ty m = false
     | some r => r ∈ pre ∧ notifyEligible ty r = true ∧ ∀ m ∈ pre, notifyEligible ty m = true → m.args.length ≤ r.args.length) →
    match ms.foldl (findNotifyStep ty) best with
    | none => ∀ m ∈ pre ++ ms, notifyEligible ty m = false
    | some r => r ∈ pre ++ ms ∧ notifyEligible ty r = true ∧
        ∀ m ∈ pre ++ ms, notifyEligible ty m = true → m.args.length ≤ r.args.length
  | [], pre, best, h => by simpa using h
  | m :: ms, pre, best, h => by
    have := findNotify_invariant ty ms (pre ++ [m]) (findNotifyStep ty best m) (by
      cases best with
      | none =>
        simp only [findNotifyStep]
        cases he : notifyEligible ty m with
        | true =>
          simp only [Bool.false_eq_true, if_false, if_true]
          refine ⟨by simp, he, ?_⟩
          intro x hx hxe
          rcases List.mem_append.mp hx with hx | hx
          · rw [h x hx] at hxe; exact absurd hxe (by simp)
          · simp at hx; subst hx; exact Nat.le_refl _
        | false =>
          simp only [Bool.false_eq_true, if_false]
          intro x hx
          rcases List.mem_append.mp hx with hx | hx
          · exact h x hx
          · simp at hx; subst hx; exact he
      | some r =>
        obtain ⟨h1, h2, h3⟩ := h
        simp only [findNotifyStep, decide_eq_true_eq]
        by_cases hle : m.args.length ≤ r.args.length
        · simp only [hle, if_true]
          refine ⟨List.mem_append_left _ h1, h2, ?_⟩
          intro x hx hxe
          rcases List.mem_append.mp hx with hx | hx
          · exact h3 x hx hxe
          · simp at hx; subst hx; exact hle
        · simp only [hle, if_false]
          cases he : notifyEligible ty m with
          | true =>
            simp only [if_true]
            refine ⟨by simp, he, ?_⟩
            intro x hx hxe
            rcases List.mem_append.mp hx with hx | hx
            · have := h3 x hx hxe; omega
            · simp at hx; subst hx; exact Nat.le_refl _
          | false =>
            simp only [Bool.false_eq_true, if_false]
            refine ⟨List.mem_append_left _ h1, h2, ?_⟩
            intro x hx hxe
            rcases List.mem_append.mp hx with hx | hx
            · exact h3 x hx hxe
            · simp at hx; subst hx; rw [he] at hxe; exact absurd hxe (by simp))
    simpa [List.append_assoc] using this

/-- (d) `find_notify_signal` returns a *signal* among the overloads of that name that takes no argument or whose first
    argument has the property's type, with the most arguments among those; it fails iff there is none -/
theorem notify_choice (overloads : List MethodInfo) (ty : TypeKind) :
    match findNotifySignal overloads ty with
    | none => ∀ m ∈ overloads, m.kind = .signal → notifyEligible ty m = false
    | some r => r ∈ overloads ∧ r.kind = .signal ∧ notifyEligible ty r = true ∧
        ∀ m ∈ overloads, m.kind = .signal → notifyEligible ty m = true → m.args.length ≤ r.args.length := by
  have := findNotify_invariant ty (overloads.filter fun m => m.kind = .signal) [] none (by simp)
  unfold findNotifySignal
  split at this
  · intro m hm hk
    exact this m (by simp [hm, hk])
  · obtain ⟨h1, h2, h3⟩ := this
    simp only [List.nil_append, List.mem_filter, decide_eq_true_eq] at h1 h3
    exact ⟨h1.1, h1.2, h2, fun m hm hk he => h3 m ⟨hm, hk⟩ he⟩

/-- tie of (d) to the running code: for every class of the regenerated environment and every property whose notify
    signal the real type map resolved, the model's choice among the real overload list is that signal -/
def notifyAgrees (env : Env) : Bool :=
  env.classes.all fun c => c.props.all fun p =>
    match p.notify with
    | some (some m) =>
      (match c.methods.find? (·.1 = m.name) with
       | some (_, ovs) => findNotifySignal ovs p.ty == some m
       | none => true)
    | _ => true

set_option maxRecDepth 100000 in
theorem notify_choice_verifEnv : notifyAgrees QV.Gen.verifEnv = true := by decide +kernel

/-! ### non-vacuity -/

section Examples
def sigOf (cls n : String) : MethodInfo := { cls := cls, name := n, args := [], ret := .void, kind := .signal }
def propOf (cls n : String) (ty : TypeKind) : PropInfo :=
  { cls := cls, name := n, ty := ty, readable := true, writable := true, constant := false,
    notify := some (some (sigOf cls (n ++ "Changed"))), readFn := n, writeFn := "set" ++ n }
def pBase : TypeKind := .pointer (.cls "VBase")
def nextP := propOf "VBase" "next" pBase
def sP := propOf "VBase" "s" .string
def iP := propOf "VBase" "i" .int
def bP := propOf "VBase" "b" .bool
def nnP : PropInfo := { propOf "VBase" "nn" .int with notify := none }

/-- `a.next.next.s` before the analysis -/
def chainPre : CodeBody :=
  { blocks := [{ statements := [.assign 0 (.readProperty (.namedObject "a" "VBase") nextP),
                                .assign 1 (.readProperty (.local 0 pBase) nextP),
                                .assign 2 (.readProperty (.local 1 pBase) sP)],
                 terminator := some (.ret (.local 2 .string)) }],
    locals := [pBase, pBase, .string] }

/-- `{ let p = a; if (a.b) { p = b }; return p.i }` : a local holding an object assigned in another block -/
def branchPre : CodeBody :=
  { blocks := [{ statements := [.assign 0 (.copy (.namedObject "a" "VBase")),
                                .assign 1 (.readProperty (.namedObject "a" "VBase") bP)],
                 terminator := some (.brCond (.local 1 .bool) 1 2) },
               { statements := [.assign 0 (.copy (.namedObject "b" "VBase"))], terminator := some (.br 2) },
               { statements := [.assign 2 (.readProperty (.local 0 pBase) iP)],
                 terminator := some (.ret (.local 2 .int)) }],
    locals := [pBase, .bool, .int] }

/-- within one block the copy is tracked: `{ let p = a; return p.i }` gets a static dependency, no observer -/
def copyPre : CodeBody :=
  { blocks := [{ statements := [.assign 0 (.copy (.namedObject "a" "VBase")),
                                .assign 1 (.readProperty (.local 0 pBase) iP)],
                 terminator := some (.ret (.local 1 .int)) }],
    locals := [pBase, .int] }

example : (analyzePropertyDependency chainPre).2 = ([], none) ∧
    (analyzePropertyDependency chainPre).1.observerCount = 2 ∧
    (analyzePropertyDependency chainPre).1.staticDeps = [("a", sigOf "VBase" "nextChanged")] ∧
    covered (analyzePropertyDependency chainPre).1 = true := by decide +kernel
example : (analyzePropertyDependency branchPre).1.observerCount = 1 ∧
    covered (analyzePropertyDependency branchPre).1 = true := by decide +kernel
example : (analyzePropertyDependency copyPre).1.observerCount = 0 ∧
    (analyzePropertyDependency copyPre).1.staticDeps = [("a", sigOf "VBase" "iChanged")] ∧
    covered (analyzePropertyDependency copyPre).1 = true := by decide +kernel
/-- the un-analysed body is NOT covered, and neither is an analysed body whose observer was dropped or re-used -/
example : covered chainPre = false := by decide +kernel
example : covered { (analyzePropertyDependency chainPre).1 with observerCount := 1 } = false := by decide +kernel
/-- notify-less read: diagnosed -/
example : (analyzePropertyDependency
    { blocks := [{ statements := [.assign 0 (.readProperty (.namedObject "a" "VBase") nnP)],
                   terminator := some (.ret (.local 0 .int)) }], locals := [.int] }).2.1
    = ["unobservable property: nn"] := by decide +kernel
/-- the chain in a concrete world: objects 0 = a, 1 = b; a.next = b, b.next = a, a.s = "x": `a.next.next.s` = "x";
    `setup` succeeds, observers 0 and 1 end up on (b, nextChanged) and (a, sChanged); after re-pointing `b.next := b`
    (served by observer 0) the target is b.s = "y" -/
def exS : Sem := { named := fun n => if n = "a" then 0 else 1, constVal := fun _ => none, pure := fun _ _ => none }
def exStore : Store := fun o p =>
  if p = nextP then .ptr (some (1 - o)) else if p = sP then .str (if o = 0 then ['x'] else ['y']) else .other 0
def chainPost : CodeBody := (analyzePropertyDependency chainPre).1
example : (setup exS chainPost exStore).map (·.target) = some (some (.str ['x'])) := by decide +kernel
example : ((setup exS chainPost exStore).bind fun W => stepFn exS chainPost W ⟨1, nextP, .ptr (some 1)⟩).map (·.target)
    = some (some (.str ['y'])) := by decide +kernel
example : ((setup exS chainPost exStore).map fun W => ((W.obs 0).conn, (W.obs 1).conn))
    = some (some (1, sigOf "VBase" "nextChanged"), some (0, sigOf "VBase" "sChanged")) := by decide +kernel
/-- nulling an intermediate pointer makes the expression undefined (C++: null dereference): no step exists -/
example : ((setup exS chainPost exStore).bind fun W => stepFn exS chainPost W ⟨0, nextP, .ptr none⟩).isNone = true := by
  decide +kernel
end Examples

end QV.Props.C02

/-! axioms -/
#print axioms QV.Props.C02.propdep_covers
#print axioms QV.Props.C02.binding_current
#print axioms QV.Props.C02.binding_subscribed
#print axioms QV.Props.C02.stepFn_step
#print axioms QV.Props.C02.unobservable_rejected
#print axioms QV.Props.C02.unobservable_body_rejected
#print axioms QV.Props.C02.notify_choice
#print axioms QV.Props.C02.notify_choice_verifEnv


/-! ## APPENDED SECTION — coverage for ALL programs

  (a) `propdep_covers` speaks about a body WITHOUT observe statements on which the analysis reports no diagnostic
  and DOES NOT PANIC; whether the body handed to the analysis is such a body was checked per run (`coveredcheck`).
  Here the two side conditions are discharged for every output of the model builder (`QV.Model.build`, tied to the
  real `tir::build` by the exact-IR stream), by one more induction over the walk (`QV.Proofs.PropDepBuild`): the
  builder never emits an observe statement, and the object operand of every `readProperty` it emits is never the
  null constant (it comes from name resolution, which yields a named object, or from `process_item_property`, which
  requires a concrete type) — so the analysis never reaches `panic!("invald read_property")`.
  Consequently, for EVERY program: if the analysis reports no diagnostic then its output is covered
  (`build_propdep_covers`), and the currency theorem holds for it without any coverage hypothesis
  (`build_binding_current`).  A read of a notify-less property IS diagnosed (`unobservable_body_rejected`). -/

namespace QV.Props.C02
open QV.Model QV.Model.Observe QV.Proofs.Observe QV.Proofs.PropDep QV.Proofs.BuilderInv

/-- the builder never emits observe statements: the first side condition of `propdep_covers`, for all programs -/
theorem build_noObserve (ctx : Ctx) (callback : Bool) (p : Program) (code : CodeBody)
    (h : (build ctx callback p).code = some code) : noObserve code :=
  fun b hb s hs => goodSt_noObs (build_statements_good ctx callback p code h b hb s hs)

/-- the analysis never panics on a built body: the third side condition, for all programs -/
theorem build_analysis_never_panics (ctx : Ctx) (callback : Bool) (p : Program) (code : CodeBody)
    (h : (build ctx callback p).code = some code) : (analyzePropertyDependency code).2.2 = none :=
  analyze_no_panic code (build_statements_good ctx callback p code h)

/-- **(a) for ALL programs**: the analysed body of every program on which the analysis reports no diagnostic is
    covered -/
theorem build_propdep_covers (ctx : Ctx) (callback : Bool) (p : Program) (code : CodeBody)
    (h : (build ctx callback p).code = some code) (hd : (analyzePropertyDependency code).2.1 = []) :
    covered (analyzePropertyDependency code).1 = true :=
  propdep_covers code (build_noObserve ctx callback p code h) hd (build_analysis_never_panics ctx callback p code h)

/-- **(b) for ALL programs**: for every program whose analysis reports no diagnostic, after `setup()` and after any
    finite history of property changes the target holds the value of the expression in the current state — no
    coverage hypothesis left -/
theorem build_binding_current (ctx : Ctx) (callback : Bool) (p : Program) (code : CodeBody)
    (h : (build ctx callback p).code = some code) (hd : (analyzePropertyDependency code).2.1 = [])
    (S : Sem) (s0 : Store) (W0 W : World) (hist : List Change)
    (h0 : setup S (analyzePropertyDependency code).1 s0 = some W0)
    (hs : Steps S (analyzePropertyDependency code).1 W0 hist W) :
    W.target = evalBody S (analyzePropertyDependency code).1 W.store ∧
      (evalBody S (analyzePropertyDependency code).1 W.store).isSome = true :=
  binding_current S _ (build_propdep_covers ctx callback p code h hd) s0 W0 W hist h0 hs

/-- … and an analysed body with a read of a notify-less, non-constant property through a pointer is never silent -/
theorem build_unobservable_rejected (ctx : Ctx) (callback : Bool) (p : Program) (code : CodeBody)
    (_h : (build ctx callback p).code = some code) (hu : hasUnobservableRead code = true) :
    (analyzePropertyDependency code).2.1 ≠ [] :=
  unobservable_body_rejected code hu

end QV.Props.C02

#print axioms QV.Props.C02.build_noObserve
#print axioms QV.Props.C02.build_analysis_never_panics
#print axioms QV.Props.C02.build_propdep_covers
#print axioms QV.Props.C02.build_binding_current


/-! ## APPENDED SECTION 2 — which bodies are folded to a constant (tir/interpret.rs `evaluate_code`)

  A binding whose body `evaluate_code` evaluates to a value is written to the .ui file as a constant and gets NO
  update path; every other accepted binding gets `setup`/`update`/`eval` code (uigen).  So "stays current" also
  needs: a body that depends on the state is not evaluated as a constant.  The model (`QV.Model.evaluateCode`, tied
  by the `eval` field of the exact-IR stream) looks at the ENTRY block in its constant fast path, like the code
  (`code.basic_blocks[0]`), and otherwise walks from the entry block, giving up at the first conditional branch
  and at the first property read (`QV.Proofs.InterpEntry`).  (Round-4 seed C02/7 made the fast path look at the
  LAST block: `{ if (check.checked) return edit.text; "Unchecked" }` became the constant "Unchecked".) -/

namespace QV.Props.C02
open QV.Model QV.Proofs.InterpEntry

/-- a body evaluated as a constant: its ENTRY block returns a constant (and that constant is the value), or the
    entry block neither branches on a condition nor assigns a property read -/
theorem evaluated_constant_entry (env : Env) (code : CodeBody) (v : EvaluatedValue)
    (h : evaluateCode env code = .value (some v)) :
    ∃ b0, code.blocks[0]? = some b0 ∧
      ((∃ cv, b0.terminator = some (.ret (.const cv)) ∧ toEvaluatedValue env [] (.const cv) .noTr = some v) ∨
       ((∀ c x y, b0.terminator ≠ some (.brCond c x y)) ∧
        ∀ l a p, Statement.assign l (.readProperty a p) ∉ b0.statements)) :=
  QV.Proofs.InterpEntry.evaluated_constant_entry env code v h

/-- a body whose entry block ends in a conditional branch (`if`, `switch`, `?:`, `&&`, `||` on the way to the result)
    is never folded to a constant — whatever its last block returns -/
theorem branching_entry_not_constant (env : Env) (code : CodeBody) (b0 : BasicBlock) (c : Operand) (x y : Nat)
    (hb : code.blocks[0]? = some b0) (ht : b0.terminator = some (.brCond c x y)) :
    ∀ v, evaluateCode env code ≠ .value (some v) :=
  QV.Proofs.InterpEntry.branching_entry_not_constant env code b0 c x y hb ht

/-- a body whose entry block assigns a property read and does not return a constant is never folded to a constant -/
theorem reading_entry_not_constant (env : Env) (code : CodeBody) (b0 : BasicBlock) (l : Nat) (a : Operand) (p : PropInfo)
    (hb : code.blocks[0]? = some b0) (hs : Statement.assign l (.readProperty a p) ∈ b0.statements)
    (hne : ∀ cv, b0.terminator ≠ some (.ret (.const cv))) :
    ∀ v, evaluateCode env code ≠ .value (some v) :=
  QV.Proofs.InterpEntry.reading_entry_not_constant env code b0 l a p hb hs hne

/-- the seed's witness shape: the entry block branches, the LAST block returns a literal -/
def lastBlockLiteral : CodeBody :=
  { blocks := [{ statements := [.assign 0 (.readProperty (.namedObject "a" "VBase") bP)],
                 terminator := some (.brCond (.local 0 .bool) 1 2) },
               { statements := [.assign 1 (.readProperty (.namedObject "a" "VBase") sP)],
                 terminator := some (.ret (.local 1 .string)) },
               { statements := [], terminator := some (.ret (.const (.qstring ['U']))) }],
    locals := [.bool, .string] }

/-- … it is not a constant, for any environment -/
example (env : Env) : ∀ v, evaluateCode env lastBlockLiteral ≠ .value (some v) :=
  branching_entry_not_constant env lastBlockLiteral _ _ _ _ rfl rfl

end QV.Props.C02

#print axioms QV.Props.C02.evaluated_constant_entry
#print axioms QV.Props.C02.branching_entry_not_constant
#print axioms QV.Props.C02.reading_entry_not_constant
