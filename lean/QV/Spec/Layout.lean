/-
  Specification side of C12: the documented placement rule and "recorded at the index of …".
  Written on natural numbers, without a mutable counter, without `%`-tricks.
-/
namespace QV.Spec.Layout

/-- Where a child goes, given the cell the auto-flow would use (`cursor`) and its explicit (already
    validated) row/column.  `ltr` = left-to-right flow. -/
def place (ltr : Bool) (cursor : Nat × Nat) (row col : Option Nat) : Nat × Nat :=
  match row, col with
  | some r, some c => (r, c)
  | some r, none => if ltr then (r, 0) else (r, cursor.2)
  | none, some c => if ltr then (cursor.1, c) else (0, c)
  | none, none => cursor

/-- The cell following `p` in flow order, wrapping at `n` columns (resp. rows). -/
def advance (ltr : Bool) (n : Nat) (p : Nat × Nat) : Nat × Nat :=
  if ltr then (if p.2 + 1 = n then (p.1 + 1, 0) else (p.1, p.2 + 1))
  else (if p.1 + 1 = n then (0, p.2 + 1) else (p.1 + 1, p.2))

/-- Cells of a sequence of children (explicit positions already validated). -/
def cells (ltr : Bool) (n : Nat) (cursor : Nat × Nat) : List (Option Nat × Option Nat) → List (Nat × Nat)
  | [] => []
  | (r, c) :: rest =>
    let p := place ltr cursor r c
    p :: cells ltr n (advance ltr n p) rest

/-- An explicit index is honoured iff it lies in `0..=max`; otherwise it is diagnosed and ignored. -/
def validIndex (v : Option Int) (max : Int) : Option Nat :=
  match v with
  | some v => if 0 ≤ v ∧ v ≤ max then some v.toNat else none
  | none => none

/-- The value recorded at index `i` by a sequence of `(index, value)` settings: the first one given
    for that index (a later different value is a conflict and is diagnosed, an equal one is harmless). -/
def recorded (entries : List (Nat × Int)) (i : Nat) : Option Int :=
  match entries with
  | [] => none
  | (j, v) :: rest => if j = i then some v else recorded rest i

/-- Length of the recorded array: one past the largest index mentioned. -/
def recordedLen : List (Nat × Int) → Nat
  | [] => 0
  | (j, _) :: rest => max (j + 1) (recordedLen rest)

/-- Conflicts: settings that differ from the value recorded for their index (the diagnostic quotes the
    recorded value). -/
def conflicts (entries : List (Nat × Int)) : List Int :=
  let rec go (seen : List (Nat × Int)) : List (Nat × Int) → List Int
    | [] => []
    | (j, v) :: rest =>
      match recorded seen j with
      | some v0 => if v0 ≠ v then v0 :: go seen rest else go seen rest
      | none => go (seen ++ [(j, v)]) rest
  go [] entries

def array (entries : List (Nat × Int)) (default : Int) : List Int :=
  (List.range (recordedLen entries)).map (fun i => (recorded entries i).getD default)

end QV.Spec.Layout
