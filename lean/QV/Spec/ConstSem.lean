/-
  Specification side of C03: what a constant expression of the documented language (docs/language.md) denotes.
  Integers are mathematical integers, representable in 64 bits or else undefined; integer division truncates;
  a shift is multiplication/floor-division by a power of two with a count in [0,64); no implicit conversion;
  strings compare by UTF-16 code units (the language follows JavaScript/QString here); floats are IEEE binary64
  (the primitive operations are a parameter: trusted, see DESIGN.md).
  Independent of the implementation model (Model/Ceval.lean, Model/Walk.lean): no checked/wrapping arithmetic here.
-/
import QV.Model.Ast
import QV.Model.Ceval

namespace QV.Spec.ConstSem
open QV.Model (Expr UnaryToken BinaryToken FloatOps)

inductive Val where
  | int (v : Int)
  | float (bits : Nat)
  | bool (b : Bool)
  | str (s : List Char)
  | trStr (s : List Char)               -- `qsTr("…")`: translatable
  | enumSet (names : List String)       -- enumerator(s) `Class::Name`, as written, joined by `|`
  | strList (tr : Bool) (xs : List (List Char))
  | null
deriving DecidableEq, Repr, Inhabited

inductive Res where
  | val (v : Val)
  | undefined (why : String)     -- the expression has no value: must be rejected
  | illTyped                     -- operands of the wrong types: must be rejected (C05's business, not judged here)
  | outside                      -- not in the constant fragment given a meaning here
deriving DecidableEq, Repr, Inhabited

def representable (v : Int) : Bool := -(2 : Int) ^ 63 ≤ v && v < (2 : Int) ^ 63

def intRes (v : Int) : Res := if representable v then .val (.int v) else .undefined "64-bit overflow"

/-- UTF-16 code units of a string -/
def units : List Char → List Nat
  | [] => []
  | c :: cs =>
    if c.toNat < 65536 then c.toNat :: units cs
    else (55296 + (c.toNat - 65536) / 1024) :: (56320 + (c.toNat - 65536) % 1024) :: units cs

/-- lexicographic order of code unit sequences -/
def unitsLess : List Nat → List Nat → Bool
  | _, [] => false
  | [], _ :: _ => true
  | a :: as, b :: bs => if a < b then true else if b < a then false else unitsLess as bs

def strLess (a b : List Char) : Bool := unitsLess (units a) (units b)

def cmpRes (op : BinaryToken) (eq lt : Bool) (gt : Bool) : Res :=
  match op with
  | .equal | .strictEqual => .val (.bool eq)
  | .notEqual | .strictNotEqual => .val (.bool (!eq))
  | .lessThan => .val (.bool lt)
  | .lessThanEqual => .val (.bool (lt || eq))
  | .greaterThan => .val (.bool gt)
  | .greaterThanEqual => .val (.bool (gt || eq))
  | _ => .outside

def isCmp : BinaryToken → Bool
  | .equal | .strictEqual | .notEqual | .strictNotEqual | .lessThan | .lessThanEqual | .greaterThan
  | .greaterThanEqual => true
  | _ => false

/-- two's complement bit pattern (64 bits) of a representable integer, and back -/
def bits64 (v : Int) : Nat := (v % (2 : Int) ^ 64).toNat
def ofBits64 (n : Nat) : Int := if n < 2 ^ 63 then n else (n : Int) - (2 : Int) ^ 64

def binInt (op : BinaryToken) (a b : Int) : Res :=
  match op with
  | .add => intRes (a + b)
  | .sub => intRes (a - b)
  | .mul => intRes (a * b)
  | .div => if b = 0 then .undefined "division by zero" else intRes (Int.tdiv a b)
  | .rem => if b = 0 then .undefined "division by zero" else intRes (Int.tmod a b)
  | .bitwiseAnd => .val (.int (ofBits64 (bits64 a &&& bits64 b)))
  | .bitwiseXor => .val (.int (ofBits64 (bits64 a ^^^ bits64 b)))
  | .bitwiseOr => .val (.int (ofBits64 (bits64 a ||| bits64 b)))
  | .leftShift =>
    if b < 0 then .undefined "negative shift" else if b ≥ 64 then .undefined "shift count too large"
    else intRes (a * (2 : Int) ^ b.toNat)
  | .rightShift =>
    if b < 0 then .undefined "negative shift" else if b ≥ 64 then .undefined "shift count too large"
    else .val (.int (a / (2 : Int) ^ b.toNat))
  | _ => if isCmp op then cmpRes op (a == b) (a < b) (b < a) else .illTyped

def binFloat (F : FloatOps) (op : BinaryToken) (a b : Nat) : Res :=
  match op with
  | .add => .val (.float (F.add a b))
  | .sub => .val (.float (F.sub a b))
  | .mul => .val (.float (F.mul a b))
  | .div => .val (.float (F.div a b))
  | .rem => .val (.float (F.rem a b))
  | .equal | .strictEqual => .val (.bool (F.eq a b))
  | .notEqual | .strictNotEqual => .val (.bool (!F.eq a b))
  | .lessThan => .val (.bool (F.lt a b))
  | .lessThanEqual => .val (.bool (F.le a b))
  | .greaterThan => .val (.bool (F.lt b a))
  | .greaterThanEqual => .val (.bool (F.le b a))
  | _ => .illTyped

def binBool (op : BinaryToken) (a b : Bool) : Res :=
  match op with
  | .logicalAnd | .bitwiseAnd => .val (.bool (a && b))
  | .logicalOr | .bitwiseOr => .val (.bool (a || b))
  | .bitwiseXor => .val (.bool (a != b))
  | _ => if isCmp op then cmpRes op (a == b) (!a && b) (!b && a) else .illTyped

def binStr (op : BinaryToken) (a b : List Char) : Res :=
  match op with
  | .add => .val (.str (a ++ b))
  | _ => if isCmp op then cmpRes op (a == b) (strLess a b) (strLess b a) else .illTyped

def isUpper (s : String) : Bool :=
  match s.toList with
  | c :: _ => c.isUpper
  | [] => false

/-- unary operator on a value -/
def unary (F : FloatOps) (op : UnaryToken) : Val → Res
  | .int v =>
    (match op with
     | .plus => .val (.int v)
     | .minus => intRes (-v)
     | .bitwiseNot => .val (.int (-v - 1))
     | .logicalNot => .illTyped
     | _ => .outside)
  | .float v =>
    (match op with
     | .plus => .val (.float v)
     | .minus => .val (.float (F.neg v))
     | .typeof | .void | .delete => .outside
     | _ => .illTyped)
  | .bool v =>
    (match op with
     | .logicalNot => .val (.bool (!v))
     | .typeof | .void | .delete => .outside
     | _ => .illTyped)
  | _ => (match op with | .typeof | .void | .delete => .outside | _ => .illTyped)

/-- binary operator on two values -/
def binary (F : FloatOps) (op : BinaryToken) : Val → Val → Res
  | .int a, .int b => binInt op a b
  | .float a, .float b => binFloat F op a b
  | .bool a, .bool b => binBool op a b
  | .str a, .str b => binStr op a b
  | .enumSet a, .enumSet b =>
    (match op with
     | .bitwiseOr => .val (.enumSet (a ++ b))
     | _ => .outside)
  | .null, .null =>
    -- pointers are not ordered: only equality
    (match op with
     | .equal | .strictEqual => .val (.bool true)
     | .notEqual | .strictNotEqual => .val (.bool false)
     | _ => .illTyped)
  | _, _ => .illTyped

mutual
/-- denotation of a constant expression -/
def eval (F : FloatOps) : Expr → Res
  | .integer v => if (v : Int) < (2 : Int) ^ 63 then .val (.int v) else .undefined "integer literal out of range"
  | .float b => .val (.float b)
  | .string s => .val (.str s)
  | .bool b => .val (.bool b)
  | .null => .val .null
  | .member (.ident cls) name => if isUpper cls ∧ isUpper name then .val (.enumSet [cls ++ "::" ++ name]) else .outside
  | .call (.ident "qsTr") [.string s] => .val (.trStr s)
  | .array es => evalElems F es
  | .unary op a =>
    (match eval F a with
     | .val v => unary F op v
     | r => r)
  | .binary op l r =>
    (match op.toOp with
     | none =>
       -- a token that is no operator of the language (`>>>`, `**`, `in`, `instanceof`, `??`, `===`-less forms are mapped):
       -- such an expression must be refused, it denotes nothing
       .illTyped
     | some _ =>
       match eval F l, eval F r with
       | .val a, .val b => binary F op a b
       | .undefined w, _ => .undefined w
       | .val _, .undefined w => .undefined w
       | .outside, _ | _, .outside => .outside
       | _, _ => .illTyped)
  | .ternary c a b =>
    (match eval F c with
     | .val (.bool true) => eval F a
     | .val (.bool false) => eval F b
     | .val _ => .illTyped
     | r => r)
  | .as_ v ty =>
    -- casts listed in docs/language.md on constants: a cast of an integer constant to an integer type keeps the value
    -- (no range check: constants are 64-bit); bool → integer is 0/1; double → integer truncates toward zero (C++
    -- static_cast), undefined when the truncated value does not fit; integer → double is the nearest double
    (match eval F v with
     | .val (.int i) =>
       if ty = ["int"] ∨ ty = ["uint"] then .val (.int i)
       else if ty = ["double"] ∨ ty = ["qreal"] then .val (.float (F.ofInt i))
       else .outside
     | .val (.bool b) => if ty = ["int"] ∨ ty = ["uint"] then .val (.int (if b then 1 else 0)) else .outside
     | .val (.float x) =>
       if ty = ["int"] ∨ ty = ["uint"] then
         (match F.truncToInt x with
          | some i => intRes i
          | none => .undefined "double does not fit the integer type")
       else if ty = ["double"] ∨ ty = ["qreal"] then .val (.float x)
       else .outside
     | .val _ => .outside
     | r => r)
  | _ => .outside
/-- elements of a list literal: all plain strings, or all translatable ones -/
def evalElems (F : FloatOps) : List Expr → Res
  | [] => .val (.strList false [])
  | e :: rest =>
    (match eval F e, evalElems F rest with
     | .val (.str s), .val (.strList false xs) => .val (.strList false (s :: xs))
     | .val (.str s), .val (.strList true []) => .val (.strList false [s])
     | .val (.trStr s), .val (.strList tr xs) => if tr ∨ xs.isEmpty then .val (.strList true (s :: xs)) else .outside
     | .undefined w, _ => .undefined w
     | .val _, .undefined w => .undefined w
     | .illTyped, _ | _, .illTyped => .illTyped
     | _, _ => .outside)
end

end QV.Spec.ConstSem
