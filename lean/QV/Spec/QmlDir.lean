/-
  Specification side of C18 (import-free, written without the work-list):

  * a file system is "which paths are directories" plus, per directory, the import strings (split at `/`)
    of the QML files with a root object that lie directly in it;
  * `Resolves` — what it means for a relative path to lead from one directory to another;
  * `Reach` — the directories a set of sources can see: the sources' own directories, closed under
    "some component there imports, by string, an existing directory".
-/
namespace QV.Spec.QmlDir

abbrev Path := List String

structure FS where
  isDir : Path → Bool
  imports : Path → List (List String)

/-- `Resolves fs p segs q`: walking `segs` from directory `p` ends in `q`; every named component entered
    on the way is an existing directory. -/
inductive Resolves (fs : FS) : Path → List String → Path → Prop where
  | done {p} : Resolves fs p [] p
  | stay {p seg rest q} : seg = "." ∨ seg = "" → Resolves fs p rest q → Resolves fs p (seg :: rest) q
  | up {p rest q} : Resolves fs p.dropLast rest q → Resolves fs p (".." :: rest) q
  | down {p seg rest q} : ¬ (seg = "." ∨ seg = "") → seg ≠ ".." → fs.isDir (p ++ [seg]) = true →
      Resolves fs (p ++ [seg]) rest q → Resolves fs p (seg :: rest) q

/-- `q` is imported by string from directory `p`. -/
inductive Edge (fs : FS) : Path → Path → Prop where
  | imp {p segs q} : segs ∈ fs.imports p → Resolves fs p segs q → fs.isDir q = true → Edge fs p q

/-- The directories visible from the sources' directories. -/
inductive Reach (fs : FS) (srcs : List Path) : Path → Prop where
  | src {p} : p ∈ srcs → Reach fs srcs p
  | step {p q} : Reach fs srcs p → Edge fs p q → Reach fs srcs q

/-! executable counterpart used by the `spec-c18-dirs` requests -/

def resolve (fs : FS) : Path → List String → Option Path
  | p, [] => some p
  | p, seg :: rest =>
    if seg = "." ∨ seg = "" then resolve fs p rest
    else if seg = ".." then resolve fs p.dropLast rest
    else if fs.isDir (p ++ [seg]) then resolve fs (p ++ [seg]) rest
    else none

def succs (fs : FS) (p : Path) : List Path :=
  ((fs.imports p).filterMap (resolve fs p)).filter fs.isDir

def addNew (acc : List Path) : List Path → List Path
  | [] => acc
  | x :: xs => if x ∈ acc then addNew acc xs else addNew (acc ++ [x]) xs

/-- `n` rounds of "add everything imported from what is there" -/
def saturate (fs : FS) : Nat → List Path → List Path
  | 0, s => s
  | n + 1, s => saturate fs n (addNew s (s.flatMap (succs fs)))

def ofLists (dirs : List Path) (imps : List (Path × List (List String))) : FS where
  isDir p := dirs.contains p
  imports p := ((imps.find? fun e => e.1 = p).map (·.2)).getD []

theorem resolve_sound (fs : FS) : ∀ (segs : List String) (p q : Path), resolve fs p segs = some q → Resolves fs p segs q := by
  intro segs
  induction segs with
  | nil => intro p q h; simp [resolve] at h; subst h; exact .done
  | cons seg rest ih =>
    intro p q h
    unfold resolve at h
    split at h
    · rename_i h1; exact .stay h1 (ih _ _ h)
    · rename_i h1
      split at h
      · rename_i h2; subst h2; exact .up (ih _ _ h)
      · rename_i h2
        split at h
        · rename_i h3; exact .down h1 h2 h3 (ih _ _ h)
        · cases h

theorem mem_addNew {acc xs : List Path} {x : Path} : x ∈ addNew acc xs → x ∈ acc ∨ x ∈ xs := by
  induction xs generalizing acc with
  | nil => intro h; exact .inl h
  | cons y ys ih =>
    intro h
    unfold addNew at h
    split at h
    · rcases ih h with h | h
      · exact .inl h
      · exact .inr (List.mem_cons_of_mem _ h)
    · rcases ih h with h | h
      · rcases List.mem_append.1 h with h | h
        · exact .inl h
        · simp at h; subst h; exact .inr List.mem_cons_self
      · exact .inr (List.mem_cons_of_mem _ h)

/-- Everything the saturation returns is visible in the sense of `Reach`. -/
theorem saturate_sound (fs : FS) (srcs : List Path) : ∀ (n : Nat) (s : List Path),
    (∀ p ∈ s, Reach fs srcs p) → ∀ p ∈ saturate fs n s, Reach fs srcs p := by
  intro n
  induction n with
  | zero => intro s hs p hp; exact hs p hp
  | succ n ih =>
    intro s hs p hp
    apply ih _ _ p hp
    intro q hq
    rcases mem_addNew hq with hq | hq
    · exact hs q hq
    · obtain ⟨r, hr, hq⟩ := List.mem_flatMap.1 hq
      unfold succs at hq
      obtain ⟨hq1, hq2⟩ := List.mem_filter.1 hq
      obtain ⟨segs, hsegs, hres⟩ := List.mem_filterMap.1 hq1
      exact .step (hs r hr) (.imp hsegs (resolve_sound fs _ _ _ hres) hq2)

end QV.Spec.QmlDir
