/-
  Specification side of C10 (naming part): what a valid assignment of object names is.
  The property does not fix the generated names, it constrains them — so the specification is a
  decidable predicate on (objects, names), not a function.
-/
namespace QV.Spec.Names

abbrev Str := List Char

def isUpper (c : Char) : Bool := 'A' ≤ c && c ≤ 'Z'
def isLower (c : Char) : Bool := 'a' ≤ c && c ≤ 'z'
def lower (c : Char) : Char := if isUpper c then Char.ofNat (c.toNat + 32) else c

/-- uic's `Driver::qtify`: drop a leading `Q`/`K` that is followed by a letter, then lower-case the
    leading run of capitals. -/
def qtify (t : Str) : Str :=
  let s := match t with
    | c :: d :: rest => if (c = 'Q' || c = 'K') && (isUpper d || isLower d) then d :: rest else t
    | _ => t
  (s.takeWhile isUpper).map lower ++ s.dropWhile isUpper

def isDigit (c : Char) : Bool := '0' ≤ c && c ≤ '9'

/-- `name` is "derived from the class": the qtified class name, optionally followed by a number -/
def derivedFrom (cls name : Str) : Bool :=
  let p := qtify cls
  name.take p.length == p && (name.drop p.length).all isDigit

def allDistinct : List Str → Bool
  | [] => true
  | x :: rest => !rest.contains x && allDistinct rest

/-- A valid naming of the objects `(id?, class)`: one name per object, pairwise distinct; an id is used
    verbatim; a generated name is derived from the class and is not any object's id. -/
def validNaming (nodes : List (Option Str × Str)) (names : List Str) : Bool :=
  names.length == nodes.length && allDistinct names &&
  (nodes.zip names).all fun ((id, cls), name) =>
    match id with
    | some x => name == x
    | none => derivedFrom cls name && !(nodes.any fun n => n.1 == some name)

end QV.Spec.Names
