/-
  Spec.IrTyping — an independent typing judgement for the typed IR (`CodeBody`) the compiler produces for an accepted
  binding or callback.  It re-uses only the specification tables of `Spec.Typing` (operator domains, `assignable`,
  `castKind`, builtin signatures); nothing of the builder.  Applied to the REAL IR observed through the hook
  (stream c05, tag `c05-ir`): whatever path the compiler took (constant folding, dynamic emission, lowering of
  `&&`/`||`/`?:`/`if`/`switch`), the code it ends up with must be type-correct statement by statement:

    * every operand that names a local carries that local's declared type;
    * `%l = <rvalue>`: the rvalue's operands are admissible for its operator (Spec.Typing tables) and its result type
      is EXACTLY the type of `%l`; only a plain copy may rely on assignability (identity, upcast, literal adoption);
    * a statement executed for effect has a void rvalue;
    * property reads need READ, writes need WRITE and an assignable value; the receiver's class has the member;
    * call arguments are assignable to the parameters of the chosen overload, one for one;
    * a conditional branch tests a `bool`; jump targets exist;
    * for a property binding, the returned operands have one common type, assignable to the property.
-/
import QV.Spec.Typing

namespace QV.Spec.IrTyping
open QV.Model QV.Spec.Typing

def operandOk (locals : List TypeKind) : Operand → Bool
  | .local n t => locals[n]? = some t
  | _ => true

/-- the receiver `obj` has the members of class `cls` -/
def receiverOk (env : Env) (obj : Operand) (cls : String) : Bool :=
  match concreteOf obj.typeDesc with
  | some (.pointer (.cls c)) | some (.just (.cls c)) => subclass env c cls
  | some (.just (.prim .qstring)) => cls = "QString"
  | some (.list _) => true
  | _ => false

/-- result type of an rvalue (`void` for effects), `none` if it is ill-typed -/
def rvalueType (env : Env) : Rvalue → Option TypeKind
  | .copy a => concreteOf a.typeDesc
  | .unary op a => (unaryType op a.typeDesc).bind concreteOf
  | .binary op l r =>
    (match op with
     | .logical _ => none          -- `&&`/`||` are lowered to branches
     | _ => (binaryType env op l.typeDesc r.typeDesc).bind concreteOf)
  | .staticCast ty a =>
    (match castKind env ty a.typeDesc with
     | some .numeric | some .discard => some ty
     | _ => none)
  | .variantCast ty a => if castKind env ty a.typeDesc = some .extract then some ty else none
  | .callBuiltin f args =>
    (match callBuiltin env f (args.map (·.typeDesc)) with
     | .ok t => concreteOf t
     | .error _ => none)
  | .callMethod obj m args =>
    if receiverOk env obj m.cls && argsFit env m.args (args.map (·.typeDesc)) then some m.ret else none
  | .readProperty obj p => if p.readable && receiverOk env obj p.cls then some p.ty else none
  | .writeProperty obj p v =>
    if p.writable && receiverOk env obj p.cls && assignable env p.ty v.typeDesc then some .void else none
  | .readSubscript o i =>
    (match elemType o.typeDesc i.typeDesc with
     | .ok t => some t
     | .error _ => none)
  | .writeSubscript o i v =>
    (match elemType o.typeDesc i.typeDesc with
     | .ok t => if assignable env t v.typeDesc then some .void else none
     | .error _ => none)
  | .makeList ty args =>
    (match ty with
     | .list t => if args.all fun a => assignable env t a.typeDesc then some ty else none
     | _ => none)

def rvalueOperands : Rvalue → List Operand
  | .copy a | .unary _ a | .staticCast _ a | .variantCast _ a => [a]
  | .binary _ l r => [l, r]
  | .callBuiltin _ args => args
  | .callMethod o _ args => o :: args
  | .readProperty o _ => [o]
  | .writeProperty o _ v => [o, v]
  | .readSubscript o i => [o, i]
  | .writeSubscript o i v => [o, i, v]
  | .makeList _ args => args

def statementOk (env : Env) (locals : List TypeKind) : Statement → Bool
  | .assign l rv =>
    (rvalueOperands rv).all (operandOk locals) &&
    (match locals[l]?, rv with
     | some lt, .copy a => assignable env lt a.typeDesc
     | some lt, rv => rvalueType env rv = some lt
     | none, _ => false)
  | .exec rv => (rvalueOperands rv).all (operandOk locals) && rvalueType env rv = some .void
  | .observeProperty _ l _ => (locals[l]?).any ptrK

def terminatorOk (locals : List TypeKind) (nBlocks : Nat) : Terminator → Bool
  | .br l => l < nBlocks
  | .brCond c t f => operandOk locals c && c.typeDesc = .bool && t < nBlocks && f < nBlocks
  | .ret a => operandOk locals a
  | .unreachable => true

def returnTypes (code : CodeBody) : List Ty :=
  code.blocks.filterMap fun b =>
    match b.terminator with
    | some (.ret a) => some a.typeDesc
    | _ => none

/-- `expected`: the property type for a binding, `none` for a callback -/
def check (env : Env) (expected : Option TypeKind) (code : CodeBody) : Bool :=
  code.parameterCount ≤ code.locals.length &&
  !code.locals.contains .void &&
  (code.blocks.all fun b =>
    b.statements.all (statementOk env code.locals) &&
    (match b.terminator with
     | some t => terminatorOk code.locals code.blocks.length t
     | none => false)) &&
  (match expected with
   | none => true
   | some p =>
     match resultType env (returnTypes code) with
     | .ok t => assignable env p t
     | .error _ => false)

/-- why a body fails (for the driver's answer) -/
def firstFailure (env : Env) (code : CodeBody) : Option (Nat × Nat) :=
  let rec goB (bi : Nat) : List BasicBlock → Option (Nat × Nat)
    | [] => none
    | b :: bs =>
      match (b.statements.zipIdx.find? fun (s, _) => !statementOk env code.locals s) with
      | some (_, si) => some (bi, si)
      | none =>
        if (match b.terminator with | some t => terminatorOk code.locals code.blocks.length t | none => false)
        then goB (bi + 1) bs else some (bi, b.statements.length)
  goB 0 code.blocks

end QV.Spec.IrTyping
