/-
  Spec.Fs — the abstract file system the C15 theorems are stated over (import-free).

  * paths are lists of components, exactly the alphabet of Rust's `Path::components()` on Unix
    (`RootDir | CurDir | ParentDir | Normal name`);
  * a file system is a partial map `Path → Option Node` (a node is a directory or a regular file with its
    complete content);
  * the only operations a process performs on it are the five of `Op`; `rename` is ONE step (atomic:
    no state exists in which the destination holds anything but its old or the source's content);
  * "killed at any moment" = the process stops after any prefix of its op trace, or in the middle of a
    `write` (which then has appended only a prefix of its bytes): `CrashState`.

  Not expressible here (assumptions of C15): durability across power loss, directory-entry ordering,
  permissions/ownership, symbolic links, and aliasing through `..` (a `ParentDir` component is an opaque
  name; two different component lists are treated as two different files).

  The second half states, independently of the model, what the documentation promises about output names
  and refused source paths (`specNames`, `specRefused`).
-/
namespace QV.Spec.Fs

abbrev Name := List Char

inductive Component where
  | rootDir
  | curDir
  | parentDir
  | normal (s : Name)
deriving DecidableEq, Repr

abbrev Path := List Component
abbrev Bytes := List Nat

inductive Node where
  | dir
  | file (content : Bytes)
deriving DecidableEq, Repr

abbrev FS := Path → Option Node

def FS.set (fs : FS) (p : Path) (n : Option Node) : FS := fun q => if q = p then n else fs q

inductive Op where
  /-- one successful `mkdir(2)` -/
  | mkdir (p : Path)
  /-- `open(p, O_CREAT|O_EXCL)`: a new empty file -/
  | createTemp (p : Path)
  /-- `write(2)` on the open temp file: appends -/
  | write (p : Path) (b : Bytes)
  /-- `fchmod(2)`: permission bits are not part of the state -/
  | chmod (p : Path)
  /-- `rename(2)`: atomic replace -/
  | rename (src dst : Path)
deriving DecidableEq, Repr

def step (fs : FS) : Op → FS
  | .mkdir p => fs.set p (some .dir)
  | .createTemp p => fs.set p (some (.file []))
  | .write p b =>
    match fs p with
    | some (.file old) => fs.set p (some (.file (old ++ b)))
    | _ => fs
  | .chmod _ => fs
  | .rename s d => if s = d then fs else (fs.set d (fs s)).set s none

/-- state after a whole trace -/
def run (fs : FS) (ops : List Op) : FS := ops.foldl step fs

/-- the paths an op creates, modifies or removes -/
def Op.targets : Op → List Path
  | .mkdir p => [p]
  | .createTemp p => [p]
  | .write p _ => [p]
  | .chmod p => [p]
  | .rename s d => [s, d]

/-- `CrashState fs ops s`: `s` is a state the file system can be left in when the process executing `ops`
    from `fs` is killed at some moment: after any prefix of the trace, or inside a `write`. -/
inductive CrashState : FS → List Op → FS → Prop
  | here (fs : FS) (ops : List Op) : CrashState fs ops fs
  | partialWrite (fs : FS) (p : Path) (b : Bytes) (rest : List Op) (n : Nat) :
      CrashState fs (.write p b :: rest) (step fs (.write p (b.take n)))
  | next {fs : FS} {op : Op} {rest : List Op} {s : FS} :
      CrashState (step fs op) rest s → CrashState fs (op :: rest) s

/-! ### path text → segments (vocabulary shared by the model's parser and the refusal rule) -/

/-- split at every `/` (like `str::split('/')`: n separators give n+1 segments, possibly empty) -/
def splitSlash : List Char → List Name
  | [] => [[]]
  | c :: cs =>
    match splitSlash cs with
    | [] => [[]]   -- unreachable: the result is never empty
    | seg :: segs => if c = '/' then [] :: seg :: segs else (c :: seg) :: segs

/-! ### what the documentation promises (independent of the model) -/

def lowerChar (c : Char) : Char :=
  if 'A' ≤ c ∧ c ≤ 'Z' then Char.ofNat (c.toNat + 32) else c

/-- docs / `cmake/QmluicMacros.cmake`: `X.qml` ↦ `x.ui`, `uisupport_x.h`; the stem is lower-cased unless
    `--no-lowercase-file-name` -/
def specNames (lowercase : Bool) (stem : Name) : Name × Name :=
  let s := if lowercase then stem.map lowerChar else stem
  (s ++ ['.', 'u', 'i'], ['u', 'i', 's', 'u', 'p', 'p', 'o', 'r', 't', '_'] ++ s ++ ['.', 'h'])

/-- `--output-directory`: "the source file paths must be relative and not contain `..`" -/
def specRefused (source : List Char) : Bool :=
  source.head? == some '/' || (splitSlash source).contains ['.', '.']

end QV.Spec.Fs
