import QV.Model.ClassGraph
import QV.Spec.Graph

/-
  The reading of a loaded class table as the graph the specification talks about (abstraction function
  shared by the theorems in QV.Props.C17 and by the specification side of the driver).
-/
namespace QV.Spec.Graph
open QV.Model.ClassGraph

def nodeOf (c : ClassDecl) : Node :=
  { name := c.name
    publicSupers := c.supers.filterMap fun s => if s.2 then some s.1 else none
    props := c.props
    methods := (c.signals ++ c.slots ++ c.methods).filterMap fun m => if m.isPublic then some m.name else none
    enums := c.enums.map fun e => (e.name, e.isScoped, e.variants) }

def toGraph (t : Table) : Graph := t.classes.map nodeOf

end QV.Spec.Graph
