/-
  Specification for C17: what "derives from", "declares" and "common base" mean on a finite set of class
  descriptions — plain graph reachability, written without reference to how qmluic walks the graph.

  A class description lists the names of its *public* super classes.  A name denotes the class loaded last
  under that name; a listed super class that denotes no class contributes no edge (a dangling reference).
-/
namespace QV.Spec.Graph

/-- one class description, reduced to what the property talks about -/
structure Node where
  name : String
  /-- names listed as public super classes -/
  publicSupers : List String := []
  props : List String := []
  /-- names of the public signals, slots and invokable methods -/
  methods : List String := []
  /-- nested enums: name, is it an `enum class` (variants not visible unqualified), variants -/
  enums : List (String × Bool × List String) := []
deriving Repr

abbrev Graph := List Node

/-- the class a name denotes -/
def classOf : Graph → String → Option Node
  | [], _ => none
  | d :: ds, n =>
    match classOf ds n with
    | some x => some x
    | none => if d.name = n then some d else none

def IsClass (g : Graph) (n : String) : Prop := ∃ d, classOf g n = some d

/-- `b` is a public super class of `a`, and `b` denotes a class -/
def Edge (g : Graph) (a b : String) : Prop :=
  ∃ d, classOf g a = some d ∧ b ∈ d.publicSupers ∧ IsClass g b

/-- reflexive–transitive public inheritance -/
inductive Derives (g : Graph) : String → String → Prop where
  | refl (a : String) : Derives g a a
  | step {a b c : String} : Edge g a b → Derives g b c → Derives g a c

def DeclaresProp (g : Graph) (c p : String) : Prop := ∃ d, classOf g c = some d ∧ p ∈ d.props
def DeclaresMethod (g : Graph) (c m : String) : Prop := ∃ d, classOf g c = some d ∧ m ∈ d.methods
def DeclaresEnum (g : Graph) (c e : String) : Prop := ∃ d, classOf g c = some d ∧ ∃ x ∈ d.enums, x.1 = e
/-- class `c` has a nested unscoped enum that lists `v` -/
def ListsVariant (g : Graph) (c v : String) : Prop :=
  ∃ d, classOf g c = some d ∧ ∃ x ∈ d.enums, x.2.1 = false ∧ v ∈ x.2.2

/-- `c` or one of its public ancestors satisfies `P` -/
def Inherits (g : Graph) (P : String → Prop) (c : String) : Prop := ∃ a, Derives g c a ∧ P a

/-- some public super class listed by a class reachable from `c` denotes no class -/
def DanglingFrom (g : Graph) (c : String) : Prop :=
  ∃ a d s, Derives g c a ∧ classOf g a = some d ∧ s ∈ d.publicSupers ∧ ¬ IsClass g s

/-! ### executable form (used by the driver as the oracle; certified by `ancestors?_spec` in Proofs) -/

def succs (g : Graph) (a : String) : List String :=
  match classOf g a with
  | some d => d.publicSupers.filter fun b => (classOf g b).isSome
  | none => []

def insertAll : List String → List String → List String
  | acc, [] => acc
  | acc, x :: xs => insertAll (if x ∈ acc then acc else acc ++ [x]) xs

def grow (g : Graph) (s : List String) : List String := insertAll s (s.flatMap (succs g))

def iterate (g : Graph) : Nat → List String → List String
  | 0, s => s
  | k + 1, s => iterate g k (grow g s)

def closed (g : Graph) (s : List String) : Bool := s.all fun a => (succs g a).all fun b => b ∈ s

/-- the ancestors-or-self of `a`: saturate `{a}` under `succs`, and *check* that the result is closed
    (it always is after `|g|` rounds; the check makes the correctness proof independent of that fact) -/
def ancestors? (g : Graph) (a : String) : Option (List String) :=
  let s := iterate g g.length [a]
  if closed g s then some s else none

end QV.Spec.Graph
