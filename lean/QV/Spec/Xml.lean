/-
  Specification side of C09 (strings): what an XML 1.0 processor reports for character data and for an
  attribute value (XML 1.0 §2.2 Char, §2.11 end-of-line handling, §3.3.3 attribute-value normalisation,
  §4.1 character and entity references, §4.6 predefined entities).  Executable, independent of the writer.
-/
namespace QV.Spec.Xml

abbrev Str := List Char

/-- XML 1.0 `Char` -/
def isXmlChar (c : Char) : Bool :=
  let n := c.toNat
  n = 0x9 || n = 0xA || n = 0xD || (0x20 ≤ n && n ≤ 0xD7FF) || (0xE000 ≤ n && n ≤ 0xFFFD) ||
    (0x10000 ≤ n && n ≤ 0x10FFFF)

def decVal (c : Char) : Option Nat :=
  if 48 ≤ c.toNat ∧ c.toNat ≤ 57 then some (c.toNat - 48) else none

def hexVal (c : Char) : Option Nat :=
  if 48 ≤ c.toNat ∧ c.toNat ≤ 57 then some (c.toNat - 48)
  else if 97 ≤ c.toNat ∧ c.toNat ≤ 102 then some (c.toNat - 87)
  else if 65 ≤ c.toNat ∧ c.toNat ≤ 70 then some (c.toNat - 55)
  else none

/-- digits up to `;` in the given base; at least one digit -/
def readNum (val : Char → Option Nat) (base : Nat) : Bool → Nat → Str → Option (Nat × Str)
  | seen, acc, ';' :: rest => if seen then some (acc, rest) else none
  | _, acc, c :: rest =>
    match val c with
    | some d => readNum val base true (acc * base + d) rest
    | none => none
  | _, _, [] => none

/-- a reference, the leading `&` already consumed: the denoted character and the remaining input -/
def readRef : Str → Option (Char × Str)
  | 'l' :: 't' :: ';' :: r => some ('<', r)
  | 'g' :: 't' :: ';' :: r => some ('>', r)
  | 'a' :: 'm' :: 'p' :: ';' :: r => some ('&', r)
  | 'a' :: 'p' :: 'o' :: 's' :: ';' :: r => some ('\'', r)
  | 'q' :: 'u' :: 'o' :: 't' :: ';' :: r => some ('"', r)
  | '#' :: 'x' :: r =>
    match readNum hexVal 16 false 0 r with
    | some (n, r') => if n < 0x110000 ∧ isXmlChar (Char.ofNat n) then some (Char.ofNat n, r') else none
    | none => none
  | '#' :: r =>
    match readNum decVal 10 false 0 r with
    | some (n, r') => if n < 0x110000 ∧ isXmlChar (Char.ofNat n) then some (Char.ofNat n, r') else none
    | none => none
  | _ => none

/-- character data of an element (no child elements): `fuel` bounds the number of characters produced -/
def readTextFuel : Nat → Str → Option Str
  | 0, _ => none
  | _ + 1, [] => some []
  | f + 1, c :: r =>
    if c = '&' then
      match readRef r with
      | some (d, r') => (readTextFuel f r').map (d :: ·)
      | none => none
    else if c = '<' then none
    else if c = '\r' then
      match r with
      | '\n' :: r' => (readTextFuel f r').map ('\n' :: ·)
      | _ => (readTextFuel f r).map ('\n' :: ·)
    else if isXmlChar c then (readTextFuel f r).map (c :: ·)
    else none

def readText (s : Str) : Option Str := readTextFuel (s.length + 1) s

/-- value of an attribute written between double quotes -/
def readAttrFuel : Nat → Str → Option Str
  | 0, _ => none
  | _ + 1, [] => some []
  | f + 1, c :: r =>
    if c = '&' then
      match readRef r with
      | some (d, r') => (readAttrFuel f r').map (d :: ·)
      | none => none
    else if c = '<' ∨ c = '"' then none
    else if c = '\r' then
      match r with
      | '\n' :: r' => (readAttrFuel f r').map (' ' :: ·)
      | _ => (readAttrFuel f r).map (' ' :: ·)
    else if c = '\n' ∨ c = '\t' then (readAttrFuel f r).map (' ' :: ·)
    else if isXmlChar c then (readAttrFuel f r).map (c :: ·)
    else none

def readAttr (s : Str) : Option Str := readAttrFuel (s.length + 1) s

end QV.Spec.Xml
