/-
  Spec.Sem — reference big-step semantics of the documented qmluic language (docs/language.md) on `QV.Model.Ast`
  programs, over a world of objects.  Written from the documentation, independently of the compiler model
  (Model/Walk.lean, Model/Builder.lean): nothing here mentions blocks, temporaries or labels.

  What the documentation fixes and how it is read here
  * "syntactically compatible with QML/JS … semantics diverged": the listed divergences are typing ones (no implicit
    conversion, integer ≠ floating point, integer division returns an integer).  Everything the document is silent
    about is read as JavaScript: evaluation order (callee object before arguments, left-hand side before right-hand
    side), block scoping of let/const, completion values of statement lists
    (ECMA-262 §14: the value of the last value-producing statement; `if`/`switch` produce `undefined` = void when
    nothing in them does; declarations produce nothing), `switch` testing the selectors in source order with `==`,
    falling through, `default` anywhere, `break` leaving the innermost switch.
  * STATED DEVIATION FROM ECMAScript (the language after the repair 0aff63c of /repo): the statement list of EACH
    `switch` clause is a scope of its own — a `let`/`const` declared in a clause ends with that clause: it is visible
    neither after the switch nor in a later clause, also not when control falls through into it (a later clause that
    uses the name refers to an outer variable of that name, if there is one).  In ECMAScript the whole case block is
    one scope (and a clause entered by the jump would find the binding uninitialised: TDZ); a language whose
    declarations must be initialised where they are introduced cannot offer that, so the clause is the scope.
  * Types: `int` is a 32-bit signed integer — an operation whose mathematical result is not representable is
    UNDEFINED (the property excludes it); `uint` is arithmetic modulo 2^32; `double` is IEEE binary64 (primitives are
    a parameter); integer literals and constant expressions over them are *untyped integers* (`cint`, mathematical,
    at most 64 bit: `Spec.ConstSem`) that take the type of the typed operand they meet — undefined if the value is
    not representable in that type — and become `int` where a concrete type is needed.
  * `/` truncates, `%` has the sign of the dividend, `>>` on `int` is arithmetic (floor), shift counts must lie in
    [0,32); strings compare by UTF-16 code unit (QString / JavaScript); `&&`, `||`, `?:` evaluate lazily.
  * Undefined (`none`): int overflow, division by zero (and INT_MIN / -1, INT_MIN % -1), null dereference,
    out-of-range subscript, read of a variable that was never assigned, a constant not representable in the type
    it is used at, a numeric cast whose value is not representable in the target type, `QVariant` holding another type.
  * Effects (callbacks): property writes, method calls and console calls are trace events in evaluation order;
    property writes update the world; methods are deterministic functions of the world (`Host.method`).
-/
import QV.Model.Ast
import QV.Spec.ConstSem

namespace QV.Spec.Sem
open QV.Model (Expr Stmt Decl DeclKind UnaryToken BinaryToken FloatOps Program FnBody Function
  UnaryOp BinaryOp ArithOp BitOp ShiftOp LogicOp CmpOp LogLevel)

/-! ### values -/

inductive Val where
  | cint (v : Int)              -- untyped integer constant
  | int (v : Int)
  | uint (v : Nat)
  | double (bits : Nat)
  | bool (b : Bool)
  | str (s : List Char)
  | enum (v : Int)              -- enumerator / flag set, by value
  | ptr (o : Option Nat)        -- object reference or null
  | list (xs : List Val)
  | variant (v : Val)
  | void
deriving Repr, Inhabited

/-- static type tags, as far as the semantics needs them (coercion of untyped constants, casts) -/
inductive Ty where
  | int | uint | double | bool | str | enum | ptr | list | variant | void
deriving DecidableEq, Repr, Inhabited

/-- static type: the tag, the pointee class of a pointer, the element type of a list, and whether it is the type
    `integer` of an untyped constant -/
structure STy where
  ty : Ty
  cls : Option String := none
  elem : Option Ty := none
  const : Bool := false
deriving DecidableEq, Repr, Inhabited

def inI32 (v : Int) : Bool := -2147483648 ≤ v && v ≤ 2147483647
def inU32 (v : Int) : Bool := 0 ≤ v && v ≤ 4294967295
def two32 : Int := 4294967296

def mkInt (v : Int) : Option Val := if inI32 v then some (.int v) else none
def mkUintWrap (v : Int) : Val := .uint (v % two32).toNat

/-- 32-bit two's complement pattern of an `int`, and back -/
def toU32 (v : Int) : Nat := (v % two32).toNat
def ofU32 (n : Nat) : Int := if n < 2147483648 then n else (n : Int) - two32

def Val.ty : Val → Ty
  | .cint _ | .int _ => .int
  | .uint _ => .uint
  | .double _ => .double
  | .bool _ => .bool
  | .str _ => .str
  | .enum _ => .enum
  | .ptr _ => .ptr
  | .list _ => .list
  | .variant _ => .variant
  | .void => .void

/-- use of a value at a type: an untyped constant takes the type if representable; anything else is unchanged
    (the program is well typed) -/
def coerceTo (t : Ty) : Val → Option Val
  | .cint v =>
    (match t with
     | .uint => if inU32 v then some (.uint v.toNat) else none
     | _ => mkInt v)
  | v => some v

/-- where a concrete type is needed and none is given: `integer` becomes `int` -/
def concretize (v : Val) : Option Val := coerceTo .int v

def concretizeAll : List Val → Option (List Val)
  | [] => some []
  | v :: vs =>
    match concretize v, concretizeAll vs with
    | some x, some xs => some (x :: xs)
    | _, _ => none

/-- the two operands of a typed binary operator -/
def unify (a b : Val) : Option (Val × Val) :=
  match a, b with
  | .cint _, .cint _ => some (a, b)
  | .cint _, _ => (coerceTo b.ty a).map fun a' => (a', b)
  | _, .cint _ => (coerceTo a.ty b).map fun b' => (a, b')
  | _, _ => some (a, b)

/-! ### operators (shared with the IR semantics: this is the meaning of an operator application, the compiler's
    job is to apply it to the right operands in the right order) -/

def arithInt (op : ArithOp) (a b : Int) : Option Val :=
  match op with
  | .add => mkInt (a + b)
  | .sub => mkInt (a - b)
  | .mul => mkInt (a * b)
  | .div => if b = 0 then none else mkInt (Int.tdiv a b)
  | .rem => if b = 0 then none else if inI32 (Int.tdiv a b) then mkInt (Int.tmod a b) else none

def arithUint (op : ArithOp) (a b : Nat) : Option Val :=
  match op with
  | .add => some (mkUintWrap ((a : Int) + b))
  | .sub => some (mkUintWrap ((a : Int) - b))
  | .mul => some (mkUintWrap ((a : Int) * b))
  | .div => if b = 0 then none else some (.uint (a / b))
  | .rem => if b = 0 then none else some (.uint (a % b))

def arithDouble (F : FloatOps) (op : ArithOp) (a b : Nat) : Val :=
  .double (match op with
    | .add => F.add a b | .sub => F.sub a b | .mul => F.mul a b | .div => F.div a b | .rem => F.rem a b)

def bitNat (op : BitOp) (a b : Nat) : Nat :=
  match op with
  | .and => a &&& b
  | .xor => a ^^^ b
  | .or => a ||| b

def bitBool (op : BitOp) (a b : Bool) : Bool :=
  match op with
  | .and => a && b
  | .xor => a != b
  | .or => a || b

def cmpOrd (op : CmpOp) (eq lt gt : Bool) : Bool :=
  match op with
  | .eq => eq | .ne => !eq | .lt => lt | .le => lt || eq | .gt => gt | .ge => gt || eq

def cmpDouble (F : FloatOps) (op : CmpOp) (a b : Nat) : Bool :=
  match op with
  | .eq => F.eq a b | .ne => !F.eq a b | .lt => F.lt a b | .le => F.le a b | .gt => F.lt b a | .ge => F.le b a

def tokOfArith : ArithOp → BinaryToken
  | .add => .add | .sub => .sub | .mul => .mul | .div => .div | .rem => .rem
def tokOfBit : BitOp → BinaryToken
  | .and => .bitwiseAnd | .xor => .bitwiseXor | .or => .bitwiseOr
def tokOfShift : ShiftOp → BinaryToken
  | .shl => .leftShift | .shr => .rightShift
def tokOfCmp : CmpOp → BinaryToken
  | .eq => .equal | .ne => .notEqual | .lt => .lessThan | .le => .lessThanEqual | .gt => .greaterThan
  | .ge => .greaterThanEqual
def tokOf : BinaryOp → BinaryToken
  | .arith o => tokOfArith o | .bitwise o => tokOfBit o | .shift o => tokOfShift o | .cmp o => tokOfCmp o
  | .logical .and => .logicalAnd | .logical .or => .logicalOr

/-- constant ⊕ constant: the 64-bit constant semantics of `Spec.ConstSem` -/
def constBinary (F : FloatOps) (op : BinaryOp) (a b : Int) : Option Val :=
  match ConstSem.binary F (tokOf op) (.int a) (.int b) with
  | .val (.int v) => some (.cint v)
  | .val (.bool v) => some (.bool v)
  | _ => none

def shiftCount : Val → Option Int
  | .cint n | .int n => some n
  | .uint n => some n
  | _ => none

def shiftVal (op : ShiftOp) (l : Val) (n : Int) : Option Val :=
  if n < 0 ∨ n ≥ 32 then none else
  match l, op with
  | .int a, .shl => mkInt (a * (2 : Int) ^ n.toNat)
  | .int a, .shr => some (.int (a / (2 : Int) ^ n.toNat))
  | .uint a, .shl => some (mkUintWrap ((a : Int) * (2 : Int) ^ n.toNat))
  | .uint a, .shr => some (.uint (a / 2 ^ n.toNat))
  | _, _ => none

/-- typed binary operator (not `&&`/`||`: those are control flow) -/
def binop (F : FloatOps) (op : BinaryOp) (l r : Val) : Option Val :=
  match op with
  | .logical _ => none
  | .shift sop =>
    (match l, r with
     | .cint a, .cint b => constBinary F op a b
     | _, _ =>
       match concretize l, shiftCount r with
       | some l', some n => shiftVal sop l' n
       | _, _ => none)
  | _ =>
    match unify l r with
    | none => none
    | some (a, b) =>
      match op, a, b with
      | _, .cint x, .cint y => constBinary F op x y
      | .arith o, .int x, .int y => arithInt o x y
      | .arith o, .uint x, .uint y => arithUint o x y
      | .arith o, .double x, .double y => some (arithDouble F o x y)
      | .arith .add, .str x, .str y => some (.str (x ++ y))
      | .bitwise o, .int x, .int y => some (.int (ofU32 (bitNat o (toU32 x) (toU32 y))))
      | .bitwise o, .uint x, .uint y => some (.uint (bitNat o x y))
      | .bitwise o, .bool x, .bool y => some (.bool (bitBool o x y))
      | .bitwise o, .enum x, .enum y => some (.enum (ofU32 (bitNat o (toU32 x) (toU32 y))))
      | .cmp o, .int x, .int y => some (.bool (cmpOrd o (x == y) (x < y) (y < x)))
      | .cmp o, .uint x, .uint y => some (.bool (cmpOrd o (x == y) (x < y) (y < x)))
      | .cmp o, .double x, .double y => some (.bool (cmpDouble F o x y))
      | .cmp o, .bool x, .bool y => some (.bool (cmpOrd o (x == y) (!x && y) (!y && x)))
      | .cmp o, .str x, .str y => some (.bool (cmpOrd o (x == y) (ConstSem.strLess x y) (ConstSem.strLess y x)))
      | .cmp o, .enum x, .enum y => some (.bool (cmpOrd o (x == y) (x < y) (y < x)))
      | .cmp .eq, .ptr x, .ptr y => some (.bool (x == y))
      | .cmp .ne, .ptr x, .ptr y => some (.bool (x != y))
      | _, _, _ => none

def unop (F : FloatOps) (op : UnaryOp) (a : Val) : Option Val :=
  match op, a with
  | .plus, .cint v => some (.cint v)
  | .minus, .cint v => if ConstSem.representable (-v) then some (.cint (-v)) else none
  | .bitNot, .cint v => some (.cint (-v - 1))
  | .plus, .int v => some (.int v)
  | .minus, .int v => mkInt (-v)
  | .bitNot, .int v => some (.int (-v - 1))
  | .plus, .uint v => some (.uint v)
  | .minus, .uint v => some (mkUintWrap (-(v : Int)))
  | .bitNot, .uint v => some (.uint (4294967295 - v))
  | .plus, .double v => some (.double v)
  | .minus, .double v => some (.double (F.neg v))
  | .bitNot, .enum v => some (.enum (-v - 1))
  | .logNot, .bool b => some (.bool (!b))
  | _, _ => none

/-- `Math.max` / `Math.min` (C++ `std::max(a, b) = (a < b) ? b : a`, `std::min(a, b) = (b < a) ? b : a`) -/
def minmax (F : FloatOps) (isMax : Bool) (l r : Val) : Option Val :=
  match unify l r with
  | none => none
  | some (a, b) =>
    let pick (aLtB bLtA : Bool) : Val := if isMax then (if aLtB then b else a) else (if bLtA then b else a)
    match a, b with
    | .cint x, .cint y => mkInt (if isMax then (if x < y then y else x) else (if y < x then y else x))
    | .int x, .int y => some (pick (x < y) (y < x))
    | .uint x, .uint y => some (pick (x < y) (y < x))
    | .double x, .double y => some (pick (F.lt x y) (F.lt y x))
    | .bool x, .bool y => some (pick (!x && y) (!y && x))
    | .str x, .str y => some (pick (ConstSem.strLess x y) (ConstSem.strLess y x))
    | _, _ => none

/-! ### the host: what the language delegates to the objects and to Qt -/

structure World where
  /-- value of property `name` of object `o` (`none`: no such object/property) -/
  prop : Nat → String → Option Val

def World.set (w : World) (o : Nat) (p : String) (v : Val) : World :=
  { prop := fun o' p' => if o' = o ∧ p' = p then some v else w.prop o' p' }

structure Host where
  F : FloatOps
  /-- exact conversion of an integer to binary64 -/
  intToDouble : Int → Nat
  /-- truncation toward zero of a finite double (`none`: NaN or infinite) -/
  doubleToInt : Nat → Option Int
  /-- an invokable method / slot: deterministic function of the world, the receiver and the arguments;
      returns the result (`void` for slots) and the world after the call -/
  method : World → Nat → String → List Val → Option (Val × World)
  /-- `QString::arg(x)` -/
  arg : List Char → Val → Option (List Char)
  /-- `QCoreApplication::translate(context, source)`: the translation of a source text in a context — a deterministic
      function of BOTH (the same text may be translated differently in another document) -/
  tr : String → List Char → List Char := fun _ x => x

structure Ctx where
  H : Host
  /-- object ids of the document: name, object, class -/
  objects : List (String × Nat × String)
  /-- the object the binding belongs to, and its class -/
  thisObj : Option (Nat × String)
  /-- `Type.Variant` (enumerator of a class / namespace / scoped enum), by value -/
  enumVal : String → String → Option Int
  /-- type names usable in annotations and `as` (joined with `::`); a class name denotes the pointer type -/
  tyName : String → Option STy
  /-- declared type of property `name` of class `cls` (own or inherited) -/
  propTy : String → String → Option STy
  /-- result type of the invokable method / slot `name` of class `cls` -/
  methodTy : String → String → Option STy
  /-- the type name of the document: the translation context of EVERY `qsTr(…)` of the document — in property bindings
      and in signal handlers alike, whatever the id of the root object is (or whether it has one) -/
  docType : String := ""
  /-- evaluation order of a call.  `false` (THE SPECIFICATION): the callee expression (and its receiver object) first,
      then the arguments left to right — JavaScript.  `true` = "the F42 variant": the arguments first, then the callee
      expression — what the compiler does today; it exists only so that a deviation of the real code can be attributed
      to finding F42 EXACTLY (the real traces must equal this variant, every other difference still fails). -/
  argsFirst : Bool := false

inductive Ev where
  | write (o : Nat) (prop : String) (v : Val)
  | call (o : Nat) (m : String) (args : List Val)
  | log (lv : LogLevel) (args : List Val)
deriving Repr, Inhabited

/-- a variable: its declared type and its value (`none` = declared, never assigned) -/
structure Var where
  name : String
  sty : STy
  const : Bool
  val : Option Val
deriving Repr, Inhabited

structure St where
  w : World
  /-- innermost declaration first; a block remembers the length at entry and cuts back at exit -/
  vars : List Var := []
  trace : List Ev := []

def St.lookup (s : St) (n : String) : Option Var := s.vars.find? (·.name = n)

def assignVar (n : String) (v : Val) : List Var → List Var
  | [] => []
  | x :: xs => if x.name = n then { x with val := some v } :: xs else x :: assignVar n v xs

def St.emit (s : St) (e : Ev) : St := { s with trace := s.trace ++ [e] }

/-- leave a block: forget the declarations made inside -/
def St.leave (s : St) (outerLen : Nat) : St := { s with vars := s.vars.drop (s.vars.length - outerLen) }

/-- `value as T` -/
def castTo (c : Ctx) (tn : STy) (v : Val) : Option Val :=
  let v' := match v with | .variant x => x | x => x     -- extraction of the stored value
  let fromVariant := match v with | .variant _ => true | _ => false
  match tn.ty, v' with
  | .void, _ => some .void
  | .ptr, .ptr x => some (.ptr x)           -- upcast: same object
  | .enum, .enum x => some (.enum x)        -- compatible enumeration: same value
  | .list, .list x => some (.list x)
  | .int, .cint x => mkInt x
  | .int, .int x => some (.int x)
  | .uint, .uint x => some (.uint x)
  | .double, .double x => some (.double x)
  | .bool, .bool x => some (.bool x)
  | .str, .str x => some (.str x)
  | .variant, .variant x => some (.variant x)
  | _, _ =>
    if fromVariant then none else       -- a QVariant holding another type: unspecified here
    match tn.ty, v' with
    | .int, .uint x => mkInt x
    | .int, .bool x => some (.int (if x then 1 else 0))
    | .int, .enum x => mkInt x
    | .int, .double x => (c.H.doubleToInt x).bind mkInt
    | .uint, .cint x => if inU32 x then some (.uint x.toNat) else none
    | .uint, .int x => if inU32 x then some (.uint x.toNat) else none
    | .uint, .bool x => some (.uint (if x then 1 else 0))
    | .uint, .enum x => if inU32 x then some (.uint x.toNat) else none
    | .uint, .double x => (c.H.doubleToInt x).bind fun i => if inU32 i then some (.uint i.toNat) else none
    | .double, .cint x => some (.double (c.H.intToDouble x))
    | .double, .int x => some (.double (c.H.intToDouble x))
    | .double, .uint x => some (.double (c.H.intToDouble x))
    | _, _ => none

/-! ### static types ("operands are statically type checked"): only what the dynamic semantics needs — the type an
    untyped constant takes when the typed operand it meets is not evaluated (`c ? 1 : u`), and the class of a pointer -/

def STy.concrete (t : STy) : STy := { t with const := false }
def sInt : STy := { ty := .int }
def sCint : STy := { ty := .int, const := true }
def sBool : STy := { ty := .bool }
def sStr : STy := { ty := .str }
def sVoid : STy := { ty := .void }

/-- type of a binary operator's operands after unification -/
def STy.unify (a b : STy) : STy :=
  if a.const && b.const then a
  else if a.const then b
  else if b.const then a
  else if a.ty = .ptr ∧ a.cls.isNone then b       -- `null`
  else if a.ty = .list ∧ a.elem.isNone then b     -- `[]`
  else a

def joinTy : List String → String
  | [] => ""
  | [x] => x
  | x :: xs => x ++ "::" ++ joinTy xs

def varTy (vars : List Var) (n : String) : Option STy := (vars.find? (·.name = n)).map (·.sty)

/-- static type of an expression (`none`: not an expression with a value type, e.g. a namespace) -/
def staticTy (c : Ctx) (vars : List Var) : Expr → Option STy
  | .integer _ => some sCint
  | .float _ => some { ty := .double }
  | .string _ => some sStr
  | .bool _ => some sBool
  | .null => some { ty := .ptr }
  | .function => none
  | .array [] => some { ty := .list }
  | .array (e :: _) => (staticTy c vars e).map fun t => { ty := .list, elem := some t.ty }
  | .this => c.thisObj.map fun (_, cls) => { ty := .ptr, cls := some cls }
  | .ident name =>
    (match varTy vars name with
     | some t => some t
     | none =>
       match c.objects.find? (·.1 = name) with
       | some (_, _, cls) => some { ty := .ptr, cls := some cls }
       | none => c.thisObj.bind fun (_, cls) => c.propTy cls name)
  | .member (.ident t) name =>
    -- `Type.Variant`, unless `t` is a variable / object / property
    (match staticTy c vars (.ident t) with
     | some ot => ot.cls.bind fun cls => c.propTy cls name
     | none => if (c.enumVal t name).isSome then some { ty := .enum } else none)
  | .member (.member (.ident t) e) name =>
    (match staticTy c vars (.member (.ident t) e) with
     | some ot => ot.cls.bind fun cls => c.propTy cls name
     | none => if (c.enumVal (t ++ "::" ++ e) name).isSome then some { ty := .enum } else none)
  | .member obj name => (staticTy c vars obj).bind fun ot => ot.cls.bind fun cls => c.propTy cls name
  | .subscript obj _ => (staticTy c vars obj).bind fun ot => ot.elem.map fun e => { ty := e }
  | .call (.ident "qsTr") _ => some sStr
  | .call (.member (.ident "console") _) _ => some sVoid
  | .call (.member (.ident "Math") _) [a, b] =>
    (match staticTy c vars a, staticTy c vars b with
     | some x, some y => some (x.unify y).concrete
     | _, _ => none)
  | .call (.ident m) _ => c.thisObj.bind fun (_, cls) => c.methodTy cls m
  | .call (.member obj m) _ =>
    (match staticTy c vars obj with
     | some ot =>
       (match ot.ty with
        | .ptr => ot.cls.bind fun cls => c.methodTy cls m
        | .str => if m = "isEmpty" then some sBool else if m = "arg" then some sStr else none
        | .list => if m = "isEmpty" then some sBool else none
        | _ => none)
     | none => none)
  | .call _ _ => none
  | .assign _ _ => some sVoid
  | .unary _ a => staticTy c vars a
  | .binary tok l r =>
    (match tok.toOp with
     | some (.logical _) | some (.cmp _) => some sBool
     | some (.shift _) =>
       (match staticTy c vars l, staticTy c vars r with
        | some x, some y => some (if x.const && y.const then x else x.concrete)
        | _, _ => none)
     | some _ =>
       (match staticTy c vars l, staticTy c vars r with
        | some x, some y => some (x.unify y)
        | _, _ => none)
     | none => none)
  | .as_ _ ty => c.tyName (joinTy ty)
  | .ternary _ a b =>
    (match staticTy c vars a, staticTy c vars b with
     | some x, some y => some (x.unify y).concrete
     | _, _ => none)

/-- what an expression denotes before it is used as a value: a value, or something that is only meaningful in
    member/call position -/
inductive Ref where
  | val (v : Val)
  | method (o : Nat) (name : String)          -- `obj.method`
  | strMethod (s : List Char) (name : String) -- `"…".arg`, `.isEmpty`
  | listMethod (xs : List Val) (name : String)
  | math (name : String)
  | console (lv : LogLevel)
  | qsTr
  | nsMath | nsConsole
  | type (name : String)

def logLevel? : String → Option LogLevel
  | "log" => some .log | "debug" => some .debug | "info" => some .info | "warn" => some .warn
  | "error" => some .error | _ => none

/-- index of a subscript -/
def indexOf : Val → Option Nat
  | .cint i | .int i => if 0 ≤ i then some i.toNat else none
  | .uint i => some i
  | _ => none

/-- member `name` of a value -/
def memberOf (s : St) (v : Val) (name : String) : Option Ref :=
  match v with
  | .ptr (some o) =>
    (match s.w.prop o name with
     | some pv => some (.val pv)
     | none => some (.method o name))
  | .ptr none => none                                   -- null dereference
  | .str x => some (.strMethod x name)
  | .list xs => some (.listMethod xs name)
  | _ => none

/-- store `v` into property `name` of `o` -/
def writeProp (s : St) (o : Nat) (name : String) (v : Val) : Option St :=
  match s.w.prop o name with
  | some old => (coerceTo old.ty v).map fun v' => { (s.emit (.write o name v')) with w := s.w.set o name v' }
  | none => none

/-- an identifier: variable, object id, property of `this`, method of `this`, type, builtin namespace -/
def resolveIdent (c : Ctx) (name : String) (s : St) : Option Ref :=
  match s.lookup name with
  | some v => v.val.map .val                             -- never assigned: undefined
  | none =>
    match c.objects.find? (·.1 = name) with
    | some (_, o, _) => some (.val (.ptr (some o)))
    | none =>
      match c.thisObj.bind (fun (o, cls) => (c.propTy cls name).bind fun _ => s.w.prop o name) with
      | some v => some (.val v)
      | none =>
        if (c.thisObj.bind fun (_, cls) => c.methodTy cls name).isSome then
          (c.thisObj.map fun (o, _) => .method o name)
        else if (c.tyName name).isSome then some (.type name)
        else if name = "Math" then some .nsMath
        else if name = "console" then some .nsConsole
        else if name = "qsTr" then some .qsTr
        else none

/-- `r.name` -/
def memberRef (c : Ctx) (r : Ref) (name : String) (s : St) : Option Ref :=
  match r with
  | .val v => memberOf s v name
  | .nsMath => if name = "max" ∨ name = "min" then some (.math name) else none
  | .nsConsole => (logLevel? name).map .console
  | .type t =>
    (match c.enumVal t name with
     | some v => some (.val (.enum v))
     | none => if (c.tyName (t ++ "::" ++ name)).isSome then some (.type (t ++ "::" ++ name)) else none)
  | _ => none

mutual

/-- expression in reference position -/
def evalRef (c : Ctx) : Expr → St → Option (Ref × St)
  | .ident name, s => (resolveIdent c name s).map fun r => (r, s)
  | .member obj name, s =>
    match evalRef c obj s with
    | none => none
    | some (r, s) => (memberRef c r name s).map fun r => (r, s)
  | e, s => (evalExpr c e s).map fun (v, s) => (.val v, s)
termination_by e => (sizeOf e, 1)
decreasing_by all_goals simp_wf; all_goals (try omega)

/-- expression in value position -/
def evalExpr (c : Ctx) : Expr → St → Option (Val × St)
  | .integer v, s => if (v : Int) < (2 : Int) ^ 63 then some (.cint v, s) else none
  | .float b, s => some (.double b, s)
  | .string x, s => some (.str x, s)
  | .bool b, s => some (.bool b, s)
  | .null, s => some (.ptr none, s)
  | .function, _ => none
  | .array es, s => (evalArgs c es s).map fun (vs, s) => (.list vs, s)
  | .ident name, s =>
    (match resolveIdent c name s with
     | some (.val v) => some (v, s)
     | _ => none)
  | .this, s => c.thisObj.map fun (o, _) => (.ptr (some o), s)
  | .member obj name, s =>
    (match evalRef c obj s with
     | some (r, s) =>
       (match memberRef c r name s with
        | some (.val v) => some (v, s)
        | _ => none)
     | none => none)
  | .subscript obj idx, s =>
    (match evalExpr c obj s with
     | some (.list xs, s) =>
       (match evalExpr c idx s with
        | some (i, s) => ((indexOf i).bind fun k => xs[k]?).map fun v => (v, s)
        | none => none)
     | _ => none)
  | .call fn args, s =>
    -- JavaScript order: the callee (and its receiver) first, then the arguments left to right, then the call
    -- (`c.argsFirst`: the F42 variant, arguments before the callee)
    (match ((if c.argsFirst then
        (match evalArgs c args s with
         | none => none
         | some (vs, s) => (evalRef c fn s).map fun ((r, s) : Ref × St) => (r, vs, s))
      else
        (match evalRef c fn s with
         | none => none
         | some (r, s) => (evalArgs c args s).map fun ((vs, s) : List Val × St) => (r, vs, s))) : Option (Ref × List Val × St)) with
     | none => none
     | some (r, vs, s) =>
         match r, vs with
         | .method o m, _ =>
           -- an untyped constant argument takes the parameter's type (`int` for every integer parameter of the
           -- classes considered here)
           (match concretizeAll vs with
            | none => none
            | some vs =>
              match c.H.method s.w o m vs with
              | some (rv, w') => some (rv, { (s.emit (.call o m vs)) with w := w' })
              | none => none)
         | .math name, [a, b] => (minmax c.H.F (name = "max") a b).map fun v => (v, s)
         | .console lv, _ => (concretizeAll vs).map fun vs => (.void, s.emit (.log lv vs))   -- `integer` → `int`
         | .qsTr, [.str x] => some (.str (c.H.tr c.docType x), s)
         | .strMethod x "isEmpty", [] => some (.bool x.isEmpty, s)
         | .strMethod x "arg", [a] => (c.H.arg x a).map fun r => (.str r, s)
         | .listMethod xs "isEmpty", [] => some (.bool xs.isEmpty, s)
         | _, _ => none)
  | .assign left right, s =>
    -- JavaScript order: the reference on the left (its object expression) first, then the right-hand side;
    -- an assignment is of type void
    (match left with
     | .ident name =>
       (match s.lookup name with
        | some var =>
          if var.const then none else
          (match evalExpr c right s with
           | some (v, s) => (coerceTo var.sty.ty v).map fun v' => (.void, { s with vars := assignVar name v' s.vars })
           | none => none)
        | none =>
          -- implicit-this property
          match c.thisObj with
          | some (o, _) =>
            (match evalExpr c right s with
             | some (v, s) => (writeProp s o name v).map fun s => (.void, s)
             | none => none)
          | none => none)
     | .member obj name =>
       (match evalExpr c obj s with
        | some (.ptr (some o), s) =>
          (match evalExpr c right s with
           | some (v, s) => (writeProp s o name v).map fun s => (.void, s)
           | none => none)
        | _ => none)
     | _ => none)
  | .unary tok a, s =>
    (match tok.toOp, evalExpr c a s with
     | some op, some (v, s) => (unop c.H.F op v).map fun r => (r, s)
     | _, _ => none)
  | .binary tok l r, s =>
    (match tok.toOp with
     | none => none
     | some (.logical .and) =>
       (match evalExpr c l s with
        | some (.bool false, s) => some (.bool false, s)
        | some (.bool true, s) =>
          (match evalExpr c r s with
           | some (.bool b, s) => some (.bool b, s)
           | _ => none)
        | _ => none)
     | some (.logical .or) =>
       (match evalExpr c l s with
        | some (.bool true, s) => some (.bool true, s)
        | some (.bool false, s) =>
          (match evalExpr c r s with
           | some (.bool b, s) => some (.bool b, s)
           | _ => none)
        | _ => none)
     | some op =>
       match evalExpr c l s with
       | none => none
       | some (a, s) =>
         match evalExpr c r s with
         | none => none
         | some (b, s) => (binop c.H.F op a b).map fun v => (v, s))
  | .as_ value ty, s =>
    (match c.tyName (joinTy ty), evalExpr c value s with
     | some tn, some (v, s) => (castTo c tn v).map fun r => (r, s)
     | _, _ => none)
  | .ternary cnd a b, s =>
    -- the value of the chosen branch, at the (concrete) common type of both branches
    (match staticTy c s.vars (.ternary cnd a b), evalExpr c cnd s with
     | some t, some (.bool true, s) => (evalExpr c a s).bind fun (v, s) => (coerceTo t.ty v).map fun v => (v, s)
     | some t, some (.bool false, s) => (evalExpr c b s).bind fun (v, s) => (coerceTo t.ty v).map fun v => (v, s)
     | _, _ => none)
termination_by e => (sizeOf e, 0)
decreasing_by all_goals simp_wf; all_goals (try omega)

/-- arguments / list elements, left to right -/
def evalArgs (c : Ctx) : List Expr → St → Option (List Val × St)
  | [], s => some ([], s)
  | e :: es, s =>
    match evalExpr c e s with
    | none => none
    | some (v, s) =>
      match evalArgs c es s with
      | none => none
      | some (vs, s) => some (v :: vs, s)
termination_by es => (sizeOf es, 0)
decreasing_by all_goals simp_wf; all_goals (try omega)

end

/-! ### statements -/

/-- how a statement ends: normally with a completion value (`none` = empty: the statement produced no value),
    by `break`, or by `return v` -/
inductive Outcome where
  | normal (completion : Option Val)
  | brk (completion : Option Val)
  | ret (v : Val)
deriving Repr, Inhabited

/-- `UpdateEmpty` of ECMA-262: a later empty completion keeps the earlier value -/
def updateEmpty (later earlier : Option Val) : Option Val := later.orElse fun _ => earlier

/-- one declarator of `let` / `const` -/
def execDecl (c : Ctx) (kind : DeclKind) (d : Decl) (s : St) : Option St :=
  match d.value with
  | some e =>
    (match evalExpr c e s with
     | none => none
     | some (v, s) =>
       let sty := match d.ty with
         | some t => c.tyName (joinTy t)
         | none => (staticTy c s.vars e).map STy.concrete
       match sty with
       | none => none
       | some sty =>
         (coerceTo sty.ty v).map fun v' =>
           { s with vars := { name := d.name, sty, const := kind = .const_, val := some v' } :: s.vars })
  | none =>
    match d.ty with
    | some t => (c.tyName (joinTy t)).map fun sty =>
        { s with vars := { name := d.name, sty, const := false, val := none } :: s.vars }
    | none => none

def execDecls (c : Ctx) (kind : DeclKind) : List Decl → St → Option St
  | [], s => some s
  | d :: ds, s => (execDecl c kind d s).bind (execDecls c kind ds)

/-- does the selector `e` equal the discriminant? (`==` of the language) -/
def caseMatches (c : Ctx) (disc : Val) (e : Expr) (s : St) : Option (Bool × St) :=
  match evalExpr c e s with
  | some (v, s) =>
    (match binop c.H.F (.cmp .eq) disc v with
     | some (.bool b) => some (b, s)
     | _ => none)
  | none => none

mutual

def execStmt (c : Ctx) : Stmt → St → Option (Outcome × St)
  | .expr e, s => (evalExpr c e s).map fun (v, s) => (.normal (some v), s)
  | .block ss, s =>
    (execStmts c ss s).map fun ((o, s') : Outcome × St) => (o, s'.leave s.vars.length)
  | .lexical kind decls, s => (execDecls c kind decls s).map fun s => (.normal none, s)
  | .if_ cnd a b, s =>
    -- the value of an `if` is never empty: `undefined` (void) when the taken branch produced nothing
    let close (r : Option (Outcome × St)) : Option (Outcome × St) := r.map fun (o, s) =>
      match o with
      | .normal v => (.normal (some (v.getD .void)), s)
      | .brk v => (.brk (some (v.getD .void)), s)
      | o => (o, s)
    -- a branch is a scope of its own: a declaration made directly in it (`if (c) let v = …;` — not JavaScript, but
    -- accepted by the grammar used) does not outlive the branch
    (match evalExpr c cnd s with
     | some (.bool true, s) => close ((execStmt c a s).map fun ((o, s') : Outcome × St) => (o, s'.leave s.vars.length))
     | some (.bool false, s) =>
       (match b with
        | some b => close ((execStmt c b s).map fun ((o, s') : Outcome × St) => (o, s'.leave s.vars.length))
        | none => some (.normal (some .void), s))
     | _ => none)
  | .switch value clauses, s =>
    (match evalExpr c value s with
     | none => none
     | some (disc, s) =>
       -- every clause is a scope of its own (`runClauses`); nothing declared in the switch outlives it
       let outer := s.vars.length
       match selectClause c disc clauses 0 s with
       | none => none
       | some (sel, s) =>
         let start := match sel with
           | some k => some k
           | none => clauses.findIdx? (·.1.isNone)
         match start with
         | none => some (.normal (some .void), s)
         | some k =>
           (runClauses c clauses k none s).map fun ((o, s') : Outcome × St) =>
             let s' := s'.leave outer
             match o with
             | .normal v | .brk v => (Outcome.normal (some (v.getD .void)), s')
             | o => (o, s'))
  | .break_ _, s => some (.brk none, s)
  | .return_ none, s => some (.ret .void, s)
  | .return_ (some e), s => (evalExpr c e s).map fun (v, s) => (.ret v, s)
termination_by st => (sizeOf st, 0)
decreasing_by all_goals simp_wf; all_goals (try omega)

/-- statement list: the completion value is that of the last statement that produced one -/
def execStmts (c : Ctx) : List Stmt → St → Option (Outcome × St)
  | [], s => some (.normal none, s)
  | st :: rest, s =>
    match execStmt c st s with
    | none => none
    | some (.normal v, s) =>
      (match execStmts c rest s with
       | none => none
       | some (.normal v', s) => some (.normal (updateEmpty v' v), s)
       | some (.brk v', s) => some (.brk (updateEmpty v' v), s)
       | some (o, s) => some (o, s))
    | some (o, s) => some (o, s)
termination_by ss => (sizeOf ss, 0)
decreasing_by all_goals simp_wf; all_goals (try omega)

/-- the first `case` whose selector equals the discriminant (selectors are evaluated in source order until one
    matches); `none` = no case matches -/
def selectClause (c : Ctx) (disc : Val) : List (Option Expr × List Stmt) → Nat → St → Option (Option Nat × St)
  | [], _, s => some (none, s)
  | (none, _) :: rest, k, s => selectClause c disc rest (k + 1) s
  | (some e, _) :: rest, k, s =>
    match caseMatches c disc e s with
    | none => none
    | some (true, s) => some (some k, s)
    | some (false, s) => selectClause c disc rest (k + 1) s
termination_by cl => (sizeOf cl, 0)
decreasing_by all_goals simp_wf; all_goals (try omega)

/-- the bodies from the selected clause on, falling through; the statement list of a clause is a scope of its own
    (what it declares ends with it — also when control falls through into the next clause) -/
def runClauses (c : Ctx) : List (Option Expr × List Stmt) → Nat → Option Val → St → Option (Outcome × St)
  | [], _, v, s => some (.normal v, s)
  | _ :: rest, skip + 1, v, s => runClauses c rest skip v s
  | (_, body) :: rest, 0, v, s =>
    match execStmts c body s with
    | none => none
    | some (.normal v', s') => runClauses c rest 0 (updateEmpty v' v) (s'.leave s.vars.length)
    | some (.brk v', s') => some (.brk (updateEmpty v' v), s'.leave s.vars.length)
    | some (o, s') => some (o, s'.leave s.vars.length)
termination_by cl => (sizeOf cl, 1)
decreasing_by all_goals simp_wf; all_goals (try omega)

end

/-! ### programs -/

structure Result where
  /-- value of the binding (`void`: none) -/
  value : Val
  trace : List Ev
  world : World

/-- a property binding (or a callback without parameters): the value is the `return` value, else the completion value -/
def runStmt (c : Ctx) (st : Stmt) (s : St) : Option Result :=
  match execStmt c st s with
  | some (.ret v, s) => some { value := v, trace := s.trace, world := s.w }
  | some (.normal v, s) => some { value := v.getD .void, trace := s.trace, world := s.w }
  | _ => none

/-- bind the declared parameters to the leading signal arguments -/
def bindParams (c : Ctx) : List (String × Option (List String)) → List Val → Option (List Var)
  | [], _ => some []
  | (n, some t) :: ps, a :: as =>
    (match c.tyName (joinTy t), bindParams c ps as with
     | some sty, some rest => (coerceTo sty.ty a).map fun a' => rest ++ [{ name := n, sty, const := false, val := some a' }]
     | _, _ => none)
  | _, _ => none

/-- a binding program / callback: `args` are the signal arguments (empty for property bindings) -/
def run (c : Ctx) (p : Program) (w : World) (args : List Val) : Option Result :=
  match p with
  | .stmt st => runStmt c st { w }
  | .function f =>
    if f.named then none else
    match bindParams c f.params args with
    | none => none
    | some vars =>
      match f.body with
      | .expr e => (evalExpr c e { w, vars }).map fun (v, s) => { value := v, trace := s.trace, world := s.w }
      | .stmt st => runStmt c st { w, vars }

/-- the value of a property binding of declared type `t`: an untyped constant takes that type -/
def bindingValue (c : Ctx) (p : Program) (w : World) (t : Ty) : Option Val :=
  (run c p w []).bind fun r => coerceTo t r.value

end QV.Spec.Sem
