/-
  Spec.Typing — the static typing discipline of docs/language.md as a declarative checker over `QV.Model.Ast`
  programs.  Written from the documentation, NOT from typedexpr.rs / tir/builder.rs / tir/ceval.rs:

    * "No implicit type conversion (except for object upcasting on assignment.)"        → `assignable`
    * "Integer and floating point are distinct types."                                   → `common`, `binaryType`
    * "Operands are statically type checked. `<string> + <int>` is invalid"              → `unaryType`, `binaryType`
    * the operator list (unary + - ~ !, binary + - * / % & ^ |, shifts, && ||, comparisons, === / !== aliases,
      list subscript, `as`, ternary)                                                     → `unaryOf`, `binaryOf`
    * the `as` table (numeric amongst int/uint/double, enum → integer, bool → integer, → void, QVariant → T)
                                                                                         → `castable`
    * builtins `Math.max/min`, `console.*`, `qsTr`, `QString::arg/isEmpty`, `QList::isEmpty` → `callBuiltin`
    * statements `let`/`const` (annotation or initial value required), `if`/`else`, `switch`/`case`/`default`/
      `break` (case tested by `==`), `return`; no loops                                 → `checkStmt`
    * callbacks: `function(<name>: <type>, …) { … }`, annotation mandatory             → `checkCallback`

  The data types of the class table (`Env`, `TypeKind`, `TypeDesc`, `PropInfo`, `MethodInfo`) and of the syntax
  (`Expr`, `Stmt`, operator tokens) are shared with the model; every *relation* below is the specification's own.
  `Ty := TypeDesc`: the concrete types bool/int/uint/double/QString/QVariant/void/enum-or-flags/pointer-to-class/
  value class/list, plus the four literal types "constant integer", "constant string", "null", "empty list".

  SPEC DECISIONS — points where docs/language.md is silent and the rule was fixed by what the compiler does
  (each one is exercised by the c05 streams, so a change of behaviour shows up there):

   D1  literal types            an integer literal (and a constant integer expression) is of type "constant integer"
                                which fits `int` and `uint`; a string literal fits `QString`; `null` fits every
                                pointer type; `[]` fits every list type.  Adopting the type demanded by the context
                                is not a conversion.  Where no context fixes it (let without annotation, ternary,
                                array element, Math.max/min, receiver of `.member`) the defaults are `int`/`QString`;
                                `null`/`[]` have no default ("undetermined type").
   D2  integer literal range    an integer literal must fit a signed 64-bit integer.
   D3  enum vs flags            an enum `E` and its `QFlags<E>` alias are one type for assignment and operators.
   D4  no upcast in operators   `VDerived*` and `VBase*` have NO common type in `?:`, `==`, arrays, Math.max, and
                                between the `return`s of one binding (upcast happens on assignment only: to a
                                property, a local, a method argument, a list element) — use `as VBase`.
   D5  operator domains         unary `+ -`: int, uint, double, constant integer.   `~`: int, uint, constant integer,
                                enum/flags.   `!`: bool.   `+ - * / %`: int, uint, double, constant integer; `+` also
                                QString.   `& ^ |`: bool, int, uint, constant integer, enum/flags.   `<< >>`: left and
                                right each int/uint/constant integer, NOT necessarily the same type (the result has the
                                type of the left operand).   `&& ||`: bool.   `== !=`: bool, int, uint, double,
                                QString, enum/flags, pointers (incl. `null`).   `< <= > >=`: the same without pointers
                                (bool IS ordered).   Lists, QVariant, value classes and void take no operator.
   D6  shift                    see D5: the only operator whose operands need no common type.
   D7  `as`                     besides the documented table, `as T` is allowed whenever the value is assignable to
                                `T` (identity, upcast — the compiler's own hint says "use (expr as Base) to upcast" —
                                literal adoption, enum/flags alias) and from a constant integer to `double`.
                                `<QVariant> as T` is allowed for every `T`.  bool←integer, enum←integer, double↔enum,
                                double←bool are NOT casts.
   D8  assignment expression    `x = e` has type void; the left side is a `let` local, a writable property (of an
                                object, or of a value-class local), or an element of a list-typed local.
   D9  console.*                any number of arguments of any type (the compiler does not look at them).
   D10 Math.max/min             exactly two arguments with a common type out of bool/int/uint/double/QString.
   D11 qsTr                     exactly one argument, a string LITERAL (constant string), result QString.
   D12 name resolution          local variables, then object ids of the document, then properties of `this`, then
                                methods of `this`, then type names, then `Math`/`console`/`qsTr`.
   D13 property read/write      reading needs READ, assigning needs WRITE (a write-only property is assignable).
   D14 uninitialised `let`      `let v: T;` followed by a read of `v` is well-typed (reading a never-assigned variable
                                is a run-time notion).  `let v;` and `const c: T;` are errors.  A variable of type
                                void cannot be declared.
   D15 scopes                   block scoping: a block opens a scope; EVERY CLAUSE of a `switch` is a scope of its own
                                that starts from the scope before the switch (a declaration in a clause is visible
                                neither after the switch nor in the following clauses: a clause can be entered by a
                                jump from the head, when the initialisers of the preceding clauses have not run —
                                JavaScript would raise a ReferenceError there at run time, the static discipline
                                rejects the reference); a declaration made directly in a branch of an `if` does not
                                outlive the branch; redeclaration shadows.  Case values are typed in the scope before
                                the switch.  (The compiler used to deviate — findings F32, F40 and F100: declarations
                                in unbraced `if` branches and in `case` clauses stayed visible until the end of the
                                ENCLOSING block, and after 2a702d4 still in the FOLLOWING clauses, so a variable
                                whose declaration was never executed could be read; repaired by a011e08, 2a702d4
                                and 0aff63c, and proved for the model:
                                Props.C05.declared_in_block_branch_or_clause_not_visible_after.)
   D16 result of a binding      the result types are those of all `return` statements (reachable or not; `return;`
                                is void) and of the expression statements in tail position.  They must have ONE
                                common type (D4: no upcast between them; literal types may mix with the type they
                                fit), and that type must be assignable to the property (identity or upcast).
                                A path that ends without a value contributes void.  docs/language.md does not define
                                the value of a statement list; programs whose tail is not "clean" (a declaration,
                                `break` or a `switch` in tail position after value-producing statements) get the
                                verdict `unspecified` and nothing is demanded of them.
   D17 result of a callback     not checked (the value is discarded), `return e` and `return` may be mixed.
   D18 callback parameters      at most as many as the signal has; the signal's argument type must be assignable to
                                the declared parameter type (identity or upcast); no duplicates; not void.
                                A signal with default arguments counts with its longest parameter list; a truly
                                overloaded signal cannot be bound.
   D19 switch                   at most one `default`; each `case v` requires `<discriminant> == v` to be well-typed.
   D20 unsupported              `typeof`/`void`/`delete`, `** >>> ?? instanceof in`, function expressions, labelled
                                `break`, named callback functions.
-/
import QV.Model.Ast

namespace QV.Spec.Typing
open QV.Model

abbrev Ty := TypeDesc

/-- what the checker needs to know about the document: the class table, the object ids, the object owning the binding -/
structure World where
  env : Env
  objects : List (String × String)
  /-- (class, id) -/
  thisObj : Option (String × String)

inductive Err where
  | undefinedName | undefinedType | unknownMember
  | notAValue | notCallable | notAssignable | assignToConst | readOnlyProperty | unreadableProperty
  | conditionNotBool | noCommonType | operandType | unsupportedOperator
  | unsupportedExpression | unsupportedStatement | badCast | badArguments | badIndex | notAList
  | undeterminedType | declWithoutTypeOrInit | constWithoutInit | voidVariable | breakOutsideSwitch | literalRange
  | namedFunction | paramWithoutType | duplicateParam | functionInBinding | multipleDefault
  | assignMismatch | resultMismatch | resultsDisagree | tooManyParams | paramType | unknownSignal | unknownProperty
deriving Repr, DecidableEq, Inhabited

def Err.name : Err → String
  | .undefinedName => "undefined-name" | .undefinedType => "undefined-type" | .unknownMember => "unknown-member"
  | .notAValue => "not-a-value" | .notCallable => "not-callable" | .notAssignable => "not-assignable"
  | .assignToConst => "assign-to-const" | .readOnlyProperty => "read-only-property"
  | .unreadableProperty => "unreadable-property" | .conditionNotBool => "condition-not-bool"
  | .noCommonType => "no-common-type" | .operandType => "operand-type" | .unsupportedOperator => "unsupported-operator"
  | .unsupportedExpression => "unsupported-expression" | .unsupportedStatement => "unsupported-statement"
  | .badCast => "bad-cast" | .badArguments => "bad-arguments" | .badIndex => "bad-index" | .notAList => "not-a-list"
  | .undeterminedType => "undetermined-type" | .declWithoutTypeOrInit => "decl-without-type-or-init"
  | .constWithoutInit => "const-without-init" | .voidVariable => "void-variable"
  | .breakOutsideSwitch => "break-outside-switch" | .literalRange => "literal-range" | .namedFunction => "named-function"
  | .paramWithoutType => "param-without-type" | .duplicateParam => "duplicate-param"
  | .functionInBinding => "function-in-binding" | .multipleDefault => "multiple-default"
  | .assignMismatch => "assign-mismatch" | .resultMismatch => "result-mismatch" | .resultsDisagree => "results-disagree"
  | .tooManyParams => "too-many-params" | .paramType => "param-type" | .unknownSignal => "unknown-signal"
  | .unknownProperty => "unknown-property"

/-! ### type classes -/

def intK (k : TypeKind) : Bool := k = .int || k = .uint
def numK (k : TypeKind) : Bool := k = .int || k = .uint || k = .double
def enumK : TypeKind → Bool
  | .just (.enum _) => true
  | _ => false
def ptrK : TypeKind → Bool
  | .pointer _ => true
  | _ => false
def listK : TypeKind → Bool
  | .list _ => true
  | _ => false

/-- int, uint or a constant integer -/
def intTy : Ty → Bool
  | .constInteger => true
  | .concrete k => intK k
  | _ => false

/-- D1: the literal type `lit` fits the concrete type `k` -/
def litFits : Ty → TypeKind → Bool
  | .constInteger, k => intK k
  | .constString, k => k = .string
  | .nullPointer, k => ptrK k
  | .emptyList, k => listK k
  | .concrete _, _ => false

/-- D1: default of a literal type where no context fixes it -/
def concreteOf : Ty → Option TypeKind
  | .concrete k => some k
  | .constInteger => some .int
  | .constString => some .string
  | .nullPointer | .emptyList => none

/-- D3: an enum and the flags type over it -/
def sameEnum (env : Env) (a b : String) : Bool :=
  a = b ||
  (env.enums.find? (·.name = a)).any (·.alias = some b) ||
  (env.enums.find? (·.name = b)).any (·.alias = some a)

/-- class `d` is `b` or derives from it (a class the table does not know has only itself) -/
def subclass (env : Env) (d b : String) : Bool :=
  match env.classes.find? (·.name = d) with
  | some c => c.ancestors.contains b
  | none => d = b

/-- "No implicit type conversion (except for object upcasting on assignment)": a value of type `actual` may be
    stored where `expected` is demanded -/
def assignable (env : Env) (expected : TypeKind) : Ty → Bool
  | .concrete a =>
    a = expected ||
    (match a, expected with
     | .pointer (.cls d), .pointer (.cls b) => subclass env d b
     | .just (.enum x), .just (.enum y) => sameEnum env x y
     | _, _ => false)
  | lit => litFits lit expected

/-- "operands of an operator must have one common type" (D1, D3, D4) -/
def common (env : Env) (l r : Ty) : Option Ty :=
  match l, r with
  | .concrete a, .concrete b =>
    if a = b then some l
    else (match a, b with
      | .just (.enum x), .just (.enum y) => if sameEnum env x y then some l else none
      | _, _ => none)
  | .concrete a, lit => if litFits lit a then some l else none
  | lit, .concrete b => if litFits lit b then some r else none
  | l, r => if l = r then some l else none

def commonConcrete (env : Env) (l r : Ty) : Option TypeKind :=
  (common env l r).bind concreteOf

/-! ### operators (D5, D6, D20) -/

def unaryOf : UnaryToken → Option UnaryOp
  | .plus => some .plus
  | .minus => some .minus
  | .bitwiseNot => some .bitNot
  | .logicalNot => some .logNot
  | .typeof | .void | .delete => none

def binaryOf : BinaryToken → Option BinaryOp
  | .add => some (.arith .add) | .sub => some (.arith .sub) | .mul => some (.arith .mul)
  | .div => some (.arith .div) | .rem => some (.arith .rem)
  | .bitwiseAnd => some (.bitwise .and) | .bitwiseXor => some (.bitwise .xor) | .bitwiseOr => some (.bitwise .or)
  | .rightShift => some (.shift .shr) | .leftShift => some (.shift .shl)
  | .logicalAnd => some (.logical .and) | .logicalOr => some (.logical .or)
  | .equal | .strictEqual => some (.cmp .eq)
  | .notEqual | .strictNotEqual => some (.cmp .ne)
  | .lessThan => some (.cmp .lt) | .lessThanEqual => some (.cmp .le)
  | .greaterThan => some (.cmp .gt) | .greaterThanEqual => some (.cmp .ge)
  | .exp | .unsignedRightShift | .nullishCoalesce | .instanceof | .in_ => none

/-- type of `op a`, if admissible -/
def unaryType (op : UnaryOp) (t : Ty) : Option Ty :=
  match op with
  | .plus | .minus =>
    (match t with
     | .constInteger => some t
     | .concrete k => if numK k then some t else none
     | _ => none)
  | .bitNot =>
    (match t with
     | .constInteger => some t
     | .concrete k => if intK k || enumK k then some t else none
     | _ => none)
  | .logNot => if t = .bool then some .bool else none

/-- values of this type can be compared by `==`/`!=` only -/
def eqOnlyTy : Ty → Bool
  | .nullPointer => true
  | .concrete k => ptrK k
  | _ => false

/-- values of this type can be compared by all six comparison operators -/
def orderedTy : Ty → Bool
  | .constInteger | .constString => true
  | .concrete k => k = .bool || numK k || k = .string || enumK k
  | _ => false

/-- type of `l op r`, if admissible -/
def binaryType (env : Env) (op : BinaryOp) (l r : Ty) : Option Ty :=
  match op with
  | .arith a =>
    (common env l r).bind fun t =>
      match t with
      | .constInteger => some t
      | .constString => if a = .add then some t else none
      | .concrete k => if numK k || (k = .string && a = .add) then some t else none
      | _ => none
  | .bitwise _ =>
    (common env l r).bind fun t =>
      match t with
      | .constInteger => some t
      | .concrete k => if k = .bool || intK k || enumK k then some t else none
      | _ => none
  | .shift _ =>
    -- a constant integer shifted by a non-constant count is an `int` (D1: literal default)
    if intTy l && intTy r then some (if l = .constInteger && r ≠ .constInteger then .int else l) else none
  | .logical _ => if l = .bool && r = .bool then some .bool else none
  | .cmp c =>
    (common env l r).bind fun t =>
      if orderedTy t then some .bool
      else if eqOnlyTy t && (c = .eq || c = .ne) then some .bool
      else none

/-! ### `as` (D7) -/

inductive CastKind where
  | assign      -- nothing to convert (identity, upcast, literal adoption, enum/flags alias)
  | numeric     -- numeric cast amongst int/uint/double; enum → integer; bool → integer
  | discard     -- `as void`
  | extract     -- stored value of a QVariant
deriving DecidableEq, Repr

def castKind (env : Env) (to : TypeKind) (frm : Ty) : Option CastKind :=
  if assignable env to frm then some .assign
  else if to = .void then some .discard
  else match frm with
    | .constInteger => if to = .double then some .numeric else none
    | .concrete k =>
      if numK to && numK k then some .numeric
      else if intK to && (enumK k || k = .bool) then some .numeric
      else if k = .variant then some .extract
      else none
    | _ => none

def castable (env : Env) (to : TypeKind) (frm : Ty) : Bool := (castKind env to frm).isSome

/-! ### name resolution (D12) and what an expression denotes -/

inductive Ns where | math | console
deriving DecidableEq, Repr

/-- what an expression denotes before it is used -/
inductive Res where
  | val (t : Ty)
  | loc (t : TypeKind) (k : DeclKind)
  /-- a property; `rvalueGadget`: of a value-class temporary (not assignable) -/
  | prop (p : PropInfo) (rvalueGadget : Bool)
  /-- `o[i]` with the types of `o` and `i` (checked when it is read or assigned); `ofLocal`: `o` is a local
      variable (then the element is assignable) -/
  | elem (o i : Ty) (ofLocal : Bool)
  /-- overloads: parameter types and result type -/
  | methods (sigs : List (List TypeKind × TypeKind))
  | fn (f : Builtin)
  | nsp (n : Ns)
  | type (t : NamedTy)
deriving Repr

/-- innermost first: name, type, let/const -/
abbrev Scope := List (String × TypeKind × DeclKind)

def Scope.find (sc : Scope) (n : String) : Option (TypeKind × DeclKind) :=
  (List.find? (fun e => e.1 = n) sc).map (·.2)

def sigsOf (ms : List MethodInfo) : List (List TypeKind × TypeKind) := ms.map fun m => (m.args, m.ret)

def resolveName (w : World) (sc : Scope) (n : String) : Except Err Res :=
  match sc.find n with
  | some (t, k) => .ok (.loc t k)
  | none =>
    match w.objects.find? (·.1 = n) with
    | some (_, cls) => .ok (.val (.concrete (.pointer (.cls cls))))
    | none =>
      let ofThis : Option Res :=
        match w.thisObj with
        | none => none
        | some (tcls, _) =>
          match w.env.classes.find? (·.name = tcls) with
          | none => none
          | some ci =>
            match ci.props.find? (·.name = n) with
            | some p => some (.prop p false)
            | none => (ci.methods.find? (·.1 = n)).map fun m => .methods (sigsOf m.2)
      match ofThis with
      | some r => .ok r
      | none =>
        match w.env.types.find? (·.1 = n) with
        | some (_, t) => .ok (.type t)
        | none =>
          if n = "Math" then .ok (.nsp .math)
          else if n = "console" then .ok (.nsp .console)
          else if n = "qsTr" then .ok (.fn .tr)
          else .error .undefinedName

def nsMember (k : Ns) (n : String) : Except Err Res :=
  match k with
  | .math =>
    if n = "max" then .ok (.fn .max) else if n = "min" then .ok (.fn .min) else .error .unknownMember
  | .console =>
    if n = "log" then .ok (.fn (.consoleLog .log)) else if n = "debug" then .ok (.fn (.consoleLog .debug))
    else if n = "info" then .ok (.fn (.consoleLog .info)) else if n = "warn" then .ok (.fn (.consoleLog .warn))
    else if n = "error" then .ok (.fn (.consoleLog .error)) else .error .unknownMember

/-- `T.name`: a nested type or an enumerator of class/namespace `T`; an enumerator of a scoped enum `T` -/
def typeMember (env : Env) (t : NamedTy) (n : String) : Except Err Res :=
  match t with
  | .cls c | .ns c =>
    (match env.classes.find? (·.name = c) with
     | none => .error .undefinedName
     | some ci =>
       match ci.nested.find? (·.1 = n) with
       | some (_, nt) => .ok (.type nt)
       | none =>
         match ci.variants.find? (·.1 = n) with
         | some (_, e) => .ok (.val (.concrete (.just (.enum e))))
         | none => .error .undefinedName)
  | .enum e =>
    (match env.enums.find? (·.name = e) with
     | some ei => if ei.isScoped && ei.variants.contains n then .ok (.val (.concrete (.just (.enum e)))) else .error .undefinedName
     | none => .error .undefinedName)
  | _ => .error .undefinedName

/-- the class whose members a value of this type has -/
def memberClass : TypeKind → Option String
  | .just (.cls n) | .pointer (.cls n) => some n
  | .just (.prim .qstring) => some "QString"
  | .list _ => some "QList"
  | _ => none

/-- `v.name` for a value of type `t` (`ofLocal`: `v` is a local variable) -/
def valueMember (env : Env) (t : Ty) (ofLocal : Bool) (n : String) : Except Err Res :=
  match concreteOf t with
  | none => .error .undeterminedType
  | some k =>
    match (memberClass k).bind fun c => env.classes.find? (·.name = c) with
    | none => .error .unknownMember
    | some ci =>
      match ci.props.find? (·.name = n) with
      | some p => .ok (.prop p (!ptrK k && !ofLocal))
      | none =>
        match ci.methods.find? (·.1 = n) with
        | some (_, ms) => .ok (.methods (sigsOf ms))
        | none => .error .unknownMember

/-- element type of `o[i]` -/
def elemType (o i : Ty) : Except Err TypeKind :=
  match concreteOf o with
  | none => .error .undeterminedType
  | some (.list t) => if intTy i then .ok t else .error .badIndex
  | some _ => .error .notAList

/-- using what an expression denotes as a value (D13) -/
def valueOf : Res → Except Err Ty
  | .val t => .ok t
  | .loc t _ => .ok (.concrete t)
  | .prop p _ => if p.readable then .ok (.concrete p.ty) else .error .unreadableProperty
  | .elem o i _ => (elemType o i).map .concrete
  | .methods _ | .fn _ | .nsp _ | .type _ => .error .notAValue

/-- `A.B` in an annotation names the type `A::B` -/
def scopedName : List String → String
  | [] => ""
  | [x] => x
  | x :: xs => x ++ "::" ++ scopedName xs

/-- a type annotation: classes derived from QObject are passed by pointer -/
def annotated (env : Env) (components : List String) : Except Err TypeKind :=
  match env.types.find? (·.1 = scopedName components) with
  | none => .error .undefinedType
  | some (_, .cls n) =>
    .ok (if (env.classes.find? (·.name = n)).any (·.isObject) then .pointer (.cls n) else .just (.cls n))
  | some (_, .comp n) => .ok (.pointer (.comp n))
  | some (_, t) => .ok (.just t)

/-- element type of an array literal (D1, D4) -/
def arrayType (env : Env) : List Ty → Except Err Ty
  | [] => .ok .emptyList
  | t :: ts =>
    let rec go (known : Ty) : List Ty → Except Err Ty
      | [] => .ok known
      | u :: us =>
        match common env known u with
        | some k => go k us
        | none => .error .noCommonType
    match go t ts with
    | .error e => .error e
    | .ok k =>
      match concreteOf k with
      | some et => .ok (.concrete (.list et))
      | none => .error .undeterminedType

def argsFit (env : Env) (params : List TypeKind) (args : List Ty) : Bool :=
  params.length = args.length && (params.zip args).all fun (p, a) => assignable env p a

/-- a method call: some overload has the right number of parameters, each accepting its argument -/
def callMethod (env : Env) (sigs : List (List TypeKind × TypeKind)) (args : List Ty) : Except Err Ty :=
  match sigs.find? fun s => argsFit env s.1 args with
  | some s => .ok (.concrete s.2)
  | none => .error .badArguments

def callBuiltin (env : Env) (f : Builtin) (args : List Ty) : Except Err Ty :=
  match f with
  | .consoleLog _ => .ok .void
  | .max | .min =>
    (match args with
     | [a, b] =>
       (match commonConcrete env a b with
        | none => .error .noCommonType
        | some k => if k = .bool || numK k || k = .string then .ok (.concrete k) else .error .operandType)
     | _ => .error .badArguments)
  | .tr =>
    (match args with
     | [a] => if a = .constString then .ok .string else .error .badArguments
     | _ => .error .badArguments)

/-- the expression denotes a local variable -/
def isLoc : Res → Bool
  | .loc .. => true
  | _ => false

/-- a string literal used as a value where the type is not fixed by a context is a QString -/
def strDefault : Ty → Ty
  | .constString => .string
  | t => t

/-- the value of what a sub-expression denotes -/
def valueOfR : Except Err Res → Except Err Ty
  | .error e => .error e
  | .ok r => valueOf r

mutual

/-- what the expression denotes -/
def resolve (w : World) (sc : Scope) : Expr → Except Err Res
  | .ident n => resolveName w sc n
  | .this =>
    (match w.thisObj with
     | some (cls, _) => .ok (.val (.concrete (.pointer (.cls cls))))
     | none => .error .undefinedName)
  | .integer v => if v ≤ 9223372036854775807 then .ok (.val .constInteger) else .error .literalRange
  | .float _ => .ok (.val .double)
  | .string _ => .ok (.val .constString)
  | .bool _ => .ok (.val .bool)
  | .null => .ok (.val .nullPointer)
  | .array es =>
    (match typeOfList w sc es with
     | .error e => .error e
     | .ok ts => (arrayType w.env (ts.map strDefault)).map .val)
  | .function => .error .unsupportedExpression
  | .member o n =>
    (match resolve w sc o with
     | .error e => .error e
     | .ok (.nsp k) => nsMember k n
     | .ok (.type t) => typeMember w.env t n
     | .ok (.methods _) | .ok (.fn _) => .error .notAValue
     | .ok (.loc t _) => valueMember w.env (.concrete t) true n
     | .ok r =>
       match valueOf r with
       | .error e => .error e
       | .ok t => valueMember w.env t false n)
  | .subscript o i =>
    (match resolve w sc o with
     | .error e => .error e
     | .ok r =>
       match valueOf r with
       | .error e => .error e
       | .ok ot =>
         match valueOfR (resolve w sc i) with
         | .error e => .error e
         | .ok it => .ok (.elem ot it (isLoc r)))
  | .call f args =>
    (match typeOfList w sc args with
     | .error e => .error e
     | .ok ats =>
       match resolve w sc f with
       | .error e => .error e
       | .ok (.methods sigs) => (callMethod w.env sigs ats).map .val
       | .ok (.fn b) => (callBuiltin w.env b ats).map .val
       | .ok _ => .error .notCallable)
  | .assign l r =>
    (match valueOfR (resolve w sc r) with
     | .error e => .error e
     | .ok rt =>
       match resolve w sc l with
       | .error e => .error e
       | .ok (.loc t .let_) => if assignable w.env t rt then .ok (.val .void) else .error .assignMismatch
       | .ok (.loc _ .const_) => .error .assignToConst
       | .ok (.prop p rvalueGadget) =>
         if rvalueGadget then .error .notAssignable
         else if !p.writable then .error .readOnlyProperty
         else if assignable w.env p.ty rt then .ok (.val .void) else .error .assignMismatch
       | .ok (.elem ot it ofLocal) =>
         if !ofLocal then .error .notAssignable
         else match elemType ot it with
           | .error e => .error e
           | .ok t => if assignable w.env t rt then .ok (.val .void) else .error .assignMismatch
       | .ok _ => .error .notAssignable)
  | .unary tok a =>
    (match valueOfR (resolve w sc a) with
     | .error e => .error e
     | .ok t =>
       match unaryOf tok with
       | none => .error .unsupportedOperator
       | some op =>
         match unaryType op t with
         | some rt => .ok (.val rt)
         | none => .error .operandType)
  | .binary tok l r =>
    (match binaryOf tok with
     | none => .error .unsupportedOperator
     | some op =>
       match valueOfR (resolve w sc l) with
       | .error e => .error e
       | .ok lt =>
         match valueOfR (resolve w sc r) with
         | .error e => .error e
         | .ok rt =>
           match op with
           | .logical _ => if lt = .bool && rt = .bool then .ok (.val .bool) else .error .conditionNotBool
           | _ =>
             match binaryType w.env op lt rt with
             | some t => .ok (.val t)
             | none => .error .operandType)
  | .as_ v ty =>
    (match valueOfR (resolve w sc v) with
     | .error e => .error e
     | .ok vt =>
       match annotated w.env ty with
       | .error e => .error e
       | .ok k => if castable w.env k vt then .ok (.val (.concrete k)) else .error .badCast)
  | .ternary c a b =>
    (match valueOfR (resolve w sc c) with
     | .error e => .error e
     | .ok ct =>
       match valueOfR (resolve w sc a) with
       | .error e => .error e
       | .ok at_ =>
         match valueOfR (resolve w sc b) with
         | .error e => .error e
         | .ok bt =>
           if ct ≠ .bool then .error .conditionNotBool
           else match commonConcrete w.env at_ bt with
             | some k => .ok (.val (.concrete k))
             | none => .error .noCommonType)

def typeOfList (w : World) (sc : Scope) : List Expr → Except Err (List Ty)
  | [] => .ok []
  | e :: es =>
    match valueOfR (resolve w sc e) with
    | .error x => .error x
    | .ok t =>
      match typeOfList w sc es with
      | .error x => .error x
      | .ok ts => .ok (t :: ts)

end

/-- the type of the expression used as a value -/
def typeOf (w : World) (sc : Scope) (e : Expr) : Except Err Ty := valueOfR (resolve w sc e)

theorem valueOfR_resolve (w : World) (sc : Scope) (e : Expr) : valueOfR (resolve w sc e) = typeOf w sc e := rfl

/-! ### statements -/

/-- how a statement list can end, for the result of a binding (D16) -/
inductive Tail where
  | value (t : Ty)
  | noValue
  | unspecified
deriving Repr, DecidableEq

/-- what checking a statement yields: the scope after it, the types of the `return`s in it, its tails -/
structure Out where
  scope : Scope
  returns : List Ty := []
  tails : List Tail := []

def declare (sc : Scope) (n : String) (t : TypeKind) (k : DeclKind) : Scope := (n, t, k) :: sc

/-- one declarator of `let`/`const` (D1, D14) -/
def checkDecl (w : World) (sc : Scope) (kind : DeclKind) (d : Decl) : Except Err Scope :=
  let init : Except Err (Option Ty) :=
    match d.value with
    | some e => (typeOf w sc e).map some
    | none => if kind = .const_ then .error .constWithoutInit else .ok none
  match init with
  | .error e => .error e
  | .ok it =>
    let ty : Except Err TypeKind :=
      match d.ty with
      | some a => annotated w.env a
      | none =>
        match it with
        | some t => (match concreteOf t with | some k => .ok k | none => .error .undeterminedType)
        | none => .error .declWithoutTypeOrInit
    match ty with
    | .error e => .error e
    | .ok k =>
      if k = .void then .error .voidVariable
      else match it with
        | some t => if assignable w.env k t then .ok (declare sc d.name k kind) else .error .assignMismatch
        | none => .ok (declare sc d.name k kind)

def checkDecls (w : World) (kind : DeclKind) : Scope → List Decl → Except Err Scope
  | sc, [] => .ok sc
  | sc, d :: ds =>
    match checkDecl w sc kind d with
    | .error e => .error e
    | .ok sc' => checkDecls w kind sc' ds

/-- `prev`: an earlier statement of the enclosing lists may already have produced a value -/
def emptyTail (prev : Bool) : Tail := if prev then .unspecified else .noValue

/-- does the statement possibly leave a value behind (an expression statement, or a compound that contains one)? -/
def producesValue : Stmt → Bool
  | .lexical .. | .break_ _ | .return_ _ => false
  | _ => true

/-- `if (c) a else b` from the verdicts on its parts: the condition is bool (checked after the branches, as the
    compiler reports), a declaration made directly in a branch does not outlive it (D15) -/
def ifElseOut (sc : Scope) (ct : Except Err Ty) (ra rb : Except Err Out) : Except Err Out :=
  match ct with
  | .error x => .error x
  | .ok ct =>
    match ra with
    | .error x => .error x
    | .ok oa =>
      match rb with
      | .error x => .error x
      | .ok ob =>
        if ct ≠ .bool then .error .conditionNotBool
        else .ok { scope := sc, returns := oa.returns ++ ob.returns, tails := oa.tails ++ ob.tails }

/-- `if (c) a` -/
def ifOut (sc : Scope) (last prev : Bool) (ct : Except Err Ty) (ra : Except Err Out) : Except Err Out :=
  match ct with
  | .error x => .error x
  | .ok ct =>
    match ra with
    | .error x => .error x
    | .ok oa =>
      if ct ≠ .bool then .error .conditionNotBool
      else .ok { scope := sc, returns := oa.returns, tails := oa.tails ++ (if last then [emptyTail prev] else []) }

mutual

/-- `inSwitch`: `break` allowed; `last`: the statement is in tail position of the program; `prev`: see `emptyTail` -/
def checkStmt (w : World) (inSwitch : Bool) (last prev : Bool) (sc : Scope) : Stmt → Except Err Out
  | .expr e =>
    (match typeOf w sc e with
     | .error x => .error x
     | .ok t => .ok { scope := sc, tails := if last then [.value (strDefault t)] else [] })
  | .block ss =>
    (match checkStmts w inSwitch last prev sc ss with
     | .error x => .error x
     | .ok o => .ok { o with scope := sc })
  | .lexical kind ds =>
    (match checkDecls w kind sc ds with
     | .error x => .error x
     | .ok sc' => .ok { scope := sc', tails := if last then [emptyTail prev] else [] })
  | .if_ c a b =>
    (match b with
     | some s => ifElseOut sc (typeOf w sc c) (checkStmt w inSwitch last prev sc a) (checkStmt w inSwitch last prev sc s)
     | none => ifOut sc last prev (typeOf w sc c) (checkStmt w inSwitch last prev sc a))
  | .switch v clauses =>
    if (clauses.filter (·.1.isNone)).length > 1 then .error .multipleDefault
    else
      (match typeOf w sc v with
       | .error x => .error x
       | .ok vt =>
         match checkClauses w vt sc sc clauses with
         | .error x => .error x
         | .ok o => .ok { o with scope := sc, tails := if last then [.unspecified] else [] })
  | .break_ labeled =>
    if labeled then .error .unsupportedStatement
    else if inSwitch then .ok { scope := sc, tails := if last then [.unspecified] else [] }
    else .error .breakOutsideSwitch
  | .return_ e =>
    (match e with
     | none => .ok { scope := sc, returns := [.void] }
     | some e =>
       match typeOf w sc e with
       | .error x => .error x
       | .ok t => .ok { scope := sc, returns := [strDefault t] })

def checkStmts (w : World) (inSwitch : Bool) (last prev : Bool) (sc : Scope) : List Stmt → Except Err Out
  | [] => .ok { scope := sc, tails := if last then [emptyTail prev] else [] }
  | [s] => checkStmt w inSwitch last prev sc s
  | s :: rest =>
    match checkStmt w inSwitch false prev sc s with
    | .error x => .error x
    | .ok o =>
      match checkStmts w inSwitch last (prev || producesValue s) o.scope rest with
      | .error x => .error x
      | .ok o' => .ok { o' with returns := o.returns ++ o'.returns }

/-- `sc0`: the scope the case values are evaluated in (D19); `sc`: the scope every clause body starts in (D15:
    a clause's declarations are visible neither after the switch nor in the following clauses — a clause can be
    entered by a jump from the head, when the initialisers of the preceding clauses have not run) -/
def checkClauses (w : World) (vt : Ty) (sc0 sc : Scope) : List (Option Expr × List Stmt) → Except Err Out
  | [] => .ok { scope := sc }
  | (cv, body) :: rest =>
    let caseOk : Except Err Unit :=
      match cv with
      | none => .ok ()
      | some e =>
        match typeOf w sc0 e with
        | .error x => .error x
        | .ok ct => if (binaryType w.env (.cmp .eq) vt ct).isSome then .ok () else .error .operandType
    match caseOk with
    | .error x => .error x
    | .ok () =>
      match checkStmts w true false true sc body with
      | .error x => .error x
      | .ok o =>
        match checkClauses w vt sc0 sc rest with
        | .error x => .error x
        | .ok o' => .ok { o' with returns := o.returns ++ o'.returns }

end

/-! ### programs -/

inductive Verdict where
  | wellTyped
  | illTyped (e : Err)
  | unspecified
deriving Repr, DecidableEq

/-- D16: one common type for all results -/
def resultType (env : Env) : List Ty → Except Err Ty
  | [] => .ok .void
  | t :: ts =>
    let rec go (known : Ty) : List Ty → Except Err Ty
      | [] => .ok known
      | u :: us =>
        match common env known u with
        | some k => go k us
        | none => .error .resultsDisagree
    go t ts

/-- a property binding: `p: <statement>` on the object `this` -/
def checkBinding (w : World) (propTy : TypeKind) (p : Program) : Verdict :=
  match p with
  | .function _ => .illTyped .functionInBinding
  | .stmt s =>
    match checkStmt w false true false [] s with
    | .error e => .illTyped e
    | .ok o =>
      if o.tails.contains .unspecified then .unspecified
      else
        let results := o.returns ++ o.tails.map fun t => match t with | .value t => t | _ => .void
        match resultType w.env results with
        | .error e => .illTyped e
        | .ok t => if assignable w.env propTy t then .wellTyped else .illTyped .resultMismatch

/-- D18: the signal a callback `on<Name>` binds to: the overloads must differ by trailing (default) arguments only -/
def signalParams (ms : List MethodInfo) : Option (List TypeKind) :=
  match ms with
  | [] => none
  | m :: rest =>
    let longest := rest.foldl (fun a x => if x.args.length > a.args.length then x else a) m
    if ms.all fun x => x.kind = longest.kind && x.ret = longest.ret && x.args.isPrefixOf longest.args then
      (if longest.kind = .signal then some longest.args else none)
    else none

def checkParams (w : World) : Scope → List (String × Option (List String)) → Except Err Scope
  | sc, [] => .ok sc
  | sc, (n, ty) :: rest =>
    if (sc.find n).isSome then .error .duplicateParam
    else match ty with
      | none => .error .paramWithoutType
      | some a =>
        match annotated w.env a with
        | .error e => .error e
        | .ok k => if k = .void then .error .voidVariable else checkParams w (declare sc n k .let_) rest

/-- a signal callback `on<Signal>: <statement or function>` -/
def checkCallback (w : World) (sigArgs : List TypeKind) (p : Program) : Verdict :=
  match p with
  | .stmt s =>
    (match checkStmt w false false false [] s with
     | .error e => .illTyped e
     | .ok _ => .wellTyped)
  | .function f =>
    if f.named then .illTyped .namedFunction
    else match checkParams w [] f.params with
      | .error e => .illTyped e
      | .ok sc =>
        let body : Except Err Unit :=
          match f.body with
          | .expr e => (typeOf w sc e).map fun _ => ()
          | .stmt s => (checkStmt w false false false sc s).map fun _ => ()
        match body with
        | .error e => .illTyped e
        | .ok () =>
          -- parameters in declaration order (the scope is innermost first)
          let ptys := sc.reverse.map (·.2.1)
          if ptys.length > sigArgs.length then .illTyped .tooManyParams
          else if (sigArgs.zip ptys).all fun (a, p) => assignable w.env p (.concrete a) then .wellTyped
          else .illTyped .paramType

end QV.Spec.Typing
