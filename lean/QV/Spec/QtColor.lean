/-
  Specification side of C19: how a colour string is read.
    #rgb  #argb  #rrggbb  #aarrggbb   (alpha first, each short digit doubled)
    SVG 1.1 keywords, ASCII-case-insensitively, and `transparent`
    anything else: no colour.
  Written positionally on the digits; no shifts or masks; does not mention the implementation's table.
-/
import QV.Model.Color
import QV.Spec.SvgTable

namespace QV.Spec.QtColor
open QV.Model.Color (Color)

def digitTable : List (Char × Nat) :=
  [('0',0),('1',1),('2',2),('3',3),('4',4),('5',5),('6',6),('7',7),('8',8),('9',9),
   ('a',10),('b',11),('c',12),('d',13),('e',14),('f',15),
   ('A',10),('B',11),('C',12),('D',13),('E',14),('F',15)]

def lowerTable : List (Char × Char) :=
  [('A','a'),('B','b'),('C','c'),('D','d'),('E','e'),('F','f'),('G','g'),('H','h'),('I','i'),
   ('J','j'),('K','k'),('L','l'),('M','m'),('N','n'),('O','o'),('P','p'),('Q','q'),('R','r'),
   ('S','s'),('T','t'),('U','u'),('V','v'),('W','w'),('X','x'),('Y','y'),('Z','z')]

def assoc {β} (t : List (Char × β)) (c : Char) : Option β :=
  match t with
  | [] => none
  | (k, v) :: rest => if k = c then some v else assoc rest c

def digit? (c : Char) : Option Nat := assoc digitTable c
def lower (c : Char) : Char := (assoc lowerTable c).getD c

def digits? : List Char → Option (List Nat)
  | [] => some []
  | c :: cs => match digit? c, digits? cs with
    | some d, some ds => some (d :: ds)
    | _, _ => none

def lookup (t : List (List Char × Nat × Nat × Nat)) (key : List Char) : Option (Nat × Nat × Nat) :=
  match t with
  | [] => none
  | (k, v) :: rest => if k = key then some v else lookup rest key

def readColor (s : List Char) : Option Color :=
  match s with
  | '#' :: ds =>
    match digits? ds with
    | some [r, g, b] => some (.rgb8 (16 * r + r) (16 * g + g) (16 * b + b))
    | some [a, r, g, b] => some (.rgba8 (16 * r + r) (16 * g + g) (16 * b + b) (16 * a + a))
    | some [r1, r2, g1, g2, b1, b2] => some (.rgb8 (16 * r1 + r2) (16 * g1 + g2) (16 * b1 + b2))
    | some [a1, a2, r1, r2, g1, g2, b1, b2] =>
      some (.rgba8 (16 * r1 + r2) (16 * g1 + g2) (16 * b1 + b2) (16 * a1 + a2))
    | _ => none
  | _ =>
    if s.map lower = ['t','r','a','n','s','p','a','r','e','n','t'] then some (.rgba8 0 0 0 0)
    else match lookup QV.Spec.svgTable (s.map lower) with
      | some (r, g, b) => some (.rgb8 r g b)
      | none => none

/-- What the form must carry for a colour: alpha (255 when the string has none), red, green, blue. -/
def channels : Color → Nat × Nat × Nat × Nat
  | .rgb8 r g b => (255, r, g, b)
  | .rgba8 r g b a => (a, r, g, b)

end QV.Spec.QtColor
