import QV.Spec.GraphOfTable
import QV.Model.ClassGraphTyped

/-
  Specification for C17, members with types: WHICH declaration answers a member look-up.

  Several classes of an inheritance graph may declare the same member name.  The look-up of `m` on class `c` is
  decided by a declaration that is not hidden: a class `d` that declares `m` and is reached from `c` along public
  super classes without passing a class that declares `m` (`Decides`).  If `c` declares `m` itself that is `c`
  alone — the class's own declaration takes precedence; on a single-inheritance chain it is the nearest
  declaring ancestor; with several bases there may be several candidates (the documentation of the walk asks not
  to rely on which).  The deciding declaration is then either materialised (its type names resolve in the scope
  of the declaring class) or it is an error — an unresolvable declaration never falls through to an ancestor.

  Everything here is plain graph reachability (`Derives`, computed by the certified `ancestors?`), written
  without reference to how qmluic walks the graph.
-/
namespace QV.Spec.Graph
open QV.Model.ClassGraph (TypeExpr)
open QV.Model.ClassGraph.Typed (ClassDeclT TableT PropDecl MethodDeclT)

/-- the class keeps its name and members but lists no super classes -/
def cutNode (P : String → Bool) (d : Node) : Node := if P d.name then { d with publicSupers := [] } else d

/-- the graph in which the classes satisfying `P` (by name) have no outgoing edges -/
def cut (g : Graph) (P : String → Bool) : Graph := g.map (cutNode P)

/-- `d` satisfies `P` and is reached from `c` without passing a class that satisfies `P` -/
def Decides (g : Graph) (P : String → Bool) (c d : String) : Prop := Derives (cut g P) c d ∧ P d = true

/-- executable form: the candidates, by the certified reachability oracle on the cut graph -/
def deciders? (g : Graph) (P : String → Bool) (c : String) : Option (List String) :=
  (ancestors? (cut g P) c).map fun s => s.filter P

/-! ### what a typed table says about one member name (read off the declarations, no walk) -/

/-- the declaration a class name denotes -/
def declOf (t : TableT) (c : String) : Option ClassDeclT := QV.Model.ClassGraph.Typed.lookupClassT t.classes c

/-- the type of the property `p` as class `d` declares it (a later declaration of the same name replaces an
    earlier one) -/
def propTypeOf (d : ClassDeclT) (p : String) : Option TypeExpr :=
  (d.props.reverse.find? fun x => x.name == p).map (·.ty)

/-- the public signals, slots and invokable methods named `m` of class `d`, in that order: kind tag, types
    (return type first) -/
def overloadsOf (d : ClassDeclT) (m : String) : List (String × List TypeExpr) :=
  let pick (k : String) (ms : List MethodDeclT) : List (String × List TypeExpr) :=
    ms.filterMap fun x => if x.isPublic && x.name == m then some (k, x.ret :: x.args) else none
  pick "signal" d.signals ++ pick "slot" d.slots ++ pick "method" d.methods

def builtins : List String := ["bool", "double", "int", "QString", "QVariant", "uint", "void", "qreal"]

/-- some class of `s` declares a nested enum `e` -/
def seesEnum (g : Graph) (s : List String) (e : String) : Bool :=
  s.any fun a => match classOf g a with
    | some d => d.enums.any fun x => x.1 == e
    | none => false

/-- a type name resolves in the scope of class `c`: its first part names a nested enum of `c` or of a public
    ancestor, a class, a module-level type or a builtin; every further part a nested enum of the class named
    before it (or of that class's ancestors).  `none`: the reachability oracle gave up. -/
def typeResolves (g : Graph) (others : List String) (c : String) : TypeExpr → Option Bool
  | .named _ [] => some false
  | .named _ (h :: rest) => do
    let anc ← ancestors? g c
    if seesEnum g anc h then pure rest.isEmpty
    else match classOf g h with
      | some _ =>
        match rest with
        | [] => pure true
        | [e] => do
          let anc' ← ancestors? g h
          pure (seesEnum g anc' e)
        | _ => pure false
      | none => pure ((others.contains h || builtins.contains h) && rest.isEmpty)
  | .list e => typeResolves g others c e
  | .unsupported _ => some false

def allResolve (g : Graph) (others : List String) (c : String) : List TypeExpr → Option Bool
  | [] => some true
  | ty :: rest => do
    let a ← typeResolves g others c ty
    let b ← allResolve g others c rest
    pure (a && b)

end QV.Spec.Graph
