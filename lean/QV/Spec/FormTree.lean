/-
  Specification side of C11: the form skeleton defined by direct recursion on the QML object tree — no
  flattening, no indices, no fuel.  The per-object rule (`assemble`: element kind by ancestry, `<item>`
  wrapping, `<addaction>` list) is shared with the model; what the specification removes is all the plumbing.
-/
import QV.Model.FormTree

namespace QV.Spec.FormTree
open QV.Model.FormTree

def hasResolving : Forest → Bool
  | .nil => false
  | .cons info _ rest => info.resolves || hasResolving rest

/-- every resolving sibling, in source order, built under `mode`; a non-resolving object is absent together
    with its subtree -/
def specForest (mode : Mode) : Forest → List (Built × Nat)
  | .nil => []
  | .cons info ch rest =>
    if info.resolves then
      match assemble mode info (hasResolving ch) (fun m => some (specForest m ch)) with
      | some b => b :: specForest mode rest
      | none => specForest mode rest   -- unreachable: `assemble` is total when the children are
    else specForest mode rest

def specForm (root : Forest) : Option (XF × Nat) :=
  match root with
  | .cons info ch .nil =>
    if info.resolves then
      let ks := specForest .obj ch
      some (widgetOf info ks, (if info.isWidget then 0 else 1) + sumErrors ks)
    else none
  | _ => none

end QV.Spec.FormTree
