/-
  Specification: what a C++17 compiler makes of the characters between the quotes of a string literal
  ([lex.string], [lex.ccon], [lex.charset]) — written from the standard, independent of qmluic and of Rust.

  Input: the s-char-sequence (source characters = Unicode scalar values, source and execution character sets UTF-8 as
  with g++'s defaults).  Output: the elements of the array the literal denotes (without the terminating 0), as
  UTF-16 code units for `u"…"` (what `QStringLiteral` expands to) or as bytes for an ordinary literal; `none` when the
  literal is ill-formed.

  Escapes: simple `\' \" \? \\ \a \b \f \n \r \t \v`; octal `\o`, `\oo`, `\ooo` (at most three digits, greedy);
  hexadecimal `\x` followed by ALL following hex digits (at least one; the value must fit the element type);
  `\uXXXX` / `\UXXXXXXXX` (exactly 4 / 8 hex digits) naming a Unicode scalar value (not a surrogate, ≤ 10FFFF).
  Anything else after a backslash (`\u{…}` of C++23, `\q`) is not a C++17 escape sequence → `none`.
  A bare `"` or new-line cannot occur inside the quotes → `none`.

  The reader is a single left-to-right pass (structural recursion) with an explicit state.  It is validated against
  g++ 12 by the `c16` stream (`spec-cxxlit`, kind=spec).
-/
namespace QV.Spec.CxxLit

/-- element of the decoded literal before encoding -/
inductive Elem where
  /-- a character (directly or by universal-character-name): encoded in the literal's encoding -/
  | cp (c : Nat)
  /-- a numeric (octal/hex) escape: ONE element with that value -/
  | unit (v : Nat)
deriving DecidableEq, Repr

inductive State where
  | normal
  | backslash
  /-- octal escape: value so far, digits read so far (1 or 2) -/
  | octal (v : Nat) (n : Nat)
  /-- hex escape: value so far, at least one digit seen? -/
  | hex (v : Nat) (seen : Bool)
  /-- universal-character-name: value so far, digits still required -/
  | ucn (v : Nat) (left : Nat)
deriving DecidableEq, Repr

def octVal (c : Char) : Option Nat :=
  if '0' ≤ c ∧ c ≤ '7' then some (c.toNat - 48) else none

def hexVal (c : Char) : Option Nat :=
  if '0' ≤ c ∧ c ≤ '9' then some (c.toNat - 48)
  else if 'a' ≤ c ∧ c ≤ 'f' then some (c.toNat - 87)
  else if 'A' ≤ c ∧ c ≤ 'F' then some (c.toNat - 55)
  else none

def simpleEscape (c : Char) : Option Nat :=
  if c = '\'' then some 39 else if c = '"' then some 34 else if c = '?' then some 63 else if c = '\\' then some 92
  else if c = 'a' then some 7 else if c = 'b' then some 8 else if c = 'f' then some 12 else if c = 'n' then some 10
  else if c = 'r' then some 13 else if c = 't' then some 9 else if c = 'v' then some 11 else none

def validScalar (v : Nat) : Bool := v ≤ 0x10FFFF && !(0xD800 ≤ v && v ≤ 0xDFFF)

/-- a character that is not part of an escape sequence -/
def plain (c : Char) (k : Option (List Elem)) : Option (List Elem) :=
  if c = '"' ∨ c = '\n' then none else k.map (Elem.cp c.toNat :: ·)

/-- the reader; `elements st s` = elements denoted by `s` when read in state `st` -/
def elements : State → List Char → Option (List Elem)
  | .normal, [] => some []
  | .normal, c :: rest =>
    if c = '\\' then elements .backslash rest else plain c (elements .normal rest)
  | .backslash, [] => none
  | .backslash, c :: rest =>
    match octVal c with
    | some d => elements (.octal d 1) rest
    | none =>
      if c = 'x' then elements (.hex 0 false) rest
      else if c = 'u' then elements (.ucn 0 4) rest
      else if c = 'U' then elements (.ucn 0 8) rest
      else match simpleEscape c with
        | some v => (elements .normal rest).map (Elem.unit v :: ·)
        | none => none
  | .octal v _, [] => some [Elem.unit v]
  | .octal v n, c :: rest =>
    match octVal c with
    | some d =>
      if n < 2 then elements (.octal (v * 8 + d) (n + 1)) rest
      else (elements .normal rest).map (Elem.unit (v * 8 + d) :: ·)
    | none =>
      -- the escape ends before `c`
      if c = '\\' then (elements .backslash rest).map (Elem.unit v :: ·)
      else (plain c (elements .normal rest)).map (Elem.unit v :: ·)
  | .hex v seen, [] => if seen then some [Elem.unit v] else none
  | .hex v seen, c :: rest =>
    match hexVal c with
    | some d => elements (.hex (v * 16 + d) true) rest
    | none =>
      if !seen then none
      else if c = '\\' then (elements .backslash rest).map (Elem.unit v :: ·)
      else (plain c (elements .normal rest)).map (Elem.unit v :: ·)
  | .ucn _ _, [] => none
  | .ucn v left, c :: rest =>
    match hexVal c with
    | some d =>
      if left ≤ 1 then
        (if validScalar (v * 16 + d) then (elements .normal rest).map (Elem.cp (v * 16 + d) :: ·) else none)
      else elements (.ucn (v * 16 + d) (left - 1)) rest
    | none => none

/-- UTF-16 encoding of a scalar value -/
def utf16 (c : Nat) : List Nat :=
  if c < 0x10000 then [c] else [0xD800 + (c - 0x10000) / 0x400, 0xDC00 + (c - 0x10000) % 0x400]

/-- UTF-8 encoding of a scalar value -/
def utf8 (c : Nat) : List Nat :=
  if c < 0x80 then [c]
  else if c < 0x800 then [0xC0 + c / 0x40, 0x80 + c % 0x40]
  else if c < 0x10000 then [0xE0 + c / 0x1000, 0x80 + (c / 0x40) % 0x40, 0x80 + c % 0x40]
  else [0xF0 + c / 0x40000, 0x80 + (c / 0x1000) % 0x40, 0x80 + (c / 0x40) % 0x40, 0x80 + c % 0x40]

def encodeWith (enc : Nat → List Nat) (maxUnit : Nat) : List Elem → Option (List Nat)
  | [] => some []
  | .cp c :: rest => (encodeWith enc maxUnit rest).map (enc c ++ ·)
  | .unit v :: rest => if v ≤ maxUnit then (encodeWith enc maxUnit rest).map (v :: ·) else none

/-- `u"…"`: array of char16_t -/
def decode16 (s : List Char) : Option (List Nat) := (elements .normal s).bind (encodeWith utf16 0xFFFF)

/-- `"…"`: array of char (UTF-8 execution character set) -/
def decode8 (s : List Char) : Option (List Nat) := (elements .normal s).bind (encodeWith utf8 0xFF)

/-- what the source string should denote: its UTF-16 code units / UTF-8 bytes -/
def units16 (s : List Char) : List Nat := s.flatMap (fun c => utf16 c.toNat)
def bytes8 (s : List Char) : List Nat := s.flatMap (fun c => utf8 c.toNat)

end QV.Spec.CxxLit
