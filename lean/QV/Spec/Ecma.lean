/-
  Specification side of C03 (literals): the mathematical value (MV) of an ECMAScript integer NumericLiteral
  (ECMA-262 §12.9.3 incl. Annex B legacy forms and numeric separators), and how a decimal integer text is read.
  Independent of the implementation: a grammar recogniser that returns the MV.
-/
namespace QV.Spec.Ecma

def digitValue (c : Char) : Option Nat :=
  if '0' ≤ c ∧ c ≤ '9' then some (c.toNat - '0'.toNat)
  else if 'a' ≤ c ∧ c ≤ 'f' then some (c.toNat - 'a'.toNat + 10)
  else if 'A' ≤ c ∧ c ≤ 'F' then some (c.toNat - 'A'.toNat + 10)
  else none

def digitIn (radix : Nat) (c : Char) : Option Nat :=
  match digitValue c with
  | some d => if d < radix then some d else none
  | none => none

/-- `Digits[~Sep]`: one or more digits of the radix, most significant first: the positional value -/
def digits (radix : Nat) : List Char → Nat → Option Nat
  | [], acc => some acc
  | c :: cs, acc =>
    match digitIn radix c with
    | some d => digits radix cs (acc * radix + d)
    | none => none

/-- `Digits[+Sep]`: digits with single `_` separators strictly between digits.
    `afterDigit`: the previous character was a digit (so a separator may follow). -/
def digitsSep (radix : Nat) : Bool → List Char → Nat → Option Nat
  | afterDigit, [], acc => if afterDigit then some acc else none
  | afterDigit, c :: cs, acc =>
    if c = '_' then (if afterDigit ∧ !cs.isEmpty then digitsSep radix false cs acc else none)
    else match digitIn radix c with
      | some d => digitsSep radix true cs (acc * radix + d)
      | none => none

def isOctal (c : Char) : Bool := '0' ≤ c && c ≤ '7'
def isDecimal (c : Char) : Bool := '0' ≤ c && c ≤ '9'

/-- MV of an integer NumericLiteral, `none` if the text is not one -/
def mv (s : List Char) : Option Nat :=
  match s with
  | '0' :: 'b' :: t | '0' :: 'B' :: t => if t.isEmpty then none else digitsSep 2 false t 0
  | '0' :: 'o' :: t | '0' :: 'O' :: t => if t.isEmpty then none else digitsSep 8 false t 0
  | '0' :: 'x' :: t | '0' :: 'X' :: t => if t.isEmpty then none else digitsSep 16 false t 0
  | ['0'] => some 0
  | '0' :: t =>
    -- LegacyOctalIntegerLiteral `0[0-7]+` / NonOctalDecimalIntegerLiteral (a digit 8 or 9 occurs): no separators
    if t.all isOctal then digits 8 t 0
    else if t.all isDecimal then digits 10 t 0
    else none
  | c :: _ => if '1' ≤ c ∧ c ≤ '9' then digitsSep 10 false s 0 else none
  | [] => none

/-- reading a decimal integer text `-?[0-9]+` -/
def readInt (s : List Char) : Option Int :=
  match s with
  | '-' :: t => if t.isEmpty then none else (digits 10 t 0).map fun n => -(n : Int)
  | _ => if s.isEmpty then none else (digits 10 s 0).map fun n => (n : Int)

end QV.Spec.Ecma
