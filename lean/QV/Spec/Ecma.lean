/-
  Specification side of C03 (literals): the mathematical value (MV) of an ECMAScript integer NumericLiteral
  (ECMA-262 §12.9.3 incl. Annex B legacy forms and numeric separators), and how a decimal integer text is read.
  Independent of the implementation: a grammar recogniser that returns the MV.
-/
namespace QV.Spec.Ecma

def digitValue (c : Char) : Option Nat :=
  if '0' ≤ c ∧ c ≤ '9' then some (c.toNat - '0'.toNat)
  else if 'a' ≤ c ∧ c ≤ 'f' then some (c.toNat - 'a'.toNat + 10)
  else if 'A' ≤ c ∧ c ≤ 'F' then some (c.toNat - 'A'.toNat + 10)
  else none

def digitIn (radix : Nat) (c : Char) : Option Nat :=
  match digitValue c with
  | some d => if d < radix then some d else none
  | none => none

/-- `Digits[~Sep]`: one or more digits of the radix, most significant first: the positional value -/
def digits (radix : Nat) : List Char → Nat → Option Nat
  | [], acc => some acc
  | c :: cs, acc =>
    match digitIn radix c with
    | some d => digits radix cs (acc * radix + d)
    | none => none

/-- `Digits[+Sep]`: digits with single `_` separators strictly between digits.
    `afterDigit`: the previous character was a digit (so a separator may follow). -/
def digitsSep (radix : Nat) : Bool → List Char → Nat → Option Nat
  | afterDigit, [], acc => if afterDigit then some acc else none
  | afterDigit, c :: cs, acc =>
    if c = '_' then (if afterDigit ∧ !cs.isEmpty then digitsSep radix false cs acc else none)
    else match digitIn radix c with
      | some d => digitsSep radix true cs (acc * radix + d)
      | none => none

def isOctal (c : Char) : Bool := '0' ≤ c && c ≤ '7'
def isDecimal (c : Char) : Bool := '0' ≤ c && c ≤ '9'

/-- MV of an integer NumericLiteral, `none` if the text is not one -/
def mv (s : List Char) : Option Nat :=
  match s with
  | '0' :: 'b' :: t | '0' :: 'B' :: t => if t.isEmpty then none else digitsSep 2 false t 0
  | '0' :: 'o' :: t | '0' :: 'O' :: t => if t.isEmpty then none else digitsSep 8 false t 0
  | '0' :: 'x' :: t | '0' :: 'X' :: t => if t.isEmpty then none else digitsSep 16 false t 0
  | ['0'] => some 0
  | '0' :: t =>
    -- LegacyOctalIntegerLiteral `0[0-7]+` / NonOctalDecimalIntegerLiteral (a digit 8 or 9 occurs): no separators
    if t.all isOctal then digits 8 t 0
    else if t.all isDecimal then digits 10 t 0
    else none
  | c :: _ => if '1' ≤ c ∧ c ≤ '9' then digitsSep 10 false s 0 else none
  | [] => none

/-- reading a decimal integer text `-?[0-9]+` -/
def readInt (s : List Char) : Option Int :=
  match s with
  | '-' :: t => if t.isEmpty then none else (digits 10 t 0).map fun n => -(n : Int)
  | _ => if s.isEmpty then none else (digits 10 s 0).map fun n => (n : Int)

/-! ### string literals (ECMA-262 §12.9.4 incl. Annex B legacy octal escapes), values as UTF-16 code units -/

/-- UTF16EncodeCodePoint -/
def utf16Encode (cp : Nat) : List Nat :=
  if cp < 65536 then [cp] else [55296 + (cp - 65536) / 1024, 56320 + (cp - 65536) % 1024]

def units16 : List Char → List Nat
  | [] => []
  | c :: cs => utf16Encode c.toNat ++ units16 cs

def isLineTerminator (c : Char) : Bool := c.toNat = 10 || c.toNat = 13 || c.toNat = 8232 || c.toNat = 8233

def octalValue : List Char → Option Nat
  | [] => none
  | ds => digits 8 ds 0

/-- `\\` followed by one character that is not `x` or `u` -/
def singleEscape (c : Char) : List Nat :=
  if isLineTerminator c then []                                  -- LineContinuation
  else if c = '\'' then [39] else if c = '"' then [34] else if c = '\\' then [92]
  else if c = 'b' then [8] else if c = 'f' then [12] else if c = 'n' then [10]
  else if c = 'r' then [13] else if c = 't' then [9] else if c = 'v' then [11]
  else if '0' ≤ c ∧ c ≤ '7' then [c.toNat - 48]                  -- `\0` and single-digit legacy octal
  else utf16Encode c.toNat                                       -- NonEscapeCharacter (incl. `\8`, `\9`): itself

/-- the value of ONE escape sequence (backslash included): `none` if the text is not an escape sequence of the
    (sloppy-mode) grammar; `some []` for a line continuation -/
def escapeValue (e : List Char) : Option (List Nat) :=
  match e with
  | '\\' :: 'x' :: hs => if hs.length = 2 then (digits 16 hs 0).map fun v => [v] else none
  | '\\' :: 'u' :: '{' :: rest =>
    (match rest.getLast? with
     | some '}' =>
       if rest.dropLast.isEmpty then none
       else (match digits 16 rest.dropLast 0 with
         | some cp => if cp ≤ 1114111 then some (utf16Encode cp) else none
         | none => none)
     | _ => none)
  | '\\' :: 'u' :: hs =>
    -- one code unit, possibly a lone surrogate
    if hs.length = 4 then (digits 16 hs 0).map fun v => [v] else none
  | ['\\', c] => some (singleEscape c)
  | ['\\', c, d] =>
    if c.toNat = 13 ∧ d.toNat = 10 then some []                  -- line continuation <CR><LF>
    else if isOctal c ∧ isOctal d then (digits 8 [c, d] 0).map fun v => [v]
    else none
  | ['\\', c, d, f] =>
    if '0' ≤ c ∧ c ≤ '3' ∧ isOctal d ∧ isOctal f then (digits 8 [c, d, f] 0).map fun v => [v] else none
  | _ => none

/-- the value of a string literal given as fragments and escape sequences -/
inductive Seg where
  | fragment (s : List Char)
  | escape (s : List Char)
deriving DecidableEq, Repr

def stringValue : List Seg → Option (List Nat)
  | [] => some []
  | .fragment s :: rest => (stringValue rest).map (units16 s ++ ·)
  | .escape e :: rest =>
    match escapeValue e with
    | some v => (stringValue rest).map (v ++ ·)
    | none => none

end QV.Spec.Ecma
