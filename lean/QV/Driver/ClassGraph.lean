import QV.Sexp
import QV.Model.ClassGraph
import QV.Model.ClassGraphRepaired
import QV.Model.ClassGraphTyped
import QV.Spec.Graph
import QV.Spec.GraphOfTable
import QV.Spec.GraphMembers

/-
  Driver handlers for C17 (encoding documented in harness/src/streams/c17.rs):
    (cg (classes ..) (others ..) (queries ..))        → QV.Model.ClassGraph, exact answers
    (spec-cg ..same..)                                → QV.Spec.Graph, coarse answers (what the property determines)
    (f10-cg ..same..)                                 → the F10 variant of the oracle: the coarse projection of what
                                                        "stop at the first unresolved super class" yields
    (cg-repaired ..same..)                            → QV.Model.ClassGraph.Repaired (the code after the proposed F10 repair);
                                                        when the repair is committed, `cg` must dispatch to this variant
    (spec-cg (classes ..) (others ..) (queries ..) (judge) (impl (ans ..)))
                                                      → kind=pred: the real (exact) answers to the member queries are JUDGED by
                                                        QV.Spec.GraphMembers — the answer must be that of an unhidden declaration
                                                        (`Decides`), found iff that declaration's types resolve

  Member types: a property is `"p"` (type `int`) or `("p" "Type")`; a method is `("m" pub NARGS)` (`void m(int, …)`) or
  `("m" pub (args "T1" …) (ret "R"))`.  Type names are read by `parseType` (the decoration stripping of
  util::decorated_type: QStringList, QList<..>, QVector<..>, a trailing `*`, `::`); `cg` is answered by
  QV.Model.ClassGraph.Typed on the typed table, the graph queries by the repaired model on the table with the types forgotten.
-/
namespace QV.Driver.ClassGraph
open QV QV.Model.ClassGraph QV.Model.ClassGraph.Typed

private def str? : Sexp → Option String
  | .str cs => some (String.ofList cs)
  | _ => none

private def section? (tag : String) : Sexp → Option (List Sexp)
  | .list (.atom t :: xs) => if t = tag then some xs else none
  | _ => none

private def access? : Sexp → Option Bool
  | .atom "pub" => some true
  | .atom "prot" => some false
  | .atom "priv" => some false
  | _ => none

private instance : Inhabited TypeExpr := ⟨.unsupported ""⟩

/-- the decoration stripping of util::decorated_type, on the type name as written in the metatypes -/
partial def parseType (name : String) : TypeExpr :=
  let name := if name == "QStringList" then "QList<QString>" else name
  let cs := name.toList
  let stripPrefix (pre : String) (l : List Char) : Option (List Char) :=
    if pre.toList.isPrefixOf l then some (l.drop pre.length) else none
  match cs.reverse with
  | '>' :: revInner =>
    let inner := revInner.reverse
    match stripPrefix "QList<" inner with
    | some t => .list (parseType (String.ofList t))
    | none =>
      match stripPrefix "QVector<" inner with
      | some t => .list (parseType (String.ofList t))
      | none => .unsupported name
  | '*' :: revBase =>
    let base := String.ofList revBase.reverse
    .named base (base.splitOn "::")
  | _ => .named name (name.splitOn "::")

private def method? : Sexp → Option MethodDeclT
  | .list [n, a, .list (.atom "args" :: tys), .list [.atom "ret", r]] => do
    pure { name := ← str? n, isPublic := ← access? a, ret := parseType (← str? r),
           args := (← Sexp.mapM? str? tys).map parseType }
  | .list [n, a, k] => do
    pure { name := ← str? n, isPublic := ← access? a, args := List.replicate (← Sexp.toNat? k) .int }
  | _ => none

private def prop? : Sexp → Option PropDecl
  | .list [n, ty] => do pure { name := ← str? n, ty := parseType (← str? ty) }
  | s => do pure { name := ← str? s }

private def enum? : Sexp → Option EnumDecl
  | .list (n :: .atom sc :: vs) => do
    let sc ← match sc with
      | "scoped" => some true
      | "unscoped" => some false
      | _ => none
    pure { name := ← str? n, isScoped := sc, variants := ← Sexp.mapM? str? vs }
  | _ => none

private def super? : Sexp → Option (Name × Bool)
  | .list [n, a] => do pure (← str? n, ← access? a)
  | _ => none

private def class? : Sexp → Option ClassDeclT
  | .list [.atom "class", n, su, pr, si, sl, me, en] => do
    pure { name := ← str? n
           supers := ← Sexp.mapM? super? (← section? "supers" su)
           props := ← Sexp.mapM? prop? (← section? "props" pr)
           signals := ← Sexp.mapM? method? (← section? "signals" si)
           slots := ← Sexp.mapM? method? (← section? "slots" sl)
           methods := ← Sexp.mapM? method? (← section? "methods" me)
           enums := ← Sexp.mapM? enum? (← section? "enums" en) }
  | _ => none

private def table? (cs os : Sexp) : Option TableT := do
  pure { classes := ← Sexp.mapM? class? (← section? "classes" cs)
         others := ← Sexp.mapM? str? (← section? "others" os) }

inductive Query where
  | derives (a b : Name) | commonBase (a b : Name) | supers (c : Name)
  | prop (c n : Name) | method (c n : Name) | variant (c n : Name) | type (c n : Name)
  /-- scoped names `A::B::C`: get-type-scoped on the module / on class `c`, resolve-type-scoped on class `c` -/
  | gscoped (n : Name) | cscoped (c n : Name) | rscoped (c n : Name)

private def expand (names : List Name) (q : Sexp) : Option (List Query) :=
  match q with
  | .list (.atom tag :: args) => do
    let a ← Sexp.mapM? str? args
    let two (f : Name → Name → Query) : Option (List Query) :=
      match a with
      | [x, y] => some [f x y]
      | _ => none
    let pairs (f : Name → Name → Query) : List Query := (names.map fun x => names.map fun y => f x y).flatten
    let each (f : Name → Name → Query) : List Query := (names.map fun x => a.map fun n => f x n).flatten
    match tag with
    | "derives" => two .derives
    | "commonbase" => two .commonBase
    | "prop" => two .prop
    | "method" => two .method
    | "variant" => two .variant
    | "type" => two .type
    | "cscoped" => two .cscoped
    | "rscoped" => two .rscoped
    | "gscoped" => match a with
      | [x] => some [.gscoped x]
      | _ => none
    | "gscoped*" => some (a.map .gscoped)
    | "cscoped*" => some (each .cscoped)
    | "rscoped*" => some (each .rscoped)
    | "supers" => match a with
      | [x] => some [.supers x]
      | _ => none
    | "derives*" => some (pairs .derives)
    | "commonbase*" => some (pairs .commonBase)
    | "supers*" => some (names.map .supers)
    | "prop*" => some (each .prop)
    | "method*" => some (each .method)
    | "variant*" => some (each .variant)
    | "type*" => some (each .type)
    | _ => none
  | _ => none

private def queries? (names : List Name) (qs : Sexp) : Option (List Query) := do
  let l ← Sexp.mapM? (expand names) (← section? "queries" qs)
  pure l.flatten

private def primitives : List String := ["bool", "double", "int", "qreal", "QString", "QVariant", "uint", "void"]

/-- inputs outside the modelled fragment (same conditions as `TableSpec::unsupported` in the harness) -/
private def unsupported (t : TableT) : Bool :=
  t.classes.any (fun c => t.others.contains c.name || primitives.contains c.name ||
    c.supers.any fun s => (s.1.splitOn "::").length > 1 || s.1 == "QString" ||
      (primitives.contains s.1 && !t.others.contains s.1)) ||
  t.others.any fun o => o == "QString" || (o.splitOn "::").length > 1

private def errSexp : TypeMapError → Sexp
  | .invalidTypeRef n => .list [.atom "err", .atom "tr", Sexp.ofString n]
  | .invalidSuperClassType n => .list [.atom "err", .atom "sc", Sexp.ofString n]
  | .unsupportedDecoration n => .list [.atom "err", .atom "ud", Sexp.ofString n]

private def kindAtom : MethodKind → Sexp
  | .signal => .atom "signal"
  | .slot => .atom "slot"
  | .method => .atom "method"

private def lookupSexp {α : Type} (coarse : Bool) (self : ClassDecl) (owner : α → ClassDecl) (exact : α → Sexp) :
    Lookup α → Sexp
  | .notFound => .atom "-"
  | .error e => if coarse then .atom "-" else errSexp e
  | .found a => if coarse then .list [.atom (if (owner a).name = self.name then "own" else "inh")] else exact a

private def namedSexp (coarse : Bool) : Option Named → Sexp
  | none => .atom "-"
  | some x =>
    if coarse then .list [.atom "found"] else
    match x with
    | .cls c => .list [.atom "ok", .atom "class", Sexp.ofString c.name]
    | .nested o n => .list [.atom "ok", .atom "enum", Sexp.ofString (o.name ++ "::" ++ n)]
    | .topEnum n => .list [.atom "ok", .atom "enum", Sexp.ofString n]
    | .prim n => .list [.atom "ok", .atom "prim", Sexp.ofString n]

/-- the query functions of one variant of the model -/
structure Api where
  isDerivedFrom : Table → ClassDecl → ClassDecl → Bool
  commonBaseClass : Table → ClassDecl → ClassDecl → Lookup ClassDecl
  getProperty : TableT → ClassDecl → Name → Lookup ClassDecl
  getPublicMethod : TableT → ClassDecl → Name → Lookup (ClassDecl × List MethodData)
  getEnumByVariant : Table → ClassDecl → Name → Lookup (ClassDecl × EnumDecl)
  getType : Table → ClassDecl → Name → Lookup (ClassDecl × EnumDecl)

/-- /repo before the F10 repair (member types read as `int`/`void`) -/
def currentApi : Api :=
  { isDerivedFrom, commonBaseClass, getProperty := fun t => getProperty t.erase,
    getPublicMethod := fun t => getPublicMethod t.erase, getEnumByVariant, getType }

/-- /repo as it is (F10 repaired, commit 8d2984c), member types included -/
def repairedApi : Api :=
  { isDerivedFrom := Repaired.isDerivedFrom, commonBaseClass := Repaired.commonBaseClass,
    getProperty := Typed.getProperty, getPublicMethod := Typed.getPublicMethod,
    getEnumByVariant := Repaired.getEnumByVariant, getType := Repaired.getType }

private def runModel (api : Api) (tt : TableT) (coarse : Bool) (q : Query) : Sexp :=
  let t := tt.erase
  let cls (n : Name) := lookupClass t.classes n
  let qual (p : ClassDecl × EnumDecl) : Sexp := .list [.atom "ok", Sexp.ofString (p.1.name ++ "::" ++ p.2.name)]
  match q with
  | .derives a b =>
    match cls a, cls b with
    | some x, some y => .atom (if api.isDerivedFrom t x y then "T" else "F")
    | _, _ => .atom "noclass"
  | .commonBase a b =>
    match cls a, cls b with
    | some x, some y =>
      match api.commonBaseClass t x y with
      | .notFound => .atom "-"
      | .error e => if coarse then .atom "-" else errSexp e
      | .found c => if coarse then .list [.atom "cb"] else .list [.atom "ok", Sexp.ofString c.name]
    | _, _ => .atom "noclass"
  | .supers c =>
    match cls c with
    | some x =>
      if coarse then
        .list (.atom "sup" :: (superClasses t x).filterMap fun
          | .ok c => some (Sexp.ofString c.name)
          | .err _ => none)
      else
        .list (.atom "items" :: (superClasses t x).map fun
          | .ok c => .list [.atom "ok", Sexp.ofString c.name]
          | .err e => errSexp e)
    | none => .atom "noclass"
  | .prop c n =>
    match cls c with
    | some x => lookupSexp coarse x id (fun o => .list [.atom "ok", Sexp.ofString o.name]) (api.getProperty tt x n)
    | none => .atom "noclass"
  | .method c n =>
    match cls c with
    | some x => lookupSexp coarse x (·.1)
        (fun r => .list (.atom "ok" :: Sexp.ofString r.1.name :: r.2.map fun m => .list [kindAtom m.kind, Sexp.ofNat m.nargs]))
        (api.getPublicMethod tt x n)
    | none => .atom "noclass"
  | .variant c n =>
    match cls c with
    | some x => lookupSexp coarse x (·.1) qual (api.getEnumByVariant t x n)
    | none => .atom "noclass"
  | .type c n =>
    match cls c with
    | some x => lookupSexp coarse x (·.1) qual (api.getType t x n)
    | none => .atom "noclass"
  | .gscoped n => namedSexp coarse (moduleGetTypeScoped t (n.splitOn "::"))
  | .cscoped c n =>
    match cls c with
    | some x => namedSexp coarse (classGetTypeScoped t x (n.splitOn "::"))
    | none => .atom "noclass"
  | .rscoped c n =>
    match cls c with
    | some x => namedSexp coarse (classResolveTypeScoped t x (n.splitOn "::"))
    | none => .atom "noclass"

private def withRequest (args : List Sexp) (k : TableT → List Query → Sexp) : Sexp :=
  match args with
  | [cs, os, qs] =>
    match table? cs os with
    | some t =>
      if unsupported t then .list [.atom "skip", .atom "unsupported"] else
      match queries? (t.classes.map (·.name)) qs with
      | some q => k t q
      | none => .list [.atom "bad-request", .atom "queries"]
    | none => .list [.atom "bad-request", .atom "table"]
  | _ => .list [.atom "bad-request"]

/-- model side: `cg` (exact answers) and `f10-cg` (coarse projection of the model = the F10 variant of the oracle) -/
def handleModel (tag : String) (args : List Sexp) : Sexp :=
  -- /repo carries the F10 repair (commit 8d2984c): `cg` is the repaired code; the pre-repair behaviour stays
  -- available as `cg-prefix` (pre-repair witness) and `f10-cg` (coarse projection of the pre-repair model)
  let api := if tag == "cg" || tag == "cg-repaired" then repairedApi else currentApi
  withRequest args fun t qs => .list (.atom "ans" :: qs.map (runModel api t (tag == "f10-cg")))

/-! specification side: computed from QV.Spec.Graph / QV.Spec.GraphMembers only, on the graph reading `toGraph`
    of the table (types forgotten) and the declarations of the typed table -/
section spec
open QV.Spec.Graph

/-- what the typed table says about one member name: which classes declare it (by name), and whether the
    declaration of a class resolves (in the scope of that class) -/
private structure MemberView where
  declares : String → Bool
  resolves : String → Option Bool

private def propView (g : Graph) (tt : TableT) (n : Name) : MemberView :=
  { declares := fun x => match declOf tt x with
      | some d => (propTypeOf d n).isSome
      | none => false
    resolves := fun x => match (declOf tt x).bind (propTypeOf · n) with
      | some ty => typeResolves g tt.others x ty
      | none => some false }

private def methodView (g : Graph) (tt : TableT) (n : Name) : MemberView :=
  { declares := fun x => match declOf tt x with
      | some d => !(overloadsOf d n).isEmpty
      | none => false
    resolves := fun x => match declOf tt x with
      | some d => allResolve g tt.others x ((overloadsOf d n).flatMap (·.2))
      | none => some false }

private def enumView (g : Graph) (n : Name) : MemberView :=
  { declares := fun x => match classOf g x with
      | some d => d.enums.any fun e => e.1 == n
      | none => false
    resolves := fun _ => some true }

private def variantView (g : Graph) (n : Name) : MemberView :=
  { declares := fun x => match classOf g x with
      | some d => d.enums.any fun e => !e.2.1 && e.2.2.contains n
      | none => false
    resolves := fun _ => some true }

private def viewOf (g : Graph) (tt : TableT) : Query → Option (Name × MemberView)
  | .prop c n => some (c, propView g tt n)
  | .method c n => some (c, methodView g tt n)
  | .type c n => some (c, enumView g n)
  | .variant c n => some (c, variantView g n)
  | _ => none

/-- Scoped names, specification: the first part is a nested enum the starting class sees (own or inherited); when
    looked up on the module, or — resolve — when the class sees no such enum: a class or a module-level type, and for
    resolve also a builtin.  A second part must be a nested enum that the class named by the first part or one of its
    public ancestors DECLARES; nothing has a third part. -/
private def scopedSpec (g : Graph) (tt : TableT) (ancestors? : Graph → String → Option (List String))
    (start : Option String) (segs : List String) (resolve : Bool) : Option Sexp := do
  let found (b : Bool) : Sexp := if b then .list [.atom "found"] else .atom "-"
  let isTop (n : String) : Bool := tt.others.contains n && !builtins.contains n
  -- what the first part denotes: 0 nothing, 1 something without members, 2 a class
  let head (h : String) : Option Nat := do
    let viaClass ← match start with
      | some c => do
        let anc ← ancestors? g c
        pure (seesEnum g anc h)
      | none => pure false
    if viaClass then pure 1
    else if start.isSome && !resolve then pure 0
    else if (classOf g h).isSome then pure 2
    else if isTop h then pure 1
    else if resolve && builtins.contains h then pure 1
    else pure 0
  match segs with
  | [] => pure (.atom "-")
  | [h] => pure (found ((← head h) != 0))
  | [h, b] =>
    if (← head h) == 2 then do
      let anc ← ancestors? g h
      pure (found (seesEnum g anc b))
    else pure (.atom "-")
  | _ => pure (.atom "-")

private def runSpec (g : Graph) (tt : TableT) (ancestors? : Graph → String → Option (List String)) (q : Query) : Option Sexp :=
  /- coarse answer to a member query: `(own)` / `(inh)` when a resolvable declaration decides, `-` when nothing
     is declared or the deciding declaration does not resolve (an `Err` counts as "not found").  `none` (the
     request is skipped) when several classes can decide and they differ in resolvability. -/
  let member (c : Name) (v : MemberView) : Option Sexp :=
    match classOf g c with
    | none => some (.atom "noclass")
    | some _ =>
      if v.declares c then do
        pure (if ← v.resolves c then .list [.atom "own"] else .atom "-")
      else do
        let anc ← ancestors? g c
        let declaring := anc.filter v.declares
        let rs ← declaring.mapM v.resolves
        if declaring.isEmpty then pure (.atom "-")
        else if rs.all id then pure (.list [.atom "inh"])
        else if rs.all (!·) then pure (.atom "-")
        else do
          let ds ← deciders? g v.declares c
          let rs ← ds.mapM v.resolves
          if rs.all id then pure (.list [.atom "inh"])
          else if rs.all (!·) then pure (.atom "-")
          else none
  match q with
  | .derives a b =>
    match classOf g a, classOf g b with
    | some _, some _ => do
      let anc ← ancestors? g a
      pure (.atom (if b ∈ anc then "T" else "F"))
    | _, _ => some (.atom "noclass")
  | .commonBase a b =>
    match classOf g a, classOf g b with
    | some _, some _ => do
      let x ← ancestors? g a
      let y ← ancestors? g b
      pure (if x.any (fun c => c ∈ y) then .list [.atom "cb"] else .atom "-")
    | _, _ => some (.atom "noclass")
  | .supers c =>
    match classOf g c with
    | some _ => some (.list (.atom "sup" :: (succs g c).map Sexp.ofString))
    | none => some (.atom "noclass")
  | .gscoped n => scopedSpec g tt ancestors? none (n.splitOn "::") false
  | .cscoped c n =>
    match classOf g c with
    | some _ => scopedSpec g tt ancestors? (some c) (n.splitOn "::") false
    | none => some (.atom "noclass")
  | .rscoped c n =>
    match classOf g c with
    | some _ => scopedSpec g tt ancestors? (some c) (n.splitOn "::") true
    | none => some (.atom "noclass")
  | q =>
    match viewOf g tt q with
    | some (c, v) => member c v
    | none => none

/-- some class reachable from `c` lists a public super class that denotes no class -/
private def danglingFrom? (g : Graph) (c : String) : Option Bool := do
  let anc ← ancestors? g c
  pure (anc.any fun a => match classOf g a with
    | some d => d.publicSupers.any fun s => (classOf g s).isNone
    | none => false)

private def failWith (why : String) (extra : List Sexp) : Option (Option Sexp) :=
  some (some (.list (.atom "fail" :: Sexp.ofString why :: extra)))

/-- kind=pred: judges the REAL exact answer to a member query.  `none`: the oracle gave up (skip),
    `some none`: accepted, `some (some why)`: refuted. -/
private def judgeScoped (g : Graph) (tt : TableT) (start : Option String) (n : String) (resolve : Bool) (ans : Sexp) :
    Option (Option Sexp) := do
  let segs := n.splitOn "::"
  let want ← scopedSpec g tt ancestors? start segs resolve
  let isFound := match ans with
    | .list (.atom "ok" :: _) => true
    | _ => false
  if want == .atom "noclass" then (if ans == want then some none else failWith "class does not exist" [])
  else if isFound != (want != .atom "-") then
    failWith (if isFound then "a scoped name is found although its last part is not a member (declared by the class before it or a public ancestor)"
              else "a scoped name whose parts are members is not found") [Sexp.ofString n]
  else match ans, segs with
    | .list [.atom "ok", .atom "enum", .str o], [a, b] =>
      -- `Owner::B`: the owner is `a` or a public ancestor of `a`, and declares the enum
      match (String.ofList o).splitOn "::" with
      | [owner, e] => do
        let anc ← ancestors? g a
        if e == b && anc.contains owner && seesEnum g [owner] b then some none
        else failWith "the enum found is not declared by the class or one of its public ancestors" [Sexp.ofString (String.ofList o)]
      | _ => failWith "malformed enum name" []
    | _, _ => some none

private def judge (g : Graph) (tt : TableT) (q : Query) (ans : Sexp) : Option (Option Sexp) :=
  match q with
  | .gscoped n => judgeScoped g tt none n false ans
  | .cscoped c n => judgeScoped g tt (some c) n false ans
  | .rscoped c n => judgeScoped g tt (some c) n true ans
  | _ =>
  match viewOf g tt q with
  | none => some none
  | some (c, v) =>
    match classOf g c with
    | none => if ans == .atom "noclass" then some none else failWith "class does not exist" []
    | some _ => do
      let ds ← deciders? g v.declares c
      let rs ← ds.mapM v.resolves
      let cand := ds.zip rs
      let dangling ← danglingFrom? g c
      let names := Sexp.list (.atom "deciders" :: cand.map fun x => .list [Sexp.ofString x.1, .atom (if x.2 then "resolves" else "unresolvable")])
      -- `get_type` does not report unresolved super classes
      let reports := match q with
        | .type _ _ => false
        | _ => true
      match ans with
      | .atom "-" =>
        if !ds.isEmpty then failWith "declared by an unhidden class, but answered 'not found'" [names]
        else if dangling && reports then failWith "nothing declares the name and a super class is unresolved: the deferred error is due" []
        else some none
      | .list (.atom "err" :: _) =>
        if ds.isEmpty then
          (if dangling && reports then some none else failWith "an error, although nothing is declared and nothing is unresolved" [])
        else if cand.any (fun x => !x.2) then some none
        else failWith "an error, although every declaration that can decide resolves" [names]
      | .list (.atom "ok" :: .str o :: rest) =>
        let whole := String.ofList o
        -- properties and methods name the owner; enums are named `Owner::Enum`
        let (owner, en) := match q, whole.splitOn "::" with
          | .type _ _, [a, b] => (a, some b)
          | .variant _ _, [a, b] => (a, some b)
          | _, _ => (whole, none)
        match cand.find? (·.1 == owner) with
        | none => failWith "the owner is not a class whose declaration can decide (hidden, not an ancestor, or not declaring)" [Sexp.ofString owner, names]
        | some (_, false) => failWith "found, although the deciding declaration does not resolve" [Sexp.ofString owner, names]
        | some (_, true) =>
          match q with
          | .method _ n =>
            -- the overloads of the owner, in declaration order (signals, slots, methods)
            let want := match declOf tt owner with
              | some d => (overloadsOf d n).map fun x => Sexp.list [.atom x.1, Sexp.ofNat (x.2.length - 1)]
              | none => []
            if rest == want then some none else failWith "overloads differ from the owner's public methods of that name" [.list want]
          | .type _ n => if en == some n then some none else failWith "another enum" []
          | .variant _ n =>
            match classOf g owner, en with
            | some d, some e =>
              if d.enums.any fun x => x.1 == e && !x.2.1 && x.2.2.contains n then some none
              else failWith "the enum does not list the variant" []
            | _, _ => failWith "malformed enum name" []
          | _ => some none
      | _ => failWith "unreadable answer" []

def handleSpec (_tag : String) (args : List Sexp) : Sexp :=
  match args with
  | [cs, os, qs, .list [.atom "judge"], .list [.atom "impl", .list (.atom "ans" :: answers)]] =>
    withRequest [cs, os, qs] fun t queries =>
      let g := toGraph t.erase
      if answers.length ≠ queries.length then .list [.atom "fail", Sexp.ofString "number of answers"] else
      let verdicts := (queries.zip answers).map fun qa => judge g t qa.1 qa.2
      match (verdicts.zipIdx.filterMap fun vi => match vi.1 with
          | some (some why) => some (Sexp.list [.atom "query", Sexp.ofNat vi.2, why])
          | _ => none) with
      | [] =>
        if verdicts.all Option.isSome then .list [.atom "ok", Sexp.ofNat queries.length]
        else .list [.atom "skip", .atom "not-saturated"]
      | bad :: _ => .list [.atom "fail", bad]
  | [_, _, _, .list [.atom "judge"]] => .list [.atom "bad-request", .atom "judge-without-impl"]
  | _ =>
  withRequest args fun t qs =>
    let g := toGraph t.erase
    -- `ancestors?` of every class, computed once per table
    let memo : List (String × Option (List String)) := t.classes.map fun c => (c.name, ancestors? g c.name)
    let anc (g' : Graph) (a : String) : Option (List String) :=
      match memo.find? (·.1 == a) with
      | some (_, r) => r
      | none => ancestors? g' a
    let l := qs.map (runSpec g t anc)
    if l.all Option.isSome then .list (.atom "ans" :: l.filterMap id)
    else .list [.atom "skip", .atom "not-determined"]

end spec

end QV.Driver.ClassGraph
