import QV.Sexp
import QV.Model.ClassGraph
import QV.Model.ClassGraphRepaired
import QV.Spec.Graph
import QV.Spec.GraphOfTable

/-
  Driver handlers for C17 (encoding documented in harness/src/streams/c17.rs):
    (cg (classes ..) (others ..) (queries ..))        → QV.Model.ClassGraph, exact answers
    (spec-cg ..same..)                                → QV.Spec.Graph, coarse answers (what the property determines)
    (f10-cg ..same..)                                 → the F10 variant of the oracle: the coarse projection of what
                                                        "stop at the first unresolved super class" yields
    (cg-repaired ..same..)                            → QV.Model.ClassGraph.Repaired (the code after the proposed F10 repair);
                                                        when the repair is committed, `cg` must dispatch to this variant
-/
namespace QV.Driver.ClassGraph
open QV QV.Model.ClassGraph

private def str? : Sexp → Option String
  | .str cs => some (String.ofList cs)
  | _ => none

private def section? (tag : String) : Sexp → Option (List Sexp)
  | .list (.atom t :: xs) => if t = tag then some xs else none
  | _ => none

private def access? : Sexp → Option Bool
  | .atom "pub" => some true
  | .atom "prot" => some false
  | .atom "priv" => some false
  | _ => none

private def method? : Sexp → Option MethodDecl
  | .list [n, a, k] => do pure { name := ← str? n, isPublic := ← access? a, nargs := ← Sexp.toNat? k }
  | _ => none

private def enum? : Sexp → Option EnumDecl
  | .list (n :: .atom sc :: vs) => do
    let sc ← match sc with
      | "scoped" => some true
      | "unscoped" => some false
      | _ => none
    pure { name := ← str? n, isScoped := sc, variants := ← Sexp.mapM? str? vs }
  | _ => none

private def super? : Sexp → Option (Name × Bool)
  | .list [n, a] => do pure (← str? n, ← access? a)
  | _ => none

private def class? : Sexp → Option ClassDecl
  | .list [.atom "class", n, su, pr, si, sl, me, en] => do
    pure { name := ← str? n
           supers := ← Sexp.mapM? super? (← section? "supers" su)
           props := ← Sexp.mapM? str? (← section? "props" pr)
           signals := ← Sexp.mapM? method? (← section? "signals" si)
           slots := ← Sexp.mapM? method? (← section? "slots" sl)
           methods := ← Sexp.mapM? method? (← section? "methods" me)
           enums := ← Sexp.mapM? enum? (← section? "enums" en) }
  | _ => none

private def table? (cs os : Sexp) : Option Table := do
  pure { classes := ← Sexp.mapM? class? (← section? "classes" cs)
         others := ← Sexp.mapM? str? (← section? "others" os) }

inductive Query where
  | derives (a b : Name) | commonBase (a b : Name) | supers (c : Name)
  | prop (c n : Name) | method (c n : Name) | variant (c n : Name) | type (c n : Name)

private def expand (names : List Name) (q : Sexp) : Option (List Query) :=
  match q with
  | .list (.atom tag :: args) => do
    let a ← Sexp.mapM? str? args
    let two (f : Name → Name → Query) : Option (List Query) :=
      match a with
      | [x, y] => some [f x y]
      | _ => none
    let pairs (f : Name → Name → Query) : List Query := (names.map fun x => names.map fun y => f x y).flatten
    let each (f : Name → Name → Query) : List Query := (names.map fun x => a.map fun n => f x n).flatten
    match tag with
    | "derives" => two .derives
    | "commonbase" => two .commonBase
    | "prop" => two .prop
    | "method" => two .method
    | "variant" => two .variant
    | "type" => two .type
    | "supers" => match a with
      | [x] => some [.supers x]
      | _ => none
    | "derives*" => some (pairs .derives)
    | "commonbase*" => some (pairs .commonBase)
    | "supers*" => some (names.map .supers)
    | "prop*" => some (each .prop)
    | "method*" => some (each .method)
    | "variant*" => some (each .variant)
    | "type*" => some (each .type)
    | _ => none
  | _ => none

private def queries? (names : List Name) (qs : Sexp) : Option (List Query) := do
  let l ← Sexp.mapM? (expand names) (← section? "queries" qs)
  pure l.flatten

private def primitives : List String := ["bool", "double", "int", "qreal", "QString", "QVariant", "uint", "void"]

/-- inputs outside the modelled fragment (same conditions as `TableSpec::unsupported` in the harness) -/
private def unsupported (t : Table) : Bool :=
  t.classes.any (fun c => t.others.contains c.name || primitives.contains c.name ||
    c.supers.any fun s => (s.1.splitOn "::").length > 1 || s.1 == "QString" ||
      (primitives.contains s.1 && !t.others.contains s.1)) ||
  t.others.any fun o => o == "QString" || (o.splitOn "::").length > 1

private def errSexp : TypeMapError → Sexp
  | .invalidTypeRef n => .list [.atom "err", .atom "tr", Sexp.ofString n]
  | .invalidSuperClassType n => .list [.atom "err", .atom "sc", Sexp.ofString n]

private def kindAtom : MethodKind → Sexp
  | .signal => .atom "signal"
  | .slot => .atom "slot"
  | .method => .atom "method"

private def lookupSexp {α : Type} (coarse : Bool) (self : ClassDecl) (owner : α → ClassDecl) (exact : α → Sexp) :
    Lookup α → Sexp
  | .notFound => .atom "-"
  | .error e => if coarse then .atom "-" else errSexp e
  | .found a => if coarse then .list [.atom (if (owner a).name = self.name then "own" else "inh")] else exact a

/-- the query functions of one variant of the model -/
structure Api where
  isDerivedFrom : Table → ClassDecl → ClassDecl → Bool
  commonBaseClass : Table → ClassDecl → ClassDecl → Lookup ClassDecl
  getProperty : Table → ClassDecl → Name → Lookup ClassDecl
  getPublicMethod : Table → ClassDecl → Name → Lookup (ClassDecl × List MethodData)
  getEnumByVariant : Table → ClassDecl → Name → Lookup (ClassDecl × EnumDecl)
  getType : Table → ClassDecl → Name → Lookup (ClassDecl × EnumDecl)

/-- /repo as it is -/
def currentApi : Api :=
  { isDerivedFrom, commonBaseClass, getProperty, getPublicMethod, getEnumByVariant, getType }

/-- /repo after the F10 repair (commit 8d2984c) -/
def repairedApi : Api :=
  { isDerivedFrom := Repaired.isDerivedFrom, commonBaseClass := Repaired.commonBaseClass,
    getProperty := Repaired.getProperty, getPublicMethod := Repaired.getPublicMethod,
    getEnumByVariant := Repaired.getEnumByVariant, getType := Repaired.getType }

private def runModel (api : Api) (t : Table) (coarse : Bool) (q : Query) : Sexp :=
  let cls (n : Name) := lookupClass t.classes n
  let qual (p : ClassDecl × EnumDecl) : Sexp := .list [.atom "ok", Sexp.ofString (p.1.name ++ "::" ++ p.2.name)]
  match q with
  | .derives a b =>
    match cls a, cls b with
    | some x, some y => .atom (if api.isDerivedFrom t x y then "T" else "F")
    | _, _ => .atom "noclass"
  | .commonBase a b =>
    match cls a, cls b with
    | some x, some y =>
      match api.commonBaseClass t x y with
      | .notFound => .atom "-"
      | .error e => if coarse then .atom "-" else errSexp e
      | .found c => if coarse then .list [.atom "cb"] else .list [.atom "ok", Sexp.ofString c.name]
    | _, _ => .atom "noclass"
  | .supers c =>
    match cls c with
    | some x =>
      if coarse then
        .list (.atom "sup" :: (superClasses t x).filterMap fun
          | .ok c => some (Sexp.ofString c.name)
          | .err _ => none)
      else
        .list (.atom "items" :: (superClasses t x).map fun
          | .ok c => .list [.atom "ok", Sexp.ofString c.name]
          | .err e => errSexp e)
    | none => .atom "noclass"
  | .prop c n =>
    match cls c with
    | some x => lookupSexp coarse x id (fun o => .list [.atom "ok", Sexp.ofString o.name]) (api.getProperty t x n)
    | none => .atom "noclass"
  | .method c n =>
    match cls c with
    | some x => lookupSexp coarse x (·.1)
        (fun r => .list (.atom "ok" :: Sexp.ofString r.1.name :: r.2.map fun m => .list [kindAtom m.kind, Sexp.ofNat m.nargs]))
        (api.getPublicMethod t x n)
    | none => .atom "noclass"
  | .variant c n =>
    match cls c with
    | some x => lookupSexp coarse x (·.1) qual (api.getEnumByVariant t x n)
    | none => .atom "noclass"
  | .type c n =>
    match cls c with
    | some x => lookupSexp coarse x (·.1) qual (api.getType t x n)
    | none => .atom "noclass"

private def withRequest (args : List Sexp) (k : Table → List Query → Sexp) : Sexp :=
  match args with
  | [cs, os, qs] =>
    match table? cs os with
    | some t =>
      if unsupported t then .list [.atom "skip", .atom "unsupported"] else
      match queries? (t.classes.map (·.name)) qs with
      | some q => k t q
      | none => .list [.atom "bad-request", .atom "queries"]
    | none => .list [.atom "bad-request", .atom "table"]
  | _ => .list [.atom "bad-request"]

/-- model side: `cg` (exact answers) and `f10-cg` (coarse projection of the model = the F10 variant of the oracle) -/
def handleModel (tag : String) (args : List Sexp) : Sexp :=
  -- /repo carries the F10 repair (commit 8d2984c): `cg` is the repaired code; the pre-repair behaviour stays
  -- available as `cg-prefix` (pre-repair witness) and `f10-cg` (coarse projection of the pre-repair model)
  let api := if tag == "cg" || tag == "cg-repaired" then repairedApi else currentApi
  withRequest args fun t qs => .list (.atom "ans" :: qs.map (runModel api t (tag == "f10-cg")))

/-! specification side: computed from QV.Spec.Graph only, on the graph reading `toGraph` of the table -/
open QV.Spec.Graph in
private def runSpec (g : Graph) (ancestors? : Graph → String → Option (List String)) (q : Query) : Option Sexp :=
  let member (c : Name) (declares : Node → Bool) : Option Sexp :=
    match classOf g c with
    | none => some (.atom "noclass")
    | some d =>
      if declares d then some (.list [.atom "own"]) else do
        let anc ← ancestors? g c
        if anc.any fun a => match classOf g a with
          | some x => declares x
          | none => false
        then pure (.list [.atom "inh"]) else pure (.atom "-")
  match q with
  | .derives a b =>
    match classOf g a, classOf g b with
    | some _, some _ => do
      let anc ← ancestors? g a
      pure (.atom (if b ∈ anc then "T" else "F"))
    | _, _ => some (.atom "noclass")
  | .commonBase a b =>
    match classOf g a, classOf g b with
    | some _, some _ => do
      let x ← ancestors? g a
      let y ← ancestors? g b
      pure (if x.any (fun c => c ∈ y) then .list [.atom "cb"] else .atom "-")
    | _, _ => some (.atom "noclass")
  | .supers c =>
    match classOf g c with
    | some _ => some (.list (.atom "sup" :: (succs g c).map Sexp.ofString))
    | none => some (.atom "noclass")
  | .prop c n => member c fun d => d.props.contains n
  | .method c n => member c fun d => d.methods.contains n
  | .type c n => member c fun d => d.enums.any fun e => e.1 == n
  | .variant c n => member c fun d => d.enums.any fun e => !e.2.1 && e.2.2.contains n

def handleSpec (_tag : String) (args : List Sexp) : Sexp :=
  withRequest args fun t qs =>
    let g := QV.Spec.Graph.toGraph t
    -- `ancestors?` of every class, computed once per table
    let memo : List (String × Option (List String)) := t.classes.map fun c => (c.name, QV.Spec.Graph.ancestors? g c.name)
    let anc (g' : QV.Spec.Graph.Graph) (a : String) : Option (List String) :=
      match memo.find? (·.1 == a) with
      | some (_, r) => r
      | none => QV.Spec.Graph.ancestors? g' a
    let l := qs.filterMap (runSpec g anc)
    if l.length = qs.length then .list (.atom "ans" :: l) else .list [.atom "skip", .atom "not-saturated"]

end QV.Driver.ClassGraph
