import QV.Sexp
import QV.Model.Passes

/-
  Requests:
    (passes <mode> <obj>)          mode = generate | reject | omit
    obj     = (o <oid> "flags" <layoutkind> (<entry>…) (<callback>…) (<attached>…) <obj>…)
              flags ⊆ "ralmwstcveMA": resolves action layout menu widget spacer tabWidget comboOrList tableView
              treeView mapFault attFault;  layoutkind = vbox | hbox | form | grid | unknown
    entry   = (l <id> "name" "flags" <const>)      flags ⊆ "edsgwrt": enters buildDiag shapeOk rangeOk writable readable retTypeOk
              const = dyn | fail | panic | (ok <v>)
            | (g <id> "name" <kind> "flags" (<l-entry>…))   flags ⊆ "ewr"; kind = generic | brush | icon | palette |
              colorGroup | sizePolicy | unsupported | object
    callback = (c <id> <enters:bool>)
    attached = (a <tid> layout|tabWidget|other <resolves:bool> (<entry>…))
  Answer (everything sorted):
    (result (built b) (panic b) (accepted b) (header b) (embedded id…) (evalconst id…) (generated id…) (repeated id…)
            (bindings id…) (connected id…) (diags (subj kind)…) (writes ui? header?))
-/
namespace QV.Driver.Passes
open QV QV.Model.Passes

def const? : Sexp → Option (Option Conv)
  | .atom "dyn" => some none
  | .atom "fail" => some (some .fail)
  | .atom "panic" => some (some .panic)
  | .list [.atom "ok", v] => v.toNat?.map fun n => some (.ok n)
  | _ => none

def leaf? : Sexp → Option Leaf
  | .list [.atom "l", id, .str name, .str flags, c] => do
    let has (ch : Char) := flags.contains ch
    pure { id := ← id.toNat?, name, enters := has 'e', buildDiag := has 'd', const := ← const? c, shapeOk := has 's',
           rangeOk := has 'g', writable := has 'w', readable := has 'r', retTypeOk := has 't' }
  | _ => none

def gkind? : Sexp → Option GKind
  | .atom "generic" => some .generic
  | .atom "brush" => some .brush
  | .atom "icon" => some .icon
  | .atom "palette" => some .palette
  | .atom "colorGroup" => some .colorGroup
  | .atom "sizePolicy" => some .sizePolicy
  | .atom "unsupported" => some .unsupported
  | .atom "object" => some .object
  | _ => none

def entry? : Sexp → Option Entry
  | .list [.atom "g", id, .str name, k, .str flags, .list ms] => do
    let has (ch : Char) := flags.contains ch
    pure (.group { id := ← id.toNat?, name, kind := ← gkind? k, enters := has 'e', writable := has 'w', readable := has 'r',
                   members := ← Sexp.mapM? leaf? ms })
  | s => (leaf? s).map .leaf

def callback? : Sexp → Option Callback
  | .list [.atom "c", id, e] => do pure { id := ← id.toNat?, enters := ← e.toBool? }
  | _ => none

def attached? : Sexp → Option AttMap
  | .list [.atom "a", tid, ty, res, .list es] => do
    let ty ← match ty with
      | .atom "layout" => some AttType.layout
      | .atom "tabWidget" => some .tabWidget
      | .atom "other" => some .other
      | _ => none
    pure { tid := ← tid.toNat?, ty, resolves := ← res.toBool?, entries := ← Sexp.mapM? entry? es }
  | _ => none

def layoutKind? : Sexp → Option LayoutKind
  | .atom "vbox" => some .vbox
  | .atom "hbox" => some .hbox
  | .atom "form" => some .form
  | .atom "grid" => some .grid
  | .atom "unknown" => some .unknown
  | _ => none

partial def forest? : List Sexp → Option Forest
  | [] => some .nil
  | .list (.atom "o" :: oid :: .str flags :: lk :: .list es :: .list cs :: .list as :: kids) :: rest => do
    let has (ch : Char) := flags.contains ch
    let o : Obj := { oid := ← oid.toNat?, resolves := has 'r', isAction := has 'a', isLayout := has 'l', isMenu := has 'm',
                     isWidget := has 'w', isSpacer := has 's', layoutKind := ← layoutKind? lk, isTabWidget := has 't',
                     comboOrList := has 'c', tableView := has 'v', treeView := has 'e', mapFault := has 'M', attFault := has 'A',
                     entries := ← Sexp.mapM? entry? es, callbacks := ← Sexp.mapM? callback? cs,
                     attached := ← Sexp.mapM? attached? as }
    pure (.cons o (← forest? kids) (← forest? rest))
  | _ => none

def mode? : Sexp → Option Mode
  | .atom "generate" => some .generate
  | .atom "reject" => some .reject
  | .atom "omit" => some .omit
  | _ => none

def dkName : DK → String
  | .build => "build" | .convert => "convert" | .notWritable => "notWritable" | .unexpectedType => "unexpectedType"
  | .range => "range" | .unsupportedGadget => "unsupportedGadget" | .spBoth => "spBoth" | .spStretch => "spStretch"
  | .spUnknown => "spUnknown" | .notPropertiesMap => "notPropertiesMap" | .notItemModel => "notItemModel"
  | .notRefList => "notRefList" | .leftover => "leftover" | .cxxRetType => "convert" | .cxxNotReadable => "cxxNotReadable"
  | .cxxNotWritable => "notWritable" | .cxxNested => "cxxNested" | .rejDynamic => "rejDynamic"
  | .rejNotWritable => "notWritable" | .rejCallback => "rejCallback" | .mapFault => "mapFault"
  | .attachedType => "attachedType" | .objectType => "objectType" | .rootNotWidget => "rootNotWidget"
  | .notUiObject => "notUiObject" | .notLayoutItem => "notLayoutItem" | .noChildren => "noChildren"
  | .unknownLayout => "unknownLayout"

private def insertNat (n : Nat) : List Nat → List Nat
  | [] => [n]
  | m :: rest => if n ≤ m then n :: m :: rest else m :: insertNat n rest

def sortNats (l : List Nat) : List Nat := l.foldr insertNat []

private def insertStr (s : String) : List String → List String
  | [] => [s]
  | m :: rest => if s ≤ m then s :: m :: rest else m :: insertStr s rest

def sortStrs (l : List String) : List String := l.foldr insertStr []

def nats (tag : String) (l : List Nat) : Sexp := .list (.atom tag :: (sortNats l).map Sexp.ofNat)

/-- member id ↦ id of its group, so that diagnostics are attributed to top-level entries on both sides -/
def groupOf (r : Result) (subj : Nat) : Nat :=
  let gs := r.objects.flatMap fun p => p.allOuts.filterMap fun e => match e with
    | .group g _ => some g
    | _ => none
  match gs.find? (fun g => g.members.any (·.id = subj)) with
  | some g => g.id
  | none => subj

def render (r : Result) : Sexp :=
  let outs := r.objects.flatMap fun p => p.allOuts.flatMap (·.leafOuts)
  let embedded := outs.filterMap fun (l, o) => o.emb.map fun _ => l.id
  let evalconst := outs.filterMap fun (l, o) => if o.evalConst l then some l.id else none
  let sup := r.support
  let gen := match sup with | some s => s.generated.map (·.1.id) | none => []
  let rep := match sup with | some s => s.repeated.map (·.1.id) | none => []
  let bnd := match sup with | some s => s.bindings | none => []
  let con := match sup with | some s => s.connected | none => []
  -- diagnostics sorted as strings "subj kind" with zero-padded subject
  let pad (n : Nat) : String := let s := toString n; String.ofList (List.replicate (6 - s.length) '0') ++ s
  let ds := sortStrs (r.diags.map fun d => pad (if d.kind = .build then d.subj else groupOf r d.subj) ++ ":" ++ dkName d.kind)
  let w := generateUiFile 0 r
  .list [.atom "result",
    .list [.atom "built", .ofBool r.built], .list [.atom "panic", .ofBool r.panic],
    .list [.atom "accepted", .ofBool r.accepted], .list [.atom "header", .ofBool sup.isSome],
    nats "embedded" embedded, nats "evalconst" evalconst, nats "generated" gen, nats "repeated" rep,
    nats "bindings" bnd, nats "connected" con,
    .list (.atom "diags" :: ds.map fun k => Sexp.list [Sexp.atom (String.ofList (k.toList.take 6)), Sexp.atom (String.ofList (k.toList.drop 7))]),
    .list [.atom "writes", .ofBool (w.1.contains (.ui 0)), .ofBool (w.1.contains (.header 0))]]

def handle (args : List Sexp) : Sexp :=
  match args with
  | m :: doc :: _ =>
    match mode? m, forest? [doc] with
    | some mode, some f => render (run mode f)
    | _, _ => .list [.atom "bad-request"]
  | _ => .list [.atom "bad-request"]

end QV.Driver.Passes
